#!/bin/bash
# setup.sh: build the overlay tool and warm the Go build cache for every group (offline, from files on disk only).
set -u
VERIF_DIR="$(cd "$(dirname "${BASH_SOURCE[0]}")" && pwd)"
REPO="${VERIF_REPO:-/repo}"
export GOFLAGS= GOPROXY=off GOSUMDB=off GOTOOLCHAIN=local GOWORK=off GODEBUG=goindex=0
(cd "$VERIF_DIR/tools" && go build -o bin/mkoverlay ./mkoverlay) || exit 1
rc=0
for group in codec attest gensign shim yubi ca conc; do
  [ -d "$VERIF_DIR/harness/cmd/vc-$group" ] || continue
  scratch="$VERIF_DIR/.build/setup-$group.$$"
  mkdir -p "$scratch"
  "$VERIF_DIR/tools/bin/mkoverlay" -repo "$REPO" -verif "$VERIF_DIR" -group "$group" -out "$scratch" || rc=1
  (cd "$REPO" && go build -tags verif -overlay "$scratch/overlay.json" -o "$scratch/vc" \
      "github.com/theparanoids/ysshra/internal/zzverif/cmd/vc-$group") || rc=1
  if [ "$group" = conc ]; then
    (cd "$REPO" && go build -race -tags verif -overlay "$scratch/overlay.json" -o "$scratch/vc-race" \
      "github.com/theparanoids/ysshra/internal/zzverif/cmd/vc-$group") || rc=1
  fi
  rm -rf "$scratch"
done
exit $rc
