//go:build verif

// Package ev is the evidence / violation / replay / known-findings plumbing shared by every check.
package ev

import (
	"bytes"
	"crypto/sha256"
	"encoding/hex"
	"encoding/json"
	"flag"
	"fmt"
	"hash/fnv"
	"io"
	"log"
	"os"
	"os/exec"
	"path/filepath"
	"runtime"
	"runtime/debug"
	"runtime/pprof"
	"sort"
	"strconv"
	"strings"
	"sync"
	"time"

	"github.com/rs/zerolog"
)

// Violation is one property violation, identified by a stable structural key.
type Violation struct {
	Key    string `json:"key"`
	Desc   string `json:"desc"`
	Case   any    `json:"case"`
	Replay string `json:"-"`
}

// Ctx collects what one run of one check covered.
type Ctx struct {
	Prop, Tier, Level string
	Seed              int
	ReplayPath        string
	ReplayCase        json.RawMessage
	Workers           int
	Deadline          time.Time

	start time.Time
	mu    sync.Mutex

	shard, nshards int
	partial        string
	added          map[string]int64
	shardInfo      []any

	evals      int64
	counters   map[string]int64
	distinct   map[uint64]struct{}
	outcomes   map[string]int64
	samples    []any
	maxSamples int
	viol       map[string]*Violation
	violOrder  []string
	violCount  int64
	cov        map[string]any
	assume     []string
	exhaustive bool
	capped     []string
	rule       string
}

var verifDir = func() string {
	if d := os.Getenv("VERIF_DIR"); d != "" {
		return d
	}
	return "/verif"
}()

// outDir is where evidence/ and replays/ are written (VERIF_EVIDENCE_DIR redirects both, used for mutant runs only).
func outDir(sub string) string {
	if d := os.Getenv("VERIF_EVIDENCE_DIR"); d != "" {
		return filepath.Join(d, sub)
	}
	return filepath.Join(verifDir, sub)
}

// Dir returns the verif root.
func Dir() string { return verifDir }

// Main parses the common flags, silences logging and returns a context.
func Main(levels map[string]string) *Ctx {
	prop := flag.String("prop", "", "property id")
	tier := flag.String("tier", "quick", "quick|thorough")
	replay := flag.String("replay", "", "replay file")
	workers := flag.Int("workers", 16, "parallel workers")
	shard := flag.String("shard", "", "internal: i/n (child process of a sharded run)")
	partial := flag.String("partial", "", "internal: file for the child's partial result")
	flag.Parse()
	zerolog.SetGlobalLevel(zerolog.Disabled)
	log.SetOutput(io.Discard)
	lvl, ok := levels[*prop]
	if !ok {
		fmt.Fprintf(os.Stderr, "unknown property %q for this group\n", *prop)
		os.Exit(2)
	}
	if t := os.Getenv("VERIF_TIER"); t != "" && flag.Lookup("tier").Value.String() == "quick" && false {
		*tier = t
	}
	c := &Ctx{Prop: *prop, Tier: *tier, Level: lvl, Workers: *workers, start: time.Now(),
		counters: map[string]int64{}, distinct: map[uint64]struct{}{}, outcomes: map[string]int64{},
		viol: map[string]*Violation{}, cov: map[string]any{}, maxSamples: 6, exhaustive: true}
	if *shard != "" {
		fmt.Sscanf(*shard, "%d/%d", &c.shard, &c.nshards)
		c.partial = *partial
	}
	if s := os.Getenv("VERIF_SEED"); s != "" {
		c.Seed, _ = strconv.Atoi(s)
	}
	budget := 20 * time.Minute
	if *tier == "thorough" {
		budget = 3 * time.Hour
	}
	if b := os.Getenv("VERIF_BUDGET_S"); b != "" {
		if n, err := strconv.Atoi(b); err == nil {
			budget = time.Duration(n) * time.Second
		}
	}
	c.Deadline = c.start.Add(budget)
	if pf := os.Getenv("VERIF_PPROF"); pf != "" {
		f, _ := os.Create(pf)
		pprof.StartCPUProfile(f)
		runtime.SetBlockProfileRate(10000)
		stopProf = func() {
			pprof.StopCPUProfile()
			f.Close()
			bf, _ := os.Create(pf + ".block")
			pprof.Lookup("block").WriteTo(bf, 0)
			bf.Close()
		}
	}
	if *replay != "" {
		b, err := os.ReadFile(*replay)
		if err != nil {
			fmt.Fprintln(os.Stderr, err)
			os.Exit(2)
		}
		var v struct {
			Case json.RawMessage `json:"case"`
		}
		if err := json.Unmarshal(b, &v); err != nil {
			fmt.Fprintln(os.Stderr, err)
			os.Exit(2)
		}
		c.ReplayPath, c.ReplayCase = *replay, v.Case
	}
	return c
}

var stopProf = func() {}

// Thorough reports whether the thorough tier was requested.
func (c *Ctx) Thorough() bool { return c.Tier == "thorough" }

// Expired reports whether the internal deadline has passed; the caller stops, and the run is reported as capped.
func (c *Ctx) Expired(what string) bool {
	if time.Now().After(c.Deadline) {
		c.Cap("deadline reached in " + what)
		return true
	}
	return false
}

// Cap records that some bound/cap was hit: the run is then not exhaustive.
func (c *Ctx) Cap(what string) {
	c.mu.Lock()
	defer c.mu.Unlock()
	c.exhaustive = false
	for _, w := range c.capped {
		if w == what {
			return
		}
	}
	c.capped = append(c.capped, what)
}

// Rule sets the description of how cases are enumerated and what counts as non-trivial.
func (c *Ctx) Rule(s string) { c.rule = s }

// Assume records a trusted assumption.
func (c *Ctx) Assume(s ...string) { c.assume = append(c.assume, s...) }

// Set stores an extra coverage key.
func (c *Ctx) Set(k string, v any) {
	c.mu.Lock()
	c.cov[k] = v
	c.mu.Unlock()
}

// Eval counts one evaluated case.
func (c *Ctx) Eval() {
	c.mu.Lock()
	c.evals++
	c.mu.Unlock()
}

// Count adds to a named counter.
func (c *Ctx) Count(name string, n int64) {
	c.mu.Lock()
	c.counters[name] += n
	c.mu.Unlock()
}

// Counter reads a named counter.
func (c *Ctx) Counter(name string) int64 {
	c.mu.Lock()
	defer c.mu.Unlock()
	return c.counters[name]
}

// Outcome counts one observed outcome class (vacuity guard: one class from many runs means nothing collided).
func (c *Ctx) Outcome(class string) {
	c.mu.Lock()
	c.outcomes[class]++
	c.mu.Unlock()
}

// Nontrivial registers a case that exercised the property's interesting branch; key identifies it.
func (c *Ctx) Nontrivial(key string) {
	h := fnv.New64a()
	h.Write([]byte(key))
	c.mu.Lock()
	c.distinct[h.Sum64()] = struct{}{}
	c.mu.Unlock()
}

// Sample keeps a few actual cases for the evidence file.
func (c *Ctx) Sample(v any) {
	c.mu.Lock()
	if len(c.samples) < c.maxSamples {
		c.samples = append(c.samples, v)
	}
	c.mu.Unlock()
}

// SampleN reports how many samples have been stored.
func (c *Ctx) SampleN() int {
	c.mu.Lock()
	defer c.mu.Unlock()
	return len(c.samples)
}

// Violation records a violation. The first case seen per key is kept as the replayable witness.
func (c *Ctx) Violation(key, desc string, cas any) {
	c.mu.Lock()
	defer c.mu.Unlock()
	c.violCount++
	if _, ok := c.viol[key]; ok {
		return
	}
	c.viol[key] = &Violation{Key: key, Desc: desc, Case: cas}
	c.violOrder = append(c.violOrder, key)
}

// Violations returns the number of distinct violation keys so far.
func (c *Ctx) Violations() int {
	c.mu.Lock()
	defer c.mu.Unlock()
	return len(c.viol)
}

// Guard runs f and converts a panic into a string (empty when none).
func Guard(f func()) (panicked string) {
	defer func() {
		if r := recover(); r != nil {
			st := string(debug.Stack())
			panicked = fmt.Sprintf("%v\n%s", r, firstFrames(st, 14))
		}
	}()
	f()
	return ""
}

func firstFrames(st string, n int) string {
	lines := strings.Split(st, "\n")
	var out []string
	for _, l := range lines {
		if strings.Contains(l, "runtime/debug") || strings.Contains(l, "runtime/panic") {
			continue
		}
		out = append(out, l)
		if len(out) >= n {
			break
		}
	}
	return strings.Join(out, "\n")
}

// PanicSite extracts a stable "file:func" site of the first non-runtime frame from a Guard message.
func PanicSite(msg string) string {
	lines := strings.Split(msg, "\n")
	for i, l := range lines {
		l = strings.TrimSpace(l)
		if strings.HasPrefix(l, "/") && strings.Contains(l, ".go:") && !strings.Contains(l, "/runtime/") &&
			!strings.Contains(l, "zzverif") && !strings.Contains(l, "/harness/") {
			file := l
			if j := strings.Index(file, " "); j > 0 {
				file = file[:j]
			}
			if j := strings.LastIndex(file, ":"); j > 0 {
				file = file[:j]
			}
			parts := strings.Split(file, "/")
			if len(parts) > 2 {
				file = strings.Join(parts[len(parts)-2:], "/")
			}
			fn := ""
			if i > 0 {
				fn = strings.TrimSpace(lines[i-1])
				if j := strings.LastIndex(fn, "("); j > 0 {
					fn = fn[:j]
				}
				if j := strings.LastIndex(fn, "/"); j >= 0 {
					fn = fn[j+1:]
				}
			}
			return file + ":" + fn
		}
	}
	return "unknown"
}

type known struct{ prop, key, desc string }

func loadKnown() []known {
	b, err := os.ReadFile(filepath.Join(verifDir, "KNOWN_FINDINGS.txt"))
	if err != nil {
		return nil
	}
	var ks []known
	for _, ln := range strings.Split(string(b), "\n") {
		ln = strings.TrimSpace(ln)
		if !strings.HasPrefix(ln, "known:") {
			continue
		}
		f := strings.Fields(strings.TrimPrefix(ln, "known:"))
		var k known
		var rest []string
		for _, w := range f {
			switch {
			case strings.HasPrefix(w, "property=") && k.prop == "":
				k.prop = strings.TrimPrefix(w, "property=")
			case strings.HasPrefix(w, "key=") && k.key == "":
				k.key = strings.TrimPrefix(w, "key=")
			default:
				rest = append(rest, w)
			}
		}
		k.desc = strings.Join(rest, " ")
		ks = append(ks, k)
	}
	return ks
}

// partialResult is what a shard child hands back to its parent.
type partialResult struct {
	Evals      int64            `json:"evals"`
	Counters   map[string]int64 `json:"counters"`
	Outcomes   map[string]int64 `json:"outcomes"`
	Distinct   []uint64         `json:"distinct"`
	Samples    []any            `json:"samples"`
	Violations []*Violation     `json:"violations"`
	ViolCount  int64            `json:"viol_count"`
	Capped     []string         `json:"capped"`
	Added      map[string]int64 `json:"added"`
	Info       []any            `json:"info"`
	Rule       string           `json:"rule,omitempty"`
	Assume     []string         `json:"assume,omitempty"`
	Cov        map[string]any   `json:"cov,omitempty"`
	Isolated   bool             `json:"isolated,omitempty"`
}

// IsChild reports whether this process is one shard of a sharded run.
func (c *Ctx) IsChild() bool { return c.nshards > 0 }

// AddCov adds to an additive numeric coverage key (summed over shards), e.g. states / transitions.
func (c *Ctx) AddCov(k string, n int64) {
	c.mu.Lock()
	if c.added == nil {
		c.added = map[string]int64{}
	}
	c.added[k] += n
	c.mu.Unlock()
}

// ShardInfo records a per-shard report (kept as a list in the evidence).
func (c *Ctx) ShardInfo(v any) {
	c.mu.Lock()
	c.shardInfo = append(c.shardInfo, v)
	c.mu.Unlock()
}

// Sharded runs body(i) for i in [0,n) in n child processes (at most `conc` at a time) and merges their results.
// Globals of the seams (virtual clock, registries) are per process, which is why shards are processes.
func (c *Ctx) Sharded(n, conc int, body func(i int)) { c.sharded(n, conc, false, body) }

// Isolated runs body in one child process, so that a crash no harness can recover from - a panic on a goroutine started
// by the code under test, concurrent map writes, stack exhaustion - is reported as a violation ("the process keeps
// running") instead of killing the check. Crumb names the case being executed for the report.
func (c *Ctx) Isolated(body func()) {
	if c.IsChild() || c.ReplayCase != nil {
		body()
		return
	}
	c.sharded(1, 1, true, func(int) { body() })
}

// Crumb records (in a child of Isolated/Sharded) the case about to be executed; the parent attaches it to a process-death report.
func (c *Ctx) Crumb(cas any) {
	if p := os.Getenv("VERIF_CRUMB"); p != "" && c.IsChild() {
		if b, err := json.Marshal(cas); err == nil {
			os.WriteFile(p, b, 0o644)
		}
	}
}

func (c *Ctx) sharded(n, conc int, force bool, body func(i int)) {
	if c.IsChild() {
		if c.shard < n {
			body(c.shard)
		}
		return
	}
	if c.ReplayCase != nil || (n == 1 && !force) {
		for i := 0; i < n; i++ {
			body(i)
		}
		return
	}
	dir, err := os.MkdirTemp(filepath.Join(verifDir, ".build"), "shards")
	if err != nil {
		os.MkdirAll(filepath.Join(verifDir, ".build"), 0o755)
		dir, err = os.MkdirTemp(filepath.Join(verifDir, ".build"), "shards")
		if err != nil {
			fmt.Fprintln(os.Stderr, "shards:", err)
			os.Exit(2)
		}
	}
	defer os.RemoveAll(dir)
	if conc < 1 {
		conc = 1
	}
	order := make([]int, n)
	for i := range order {
		order[i] = (i + c.Seed) % n // the seed only permutes the start order
	}
	sem := make(chan struct{}, conc)
	var wg sync.WaitGroup
	for _, i := range order {
		wg.Add(1)
		sem <- struct{}{}
		go func(i int) {
			defer wg.Done()
			defer func() { <-sem }()
			pf := filepath.Join(dir, fmt.Sprintf("p%d.json", i))
			args := []string{"-prop", c.Prop, "-tier", c.Tier, "-workers", fmt.Sprint(c.Workers), "-shard", fmt.Sprintf("%d/%d", i, n), "-partial", pf}
			cmd := exec.Command(os.Args[0], args...)
			cmd.Env = append(os.Environ(), fmt.Sprintf("VERIF_BUDGET_S=%d", int(time.Until(c.Deadline).Seconds())), "VERIF_CRUMB="+pf+".crumb")
			var stderr bytes.Buffer
			cmd.Stderr = &stderr
			runErr := cmd.Run()
			b, rerr := os.ReadFile(pf)
			var pr partialResult
			if rerr != nil || json.Unmarshal(b, &pr) != nil {
				full := stderr.String()
				tail := full
				if len(tail) > 3000 {
					tail = tail[len(tail)-3000:]
				}
				var cas any = map[string]any{"shard": i, "of": n}
				if cb, err := os.ReadFile(pf + ".crumb"); err == nil {
					cas = json.RawMessage(cb)
				}
				if j := strings.Index(full, "\npanic: "); j >= 0 || strings.HasPrefix(full, "panic: ") || strings.Contains(full, "fatal error: ") {
					// an unrecoverable crash of the process (goroutine panic, fatal runtime error)
					head := full
					if j > 0 {
						head = full[j+1:]
					} else if k := strings.Index(full, "fatal error: "); k >= 0 && !strings.HasPrefix(full, "panic: ") {
						head = full[k:]
					}
					if len(head) > 3000 {
						head = head[:3000]
					}
					c.Violation(c.Prop+":process-died:"+PanicSite(head), fmt.Sprintf("the checking process was killed by a crash the caller cannot recover from (shard %d/%d, %v):\n%s", i, n, runErr, head), cas)
					return
				}
				c.Violation(c.Prop+":worker-died", fmt.Sprintf("shard %d/%d died without a result (%v): %s", i, n, runErr, tail), cas)
				return
			}
			c.merge(&pr)
		}(i)
	}
	wg.Wait()
}

func (c *Ctx) merge(p *partialResult) {
	c.mu.Lock()
	defer c.mu.Unlock()
	c.evals += p.Evals
	if c.rule == "" {
		c.rule = p.Rule
	}
	if len(c.assume) == 0 {
		c.assume = p.Assume
	}
	if p.Isolated {
		for k, v := range p.Cov {
			if _, ok := c.cov[k]; !ok {
				c.cov[k] = v
			}
		}
	}
	for k, v := range p.Counters {
		c.counters[k] += v
	}
	for k, v := range p.Outcomes {
		c.outcomes[k] += v
	}
	for _, h := range p.Distinct {
		c.distinct[h] = struct{}{}
	}
	for _, s := range p.Samples {
		if len(c.samples) < c.maxSamples {
			c.samples = append(c.samples, s)
		}
	}
	for _, v := range p.Violations {
		if _, ok := c.viol[v.Key]; !ok {
			c.viol[v.Key] = v
			c.violOrder = append(c.violOrder, v.Key)
		}
	}
	c.violCount += p.ViolCount
	for _, w := range p.Capped {
		c.exhaustive = false
		dup := false
		for _, x := range c.capped {
			dup = dup || x == w
		}
		if !dup {
			c.capped = append(c.capped, w)
		}
	}
	if c.added == nil {
		c.added = map[string]int64{}
	}
	for k, v := range p.Added {
		c.added[k] += v
	}
	c.shardInfo = append(c.shardInfo, p.Info...)
}

// Finish writes the evidence file, prints VIOLATION / KNOWN-FINDING lines and returns the exit code.
func (c *Ctx) Finish() int {
	stopProf()
	c.mu.Lock()
	defer c.mu.Unlock()
	if c.IsChild() {
		pr := partialResult{Evals: c.evals, Counters: c.counters, Outcomes: c.outcomes, Samples: c.samples, ViolCount: c.violCount, Capped: c.capped, Added: c.added, Info: c.shardInfo, Rule: c.rule, Assume: c.assume}
		if c.nshards == 1 {
			pr.Cov, pr.Isolated = c.cov, true // the single child of Isolated carries the whole description
		}
		for h := range c.distinct {
			pr.Distinct = append(pr.Distinct, h)
		}
		for _, k := range c.violOrder {
			pr.Violations = append(pr.Violations, c.viol[k])
		}
		js, _ := json.Marshal(pr)
		if err := os.WriteFile(c.partial, js, 0o644); err != nil {
			fmt.Fprintln(os.Stderr, "partial:", err)
			return 2
		}
		return 0
	}
	if c.ReplayCase != nil {
		// replay mode: report, do not rewrite evidence
		if len(c.viol) == 0 {
			fmt.Printf("REPLAY property=%s: no violation reproduced\n", c.Prop)
			return 0
		}
		for _, k := range c.violOrder {
			v := c.viol[k]
			fmt.Printf("VIOLATION property=%s replay=%s\n  key=%s\n  %s\n", c.Prop, c.ReplayPath, v.Key, v.Desc)
		}
		return 1
	}
	kn := loadKnown()
	exit := 0
	os.MkdirAll(outDir("replays"), 0o755)
	nKnown := 0
	for _, k := range c.violOrder {
		v := c.viol[k]
		isKnown := false
		for _, f := range kn {
			if f.prop == c.Prop && f.key == v.Key {
				isKnown = true
				fmt.Printf("KNOWN-FINDING: property=%s %s (%s)\n", c.Prop, v.Key, f.desc)
			}
		}
		if isKnown {
			nKnown++
			continue
		}
		sum := sha256.Sum256([]byte(v.Key))
		p := filepath.Join(outDir("replays"), c.Prop+"-"+hex.EncodeToString(sum[:6])+".json")
		js, _ := json.MarshalIndent(map[string]any{"property": c.Prop, "key": v.Key, "desc": v.Desc, "case": v.Case}, "", " ")
		os.WriteFile(p, js, 0o644)
		fmt.Printf("VIOLATION property=%s replay=%s\n  key=%s\n  %s\n", c.Prop, p, v.Key, indent(v.Desc))
		exit = 1
	}
	cov := map[string]any{}
	for k, v := range c.cov {
		cov[k] = v
	}
	for k, v := range c.added {
		cov[k] = v
	}
	if len(c.shardInfo) > 0 {
		cov["shards"] = c.shardInfo
	}
	cov["evaluations"] = c.evals
	cov["distinct_nontrivial"] = len(c.distinct)
	cov["rule"] = c.rule
	if len(c.samples) == 0 {
		c.samples = []any{"(no sample recorded)"}
	}
	cov["samples"] = c.samples
	cov["exhaustive"] = c.exhaustive && exit == 0
	if len(c.capped) > 0 {
		cov["caps_hit"] = c.capped
	}
	if len(c.counters) > 0 {
		cov["counters"] = c.counters
	}
	if len(c.outcomes) > 0 {
		cov["distinct_outcomes"] = len(c.outcomes)
		if len(c.outcomes) <= 40 {
			cov["outcomes"] = c.outcomes
		} else {
			type kv struct {
				k string
				n int64
			}
			var l []kv
			for k, n := range c.outcomes {
				l = append(l, kv{k, n})
			}
			sort.Slice(l, func(i, j int) bool { return l[i].n > l[j].n || (l[i].n == l[j].n && l[i].k < l[j].k) })
			top := map[string]int64{}
			for _, e := range l[:40] {
				top[e.k] = e.n
			}
			cov["outcomes_top40"] = top
		}
	}
	if nKnown > 0 {
		cov["known_findings_reported"] = nKnown
	}
	e := map[string]any{
		"property_id": c.Prop, "tier": c.Tier, "seed": c.Seed, "level": c.Level,
		"coverage": cov, "assumptions": c.assume,
		"wall_s":     float64(int(time.Since(c.start).Seconds()*100)) / 100,
		"violations": len(c.viol) - nKnown,
	}
	if c.assume == nil {
		e["assumptions"] = []string{}
	}
	js, _ := json.MarshalIndent(e, "", " ")
	os.MkdirAll(outDir("evidence"), 0o755)
	if err := os.WriteFile(filepath.Join(outDir("evidence"), c.Prop+".json"), append(js, '\n'), 0o644); err != nil {
		fmt.Fprintln(os.Stderr, "evidence:", err)
		return 2
	}
	fmt.Printf("%s %s: evaluations=%d distinct_nontrivial=%d states=%v transitions=%v outcomes=%d violations=%d exhaustive=%v wall=%.1fs\n",
		c.Prop, c.Tier, c.evals, len(c.distinct), cov["states"], cov["transitions"], len(c.outcomes), len(c.viol)-nKnown, cov["exhaustive"], time.Since(c.start).Seconds())
	return exit
}

func indent(s string) string { return strings.ReplaceAll(s, "\n", "\n  ") }

// ParMap runs f(i) for i in [0,n) on the context's workers.
func (c *Ctx) ParMap(n int, f func(i int)) {
	w := c.Workers
	if w < 1 {
		w = 1
	}
	var wg sync.WaitGroup
	ch := make(chan int, 256)
	for k := 0; k < w; k++ {
		wg.Add(1)
		go func() {
			defer wg.Done()
			for i := range ch {
				f(i)
			}
		}()
	}
	for i := 0; i < n; i++ {
		ch <- i
	}
	close(ch)
	wg.Wait()
}

// JSON renders v compactly (for keys and samples).
func JSON(v any) string {
	b, _ := json.Marshal(v)
	return string(b)
}
