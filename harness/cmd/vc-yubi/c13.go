//go:build verif

package main

import "github.com/theparanoids/ysshra/internal/zzverif/ev"

func checkC13(c *ev.Ctx) { c.Cap("not implemented") }
