//go:build verif

package main

import (
	"bytes"
	"crypto/rand"
	"crypto/x509"
	"encoding/json"
	"errors"
	"fmt"
	"net"
	"os"
	"path/filepath"
	"strings"
	"sync"
	"time"

	"golang.org/x/crypto/ssh"
	"golang.org/x/crypto/ssh/agent"

	"github.com/theparanoids/ysshra/agent/yubiagent"
	"github.com/theparanoids/ysshra/internal/zzverif/ev"
	"github.com/theparanoids/ysshra/internal/zzverif/fix"
	"github.com/theparanoids/ysshra/internal/zzverif/introspect"
	"github.com/theparanoids/ysshra/zzverifrt/vnet"
)

// servedConn returns a dial factory: every dialled connection is one buffered in-memory pipe whose server end is served by ONE
// yubiagent.ServeAgent call for the life of the connection (so per-connection state inside the serving loop is real).
// The exchange is strictly request/response, hence deterministic although the server runs on its own goroutine.
// A panic in the serving goroutine is captured, the connection is closed and the panic is re-raised in the caller.
type servedPeer struct {
	mu    sync.Mutex
	panic string
}

func (sp *servedPeer) take() string {
	sp.mu.Lock()
	defer sp.mu.Unlock()
	p := sp.panic
	sp.panic = ""
	return p
}

func servedConn(served yubiagent.YubiAgent, sp *servedPeer) func() (net.Conn, error) {
	return func() (net.Conn, error) {
		ce, se := vnet.NewBlockingPipe("served")
		go func() {
			defer se.Close()
			if p := ev.Guard(func() { yubiagent.ServeAgent(served, se) }); p != "" {
				sp.mu.Lock()
				sp.panic = p
				sp.mu.Unlock()
			}
		}()
		return ce, nil
	}
}

type c13Op struct {
	Name string
	Run  func(cl yubiagent.YubiAgent, st *stubAgent) string // "" = ok, else mismatch
	Slow bool
}

func errText(err error) string {
	if err == nil {
		return "<nil>"
	}
	return err.Error()
}

func sameAdded(sent agent.AddedKey, got *agent.AddedKey) string {
	if got == nil {
		return "no Add recorded"
	}
	sb, gb := fix.Pub(sent.PrivateKey).Marshal(), fix.Pub(got.PrivateKey).Marshal()
	if !bytes.Equal(sb, gb) {
		return "private key differs"
	}
	if (sent.Certificate == nil) != (got.Certificate == nil) || (sent.Certificate != nil && !bytes.Equal(sent.Certificate.Marshal(), got.Certificate.Marshal())) {
		return "certificate differs"
	}
	if sent.Comment != got.Comment {
		return fmt.Sprintf("comment %q became %q", sent.Comment, got.Comment)
	}
	if sent.LifetimeSecs != got.LifetimeSecs {
		return fmt.Sprintf("lifetime %d became %d", sent.LifetimeSecs, got.LifetimeSecs)
	}
	if sent.ConfirmBeforeUse != got.ConfirmBeforeUse {
		return "confirm constraint lost"
	}
	return ""
}

func last(st *stubAgent, op string) (call, string) {
	if len(st.Calls) == 0 {
		return call{}, "the served agent received no call"
	}
	c := st.Calls[len(st.Calls)-1]
	if c.Op != op {
		return c, fmt.Sprintf("the served agent received %s, expected %s", c.Op, op)
	}
	return c, ""
}

func c13StubOps() []c13Op {
	var ops []c13Op
	add := func(name string, run func(cl yubiagent.YubiAgent, st *stubAgent) string) {
		ops = append(ops, c13Op{Name: name, Run: run})
	}
	comments := []string{"", "ascii comment", "ü 日本 \t", strings.Repeat("c", 300)}
	errTexts := []string{"x", "échec ü", strings.Repeat("e", 300), "SUCCESSOR to nothing", "SUCCES"}
	keys := []struct {
		n    string
		priv any
	}{{"ed25519", fK1}, {"ecdsa", fK2}, {"rsa", fKrsa}}
	// List
	for n := 0; n <= 3; n++ {
		n := n
		add(fmt.Sprintf("list-%d", n), func(cl yubiagent.YubiAgent, st *stubAgent) string {
			st.Err, st.Keys = nil, nil
			pubs := []ssh.PublicKey{fix.Pub(fK1), fix.Pub(fK2), fix.Pub(fKrsa), certH1}
			for i := 0; i < n; i++ {
				st.Keys = append(st.Keys, &agent.Key{Format: pubs[(i+n)%4].Type(), Blob: pubs[(i+n)%4].Marshal(), Comment: comments[(i+n)%4]})
			}
			got, err := cl.List()
			if _, m := last(st, "List"); m != "" {
				return m
			}
			if err != nil || len(got) != n {
				return fmt.Sprintf("List returned %d keys, err=%v; served agent returned %d", len(got), err, n)
			}
			for i := range got {
				if !bytes.Equal(got[i].Blob, st.Keys[i].Blob) || got[i].Comment != st.Keys[i].Comment || got[i].Format != st.Keys[i].Format {
					return fmt.Sprintf("key %d differs (comment %q vs %q)", i, got[i].Comment, st.Keys[i].Comment)
				}
			}
			return ""
		})
	}
	add("list-error", func(cl yubiagent.YubiAgent, st *stubAgent) string {
		st.Err = errors.New("scripted")
		defer func() { st.Err = nil }()
		if _, err := cl.List(); err == nil {
			return "a failing List was reported as success"
		}
		return ""
	})
	// Sign with flags
	for _, kk := range keys {
		for _, dl := range []int{0, 1, 64, 65536} {
			for _, fl := range []agent.SignatureFlags{0, 2, 4, 6} {
				kk, dl, fl := kk, dl, fl
				add(fmt.Sprintf("sign-%s-data%d-flags%d", kk.n, dl, fl), func(cl yubiagent.YubiAgent, st *stubAgent) string {
					data := bytes.Repeat([]byte{0xa7}, dl)
					st.Err = nil
					st.Sig, _ = fix.Signer(kk.priv).Sign(rand.Reader, []byte("anything"))
					sig, err := cl.SignWithFlags(fix.Pub(kk.priv), data, fl)
					c, m := last(st, "Sign")
					if m != "" {
						return m
					}
					if !bytes.Equal(c.KeyBlob, fix.Pub(kk.priv).Marshal()) || !bytes.Equal(c.Data, data) || c.Flags != fl {
						return fmt.Sprintf("served agent received key/data/flags (%d bytes, flags %d), sent (%d bytes, flags %d)", len(c.Data), c.Flags, len(data), fl)
					}
					if err != nil || sig == nil || sig.Format != st.Sig.Format || !bytes.Equal(sig.Blob, st.Sig.Blob) {
						return fmt.Sprintf("signature returned to the caller differs from the served agent's (err=%v)", err)
					}
					return ""
				})
			}
		}
	}
	// Sign with certificate keys (the key blob is the whole certificate: > 1 KiB for RSA; large critical options make it
	// several KiB) at the ends of the data range - key size and data size vary jointly
	for _, kk := range keys {
		for ci, crt := range []*ssh.Certificate{
			fix.SSHCert(fix.Pub(kk.priv), "id", 0, 1<<40, nil, "alice"),
			fix.SSHCert(fix.Pub(kk.priv), strings.Repeat("k", 3000), 0, 1<<40, map[string]string{"force-command": strings.Repeat("x", 4000)}, "alice", "bob"),
		} {
			for _, dl := range []int{0, 65535, 65536} {
				kk, crt, dl, ci := kk, crt, dl, ci
				add(fmt.Sprintf("sign-%s-cert%d-data%d", kk.n, ci, dl), func(cl yubiagent.YubiAgent, st *stubAgent) string {
					data := bytes.Repeat([]byte{0x3c}, dl)
					st.Err = nil
					st.Sig, _ = fix.Signer(kk.priv).Sign(rand.Reader, []byte("anything"))
					before := len(st.Calls)
					sig, err := cl.SignWithFlags(crt, data, 0)
					if len(st.Calls) != before+1 {
						return fmt.Sprintf("Sign(%s certificate of %d bytes, %d data bytes): the served agent received %d calls, err=%v", kk.n, len(crt.Marshal()), dl, len(st.Calls)-before, err)
					}
					c, m := last(st, "Sign")
					if m != "" {
						return m
					}
					if !bytes.Equal(c.KeyBlob, crt.Marshal()) || !bytes.Equal(c.Data, data) {
						return fmt.Sprintf("served agent received a different key/data (%d/%d bytes), sent (%d/%d bytes)", len(c.KeyBlob), len(c.Data), len(crt.Marshal()), len(data))
					}
					if err != nil || sig == nil || !bytes.Equal(sig.Blob, st.Sig.Blob) {
						return fmt.Sprintf("signature returned to the caller differs from the served agent's (err=%v)", err)
					}
					return ""
				})
			}
		}
	}
	add("sign-error", func(cl yubiagent.YubiAgent, st *stubAgent) string {
		st.Err, st.Sig = errors.New("scripted"), nil
		defer func() { st.Err = nil }()
		if _, err := cl.Sign(fix.Pub(fK1), []byte("d")); err == nil {
			return "a failing Sign was reported as success"
		}
		return ""
	})
	// Add with constraints
	for _, kk := range keys {
		for _, withCert := range []bool{false, true} {
			for _, life := range []uint32{0, 1, 1<<32 - 1} {
				for _, conf := range []bool{false, true} {
					kk, withCert, life, conf := kk, withCert, life, conf
					add(fmt.Sprintf("add-%s-cert%v-life%d-confirm%v", kk.n, withCert, life, conf), func(cl yubiagent.YubiAgent, st *stubAgent) string {
						st.Err = nil
						k := agent.AddedKey{PrivateKey: kk.priv, Comment: comments[int(life%4)], LifetimeSecs: life, ConfirmBeforeUse: conf}
						if withCert {
							k.Certificate = fix.SSHCert(fix.Pub(kk.priv), "id", 0, 1<<40, nil, "alice")
						}
						err := cl.Add(k)
						c, m := last(st, "Add")
						if m != "" {
							return m
						}
						if d := sameAdded(k, c.Added); d != "" {
							return "Add: " + d
						}
						if err != nil {
							return "Add returned " + err.Error()
						}
						return ""
					})
				}
			}
		}
	}
	for _, name := range []string{"Remove", "RemoveAll", "Lock", "Unlock", "Add"} {
		name := name
		add("error-"+name, func(cl yubiagent.YubiAgent, st *stubAgent) string {
			st.Err = errors.New("scripted failure")
			defer func() { st.Err = nil }()
			var err error
			switch name {
			case "Remove":
				err = cl.Remove(fix.Pub(fK1))
			case "RemoveAll":
				err = cl.RemoveAll()
			case "Lock":
				err = cl.Lock([]byte("p"))
			case "Unlock":
				err = cl.Unlock([]byte("p"))
			case "Add":
				err = cl.Add(agent.AddedKey{PrivateKey: fK1})
			}
			if _, m := last(st, name); m != "" {
				return m
			}
			if err == nil {
				return "a failing " + name + " was reported as success"
			}
			return ""
		})
	}
	for _, kk := range keys {
		kk := kk
		add("remove-"+kk.n, func(cl yubiagent.YubiAgent, st *stubAgent) string {
			st.Err = nil
			err := cl.Remove(fix.Pub(kk.priv))
			c, m := last(st, "Remove")
			if m != "" {
				return m
			}
			if !bytes.Equal(c.KeyBlob, fix.Pub(kk.priv).Marshal()) || err != nil {
				return fmt.Sprintf("Remove: key differs or err=%v", err)
			}
			return ""
		})
	}
	add("remove-cert", func(cl yubiagent.YubiAgent, st *stubAgent) string {
		st.Err = nil
		err := cl.Remove(certH1)
		c, m := last(st, "Remove")
		if m != "" {
			return m
		}
		if !bytes.Equal(c.KeyBlob, certH1.Marshal()) || err != nil {
			return fmt.Sprintf("Remove(cert): blob differs or err=%v", err)
		}
		return ""
	})
	add("remove-all", func(cl yubiagent.YubiAgent, st *stubAgent) string {
		st.Err = nil
		err := cl.RemoveAll()
		if _, m := last(st, "RemoveAll"); m != "" {
			return m
		}
		if err != nil {
			return err.Error()
		}
		return ""
	})
	for _, pass := range [][]byte{{}, []byte("p"), {0, 0, 1}, bytes.Repeat([]byte("w"), 300), []byte("pä ß")} {
		for _, op := range []string{"Lock", "Unlock"} {
			pass, op := pass, op
			add(fmt.Sprintf("%s-pass%d", op, len(pass)), func(cl yubiagent.YubiAgent, st *stubAgent) string {
				st.Err = nil
				var err error
				if op == "Lock" {
					err = cl.Lock(pass)
				} else {
					err = cl.Unlock(pass)
				}
				c, m := last(st, op)
				if m != "" {
					return m
				}
				if !bytes.Equal(c.Pass, pass) || err != nil {
					return fmt.Sprintf("%s: passphrase differs (%q vs %q) or err=%v", op, c.Pass, pass, err)
				}
				return ""
			})
		}
	}
	add("signers", func(cl yubiagent.YubiAgent, st *stubAgent) string {
		st.Err = nil
		st.Keys = []*agent.Key{{Format: fix.Pub(fK1).Type(), Blob: fix.Pub(fK1).Marshal(), Comment: "a"}, {Format: certH1.Type(), Blob: certH1.Marshal(), Comment: "b"}}
		ss, err := cl.Signers()
		if err != nil || len(ss) != 2 || !bytes.Equal(ss[0].PublicKey().Marshal(), st.Keys[0].Blob) || !bytes.Equal(ss[1].PublicKey().Marshal(), st.Keys[1].Blob) {
			return fmt.Sprintf("Signers returned %d signers, err=%v", len(ss), err)
		}
		return ""
	})
	// signer objects obtained through the client: plain Sign, and Sign with a requested RSA algorithm, reach the served
	// agent with the flags the algorithm stands for and hand back its signature (x/crypto's own agent signers offer
	// SignWithAlgorithm; a signer through this client that cannot be asked for rsa-sha2 has lost an argument)
	for _, alg := range []struct {
		name string
		flag agent.SignatureFlags
	}{{"", 0}, {ssh.KeyAlgoRSASHA256, agent.SignatureFlagRsaSha256}, {ssh.KeyAlgoRSASHA512, agent.SignatureFlagRsaSha512}, {ssh.KeyAlgoRSA, 0}} {
		alg := alg
		add("signers-sign-rsa-alg"+alg.name, func(cl yubiagent.YubiAgent, st *stubAgent) string {
			st.Err = nil
			rsaPub := fix.Pub(fKrsa)
			st.Keys = []*agent.Key{{Format: fix.Pub(fK1).Type(), Blob: fix.Pub(fK1).Marshal(), Comment: "a"}, {Format: rsaPub.Type(), Blob: rsaPub.Marshal(), Comment: "rsa"}}
			st.Sig, _ = fix.Signer(fKrsa).Sign(rand.Reader, []byte("anything"))
			ss, err := cl.Signers()
			if err != nil || len(ss) != 2 {
				return fmt.Sprintf("Signers returned %d signers, err=%v", len(ss), err)
			}
			data := []byte("data signed through a signer object")
			var sig *ssh.Signature
			if alg.name == "" {
				sig, err = ss[1].Sign(rand.Reader, data)
			} else {
				as, ok := ss[1].(ssh.AlgorithmSigner)
				if !ok {
					return "the signer object for an RSA key obtained through the client cannot be asked for a signature algorithm (it is not an ssh.AlgorithmSigner, the served agent's own signers are)"
				}
				sig, err = as.SignWithAlgorithm(rand.Reader, data, alg.name)
			}
			c, m := last(st, "Sign")
			if m != "" {
				return m
			}
			if !bytes.Equal(c.KeyBlob, rsaPub.Marshal()) || !bytes.Equal(c.Data, data) || c.Flags != alg.flag {
				return fmt.Sprintf("served agent received flags %d (data %d bytes), the signer was asked for %q = flags %d", c.Flags, len(c.Data), alg.name, alg.flag)
			}
			if err != nil || sig == nil || !bytes.Equal(sig.Blob, st.Sig.Blob) {
				return fmt.Sprintf("signature returned by the signer object differs from the served agent's (err=%v)", err)
			}
			return ""
		})
	}
	// add-hardware-certificate, client encoding and legacy encoding, success and error texts
	for _, cm := range comments {
		cm := cm
		add(fmt.Sprintf("hardcert-comment%d", len(cm)), func(cl yubiagent.YubiAgent, st *stubAgent) string {
			st.Err = nil
			err := cl.AddHardCert(certH1, cm)
			c, m := last(st, "AddHardCert")
			if m != "" {
				return m
			}
			if !bytes.Equal(c.KeyBlob, certH1.Marshal()) || c.Comment != cm || err != nil {
				return fmt.Sprintf("AddHardCert: received comment %q (sent %q), blob equal=%v, err=%v", c.Comment, cm, bytes.Equal(c.KeyBlob, certH1.Marshal()), err)
			}
			return ""
		})
	}
	for _, kk := range keys {
		kk := kk
		add("hardcert-keytype-"+kk.n, func(cl yubiagent.YubiAgent, st *stubAgent) string {
			st.Err = nil
			crt := fix.SSHCert(fix.Pub(kk.priv), hwKeyY, 0, 1<<40, nil, "alice")
			for _, legacy := range []bool{false, true} {
				var err error
				if legacy {
					_, err = cl.Forward(append([]byte{31}, crt.Marshal()...))
				} else {
					err = cl.AddHardCert(crt, "slot 9a")
				}
				c, m := last(st, "AddHardCert")
				if m != "" {
					return m
				}
				if !bytes.Equal(c.KeyBlob, crt.Marshal()) || err != nil {
					return fmt.Sprintf("AddHardCert(%s certificate, legacy=%v): blob equal=%v err=%v", kk.n, legacy, bytes.Equal(c.KeyBlob, crt.Marshal()), err)
				}
			}
			return ""
		})
	}
	// plain public keys (not certificates) of every type, both encodings: what the served agent does with them is its
	// business, but it must receive exactly the key that was sent
	for _, kk := range keys {
		kk := kk
		add("hardcert-plainkey-"+kk.n, func(cl yubiagent.YubiAgent, st *stubAgent) string {
			st.Err = nil
			pub := fix.Pub(kk.priv)
			for _, legacy := range []bool{false, true} {
				before := len(st.Calls)
				var err error
				if legacy {
					_, err = cl.Forward(append([]byte{31}, pub.Marshal()...))
				} else {
					err = cl.AddHardCert(pub, "plain")
				}
				if len(st.Calls) != before+1 {
					return fmt.Sprintf("AddHardCert(plain %s key, legacy=%v): the served agent received %d calls, err=%v", kk.n, legacy, len(st.Calls)-before, err)
				}
				c, m := last(st, "AddHardCert")
				if m != "" {
					return m
				}
				if !bytes.Equal(c.KeyBlob, pub.Marshal()) || err != nil {
					return fmt.Sprintf("AddHardCert(plain %s key, legacy=%v): blob equal=%v err=%v", kk.n, legacy, bytes.Equal(c.KeyBlob, pub.Marshal()), err)
				}
			}
			return ""
		})
	}
	add("hardcert-legacy-encoding", func(cl yubiagent.YubiAgent, st *stubAgent) string {
		st.Err = nil
		resp, err := cl.Forward(append([]byte{31}, certH1.Marshal()...))
		c, m := last(st, "AddHardCert")
		if m != "" {
			return m
		}
		if !bytes.Equal(c.KeyBlob, certH1.Marshal()) || c.Comment != "" || err != nil || string(resp) != "SUCCESS" {
			return fmt.Sprintf("legacy AddHardCert: blob equal=%v comment=%q resp=%q err=%v", bytes.Equal(c.KeyBlob, certH1.Marshal()), c.Comment, resp, err)
		}
		return ""
	})
	for _, et := range errTexts {
		et := et
		add(fmt.Sprintf("hardcert-error-%.8s", et), func(cl yubiagent.YubiAgent, st *stubAgent) string {
			st.Err = errors.New(et)
			defer func() { st.Err = nil }()
			err := cl.AddHardCert(certH1, "c")
			if err == nil {
				return fmt.Sprintf("served AddHardCert failed with %q but the caller saw success", et)
			}
			if err.Error() != et {
				return fmt.Sprintf("error text %q became %q", et, err.Error())
			}
			return ""
		})
		add(fmt.Sprintf("wait-error-%.8s", et), func(cl yubiagent.YubiAgent, st *stubAgent) string {
			st.Err = errors.New(et)
			defer func() { st.Err = nil }()
			err := cl.Wait(40)
			if err == nil || err.Error() != et {
				return fmt.Sprintf("served Wait failed with %q, caller saw %v", et, err)
			}
			return ""
		})
		add(fmt.Sprintf("listslots-error-%.8s", et), func(cl yubiagent.YubiAgent, st *stubAgent) string {
			st.Err, st.Slots = errors.New(et), nil
			defer func() { st.Err = nil }()
			_, err := cl.ListSlots()
			if err == nil || err.Error() != et {
				return fmt.Sprintf("served ListSlots failed with %q, caller saw %v", et, err)
			}
			return ""
		})
		add(fmt.Sprintf("readslot-error-%.8s", et), func(cl yubiagent.YubiAgent, st *stubAgent) string {
			st.Err, st.Cert = errors.New(et), nil
			defer func() { st.Err = nil }()
			_, err := cl.ReadSlot("9a")
			if err == nil || err.Error() != et {
				return fmt.Sprintf("served ReadSlot failed with %q, caller saw %v", et, err)
			}
			return ""
		})
	}
	for _, code := range []byte{0, 5, 11, 39, 40, 255} {
		code := code
		add(fmt.Sprintf("wait-%d", code), func(cl yubiagent.YubiAgent, st *stubAgent) string {
			st.Err = nil
			err := cl.Wait(code)
			c, m := last(st, "Wait")
			if m != "" {
				return m
			}
			if c.Code != code || err != nil {
				return fmt.Sprintf("Wait: served agent received code %d (sent %d), err=%v", c.Code, code, err)
			}
			return ""
		})
	}
	// slots against the recording agent
	for _, sl := range [][]string{nil, {"9a"}, {"9a", "9c", "f9"}, {"", "ü"}} {
		sl := sl
		add(fmt.Sprintf("listslots-%d", len(sl)), func(cl yubiagent.YubiAgent, st *stubAgent) string {
			st.Err, st.Slots = nil, sl
			got, err := cl.ListSlots()
			if _, m := last(st, "ListSlots"); m != "" {
				return m
			}
			if err != nil || fmt.Sprint(got) != fmt.Sprint(sl) || len(got) != len(sl) {
				return fmt.Sprintf("ListSlots returned %q, err=%v; served %q", got, err, sl)
			}
			return ""
		})
	}
	x5 := c13Certs()
	for i, crt := range x5 {
		for _, slot := range []string{"9a", "", strings.Repeat("s", 64), "ü", " 9a ", "9a\n"} {
			for _, op := range []string{"ReadSlot", "AttestSlot"} {
				i, crt, slot, op := i, crt, slot, op
				add(fmt.Sprintf("%s-cert%d-slot%q", op, i, slot[:min(len(slot), 3)]), func(cl yubiagent.YubiAgent, st *stubAgent) string {
					st.Err, st.Cert = nil, crt
					var got *x509.Certificate
					var err error
					if op == "ReadSlot" {
						got, err = cl.ReadSlot(slot)
					} else {
						got, err = cl.AttestSlot(slot)
					}
					c, m := last(st, op)
					if m != "" {
						return m
					}
					if c.Slot != slot {
						return fmt.Sprintf("%s: served agent received slot %q, sent %q", op, c.Slot, slot)
					}
					if err != nil || got == nil || !bytes.Equal(got.Raw, crt.Raw) {
						return fmt.Sprintf("%s: certificate differs, err=%v", op, err)
					}
					return ""
				})
			}
		}
	}
	// raw forward and extension (both reach the served agent as Forward)
	for _, body := range [][]byte{{0xc9}, append([]byte{0xca}, bytes.Repeat([]byte{3}, 65536)...), {20, 0, 0, 0, 1, 'r', 0, 0, 0, 0}} {
		for _, resp := range [][]byte{{6}, {5}, bytes.Repeat([]byte{9}, 70000), {}} {
			body, resp := body, resp
			add(fmt.Sprintf("forward-%d-len%d-resp%d", body[0], len(body), len(resp)), func(cl yubiagent.YubiAgent, st *stubAgent) string {
				st.Err, st.RawResp = nil, resp
				got, err := cl.Forward(body)
				c, m := last(st, "Forward")
				if m != "" {
					return m
				}
				if !bytes.Equal(c.Raw, body) {
					return fmt.Sprintf("Forward: served agent received %d bytes, sent %d", len(c.Raw), len(body))
				}
				if err != nil || !bytes.Equal(got, resp) {
					return fmt.Sprintf("Forward: caller received %d bytes (err=%v), served agent answered %d", len(got), err, len(resp))
				}
				return ""
			})
		}
	}
	add("extension-payload", func(cl yubiagent.YubiAgent, st *stubAgent) string {
		st.Err, st.RawResp = nil, []byte{0xee, 1, 2, 3}
		got, err := cl.Extension("x@y", []byte("contents"))
		c, m := last(st, "Forward")
		if m != "" {
			return m
		}
		want := cat([]byte{27}, str([]byte("x@y")), []byte("contents"))
		if !bytes.Equal(c.Raw, want) || err != nil || !bytes.Equal(got, st.RawResp) {
			return fmt.Sprintf("Extension: request/response altered (err=%v)", err)
		}
		return ""
	})
	add("extension-unsupported", func(cl yubiagent.YubiAgent, st *stubAgent) string {
		st.Err, st.RawResp = nil, []byte{5}
		_, err := cl.Extension("x@y", nil)
		if !errors.Is(err, agent.ErrExtensionUnsupported) {
			return fmt.Sprintf("Extension answered with failure: caller saw %v", err)
		}
		return ""
	})
	add("smartcard-add", func(cl yubiagent.YubiAgent, st *stubAgent) string {
		st.Err, st.RawResp = nil, []byte{6}
		err := cl.AddSmartcardKey("reader", []byte("1234"), 90*time.Second, true)
		c, m := last(st, "Forward")
		if m != "" {
			return m
		}
		want := cat([]byte{26}, str([]byte("reader")), str([]byte("1234")), []byte{1, 0, 0, 0, 90, 2})
		if !bytes.Equal(c.Raw, want) || err != nil {
			return fmt.Sprintf("AddSmartcardKey: request %x, want %x, err=%v", c.Raw, want, err)
		}
		st.RawResp = []byte{5}
		if err := cl.AddSmartcardKey("reader", []byte("1234"), 0, false); err == nil {
			return "AddSmartcardKey: agent failure reported as success"
		}
		return ""
	})
	add("smartcard-remove", func(cl yubiagent.YubiAgent, st *stubAgent) string {
		st.Err, st.RawResp = nil, []byte{6}
		err := cl.RemoveSmartcardKey("reader", []byte("1234"))
		c, m := last(st, "Forward")
		if m != "" {
			return m
		}
		want := cat([]byte{21}, str([]byte("reader")), str([]byte("1234")))
		if !bytes.Equal(c.Raw, want) || err != nil {
			return fmt.Sprintf("RemoveSmartcardKey: request altered or err=%v", err)
		}
		return ""
	})
	return ops
}

var c13CertCache []*x509.Certificate

func c13Certs() []*x509.Certificate {
	if c13CertCache != nil {
		return c13CertCache
	}
	defer func() { c13CertCache = c13MakeCerts() }()
	return c13MakeCerts0()
}

func c13MakeCerts0() []*x509.Certificate { c13CertCache = c13MakeCerts(); return c13CertCache }

func c13MakeCerts() []*x509.Certificate {
	if c13CertCache != nil {
		return c13CertCache
	}
	now := time.Now()
	var out []*x509.Certificate
	t := fix.X509Template("slot 9a", 5, now.Add(-time.Hour), now.Add(time.Hour), false)
	out = append(out, fix.X509Issue(t, t, fix.EC(256).Public(), fix.EC(256)))
	t2 := fix.X509Template("slot big", 6, now.Add(-time.Hour), now.Add(time.Hour), false)
	for i := 0; i < 40; i++ {
		t2.DNSNames = append(t2.DNSNames, fmt.Sprintf("very-long-name-%d.example.org", i))
	}
	out = append(out, fix.X509Issue(t2, t2, fix.RSA(4096).Public(), fix.RSA(4096)))
	return out
}

// ---- real server with a fake PIV tool ----

type pivEnv struct {
	dir     string
	outFile string
	argFile string
	stFile  string
	errFile string
}

func newPivEnv() *pivEnv {
	d, err := os.MkdirTemp("", "verif-piv-")
	if err != nil {
		panic(err)
	}
	p := &pivEnv{dir: d, outFile: filepath.Join(d, "out"), argFile: filepath.Join(d, "args"), stFile: filepath.Join(d, "status"), errFile: filepath.Join(d, "err")}
	script := "#!/bin/sh\necho \"$@\" > '" + p.argFile + "'\ncat '" + p.outFile + "'\ncat '" + p.errFile + "' >&2\nexit $(cat '" + p.stFile + "')\n"
	os.WriteFile(filepath.Join(d, "yubico-piv-tool"), []byte(script), 0o755)
	os.Setenv("PATH", d+":"+os.Getenv("PATH"))
	return p
}

func (p *pivEnv) set(out []byte, status int, stderr ...string) {
	os.WriteFile(p.errFile, []byte(strings.Join(stderr, "")), 0o644)
	os.WriteFile(p.outFile, out, 0o644)
	os.WriteFile(p.stFile, []byte(fmt.Sprint(status)), 0o644)
	os.Remove(p.argFile)
}

func (p *pivEnv) args() string {
	b, _ := os.ReadFile(p.argFile)
	return strings.TrimSpace(string(b))
}

// refSlots: strict = lines beginning with "Slot " having the two characters; lenient = every line beginning with "Slot" of >= 7 bytes.
func refSlots(output string) (strict, lenient []string) {
	for _, line := range strings.Split(output, "\n") {
		if len(line) >= 7 && strings.HasPrefix(line, "Slot") {
			lenient = append(lenient, line[5:7])
			if line[4] == ' ' {
				strict = append(strict, line[5:7])
			}
		}
	}
	return
}

func isSubseq(a, b []string) bool { // a is a subsequence of b
	i := 0
	for _, x := range b {
		if i < len(a) && a[i] == x {
			i++
		}
	}
	return i == len(a)
}

type c13Case struct {
	Ops       []string `json:",omitempty"`
	PivOutput string   `json:",omitempty"`
	PivStatus int      `json:",omitempty"`
	PivOp     string   `json:",omitempty"`
	Remote    bool     `json:",omitempty"`
	PivExpect string   `json:",omitempty"` // read/attest: cert0 | cert1 | error | either
	CutOp     string   `json:",omitempty"` // transport failure: operation whose response is cut
	CutClass  string   `json:",omitempty"`
	PivStderr string   `json:",omitempty"` // what the fake PIV tool writes to its standard error
	HoldOp    string   `json:",omitempty"` // the caller holds this operation's result while CutOp runs uncut
}

func c13RunOps(c *ev.Ctx, ops map[string]c13Op, names []string) {
	c.Eval()
	k := c13Case{Ops: names}
	c.Crumb(k)
	st := &stubAgent{}
	addr := fmt.Sprintf("/verif/yubi-served-%d", worldSeq.Add(1))
	sp := &servedPeer{}
	vnet.Register(addr, servedConn(st, sp))
	defer vnet.Unregister(addr)
	cl, err := yubiagent.NewClient(addr)
	if err != nil {
		c.Violation("C13:harness:newclient", err.Error(), k)
		return
	}
	defer cl.Close()
	for i, n := range names {
		op := ops[n]
		var msg string
		var p string
		done := make(chan struct{})
		go func() { p = ev.Guard(func() { msg = op.Run(cl, st) }); close(done) }()
		select {
		case <-done:
		case <-time.After(60 * time.Second):
			c.Violation("C13:operation-hangs:"+opClass(n), fmt.Sprintf("operation %s (position %d of %v) did not complete within 60 s: the client and the serving loop are waiting for each other", n, i, names), k)
			return
		}
		if sp2 := sp.take(); sp2 != "" {
			p = sp2
		}
		if p != "" {
			c.Violation("C13:crash:"+ev.PanicSite(p), fmt.Sprintf("operation %s (position %d of %v) crashed:\n%s", n, i, names, p), k)
			return
		}
		c.Outcome(strings.SplitN(n, "-", 2)[0] + "/" + fmt.Sprint(msg == ""))
		if msg != "" {
			pos := "alone"
			if len(names) > 1 {
				pos = fmt.Sprintf("position %d after %s", i, names[0])
				if i == 0 {
					pos = "first of a pair"
				}
			}
			c.Violation("C13:mismatch:"+opClass(n), fmt.Sprintf("%s (%s): %s", n, pos, msg), k)
			return
		}
		// arguments handed to the served agent must stay what they were after later requests on the same connection
		for ci, cl := range st.Calls {
			if cl.KeyObj != nil && !bytes.Equal(cl.KeyObj.Marshal(), cl.KeyBlob) {
				c.Violation("C13:argument-mutated-after-call:"+cl.Op, fmt.Sprintf("the key handed to the served agent by call %d (%s) changed after a later request (%s) was served on the same connection", ci, cl.Op, n), k)
				return
			}
		}
	}
	c.Nontrivial(strings.Join(names, ">"))
}

func opClass(n string) string {
	p := strings.Split(n, "-")
	if len(p) >= 2 && (p[0] == "error" || p[0] == "hardcert" || p[0] == "wait" || p[0] == "listslots" || p[0] == "readslot") && len(p) > 1 {
		return p[0] + "-" + p[1]
	}
	return p[0]
}

func c13Piv(c *ev.Ctx, piv *pivEnv, k c13Case) {
	c.Eval()
	c.Crumb(k)
	w, err := newYWorld(k.Remote)
	if err != nil {
		c.Violation("C13:harness:newserver", err.Error(), k)
		return
	}
	defer vnet.Unregister(w.addr)
	addr := fmt.Sprintf("/verif/yubi-served-%d", worldSeq.Add(1))
	sp := &servedPeer{}
	vnet.Register(addr, servedConn(w.srv, sp))
	defer vnet.Unregister(addr)
	cl, err := yubiagent.NewClient(addr)
	if err != nil {
		c.Violation("C13:harness:newclient", err.Error(), k)
		return
	}
	defer cl.Close()
	piv.set([]byte(k.PivOutput), k.PivStatus, k.PivStderr)
	defer func() {
		// whatever the tool did, the server object must be usable afterwards: no lock left held, and a following slot
		// operation on the same connection (tool now well-behaved) completes
		if held := introspect.LocksHeld(w.srv); len(held) > 0 {
			c.Violation("C13:lock-left-held:"+k.PivOp, fmt.Sprintf("%s returned with %v still held (tool status %d, %d bytes on stderr): every later slot operation would block for ever", k.PivOp, held, k.PivStatus, len(k.PivStderr)), k)
			return
		}
		if k.Remote {
			return
		}
		piv.set([]byte("Slot 9a:\n"), 0)
		done := make(chan error, 1)
		go func() { _, e := cl.ListSlots(); done <- e }()
		select {
		case e := <-done:
			if e != nil {
				c.Violation("C13:slot-operation-fails-after-earlier-one:"+k.PivOp, fmt.Sprintf("a well-behaved ListSlots right after %s (tool status %d) failed: %v", k.PivOp, k.PivStatus, e), k)
			}
		case <-time.After(60 * time.Second):
			c.Violation("C13:operation-hangs:ListSlots-after-"+k.PivOp, fmt.Sprintf("ListSlots after %s (tool status %d, %d bytes on stderr) did not return within 60 s", k.PivOp, k.PivStatus, len(k.PivStderr)), k)
		}
	}()
	var slots []string
	var cert *x509.Certificate
	var oerr error
	p0 := ev.Guard(func() {
		switch k.PivOp {
		case "ListSlots":
			slots, oerr = cl.ListSlots()
		case "ReadSlot":
			cert, oerr = cl.ReadSlot("9c")
		case "AttestSlot":
			cert, oerr = cl.AttestSlot("9c")
		}
	})
	if sp2 := sp.take(); sp2 != "" {
		p0 = sp2
	}
	if p := p0; p != "" {
		c.Violation("C13:crash:"+ev.PanicSite(p), fmt.Sprintf("%s crashed on PIV tool output %q:\n%s", k.PivOp, clip(k.PivOutput), p), k)
		return
	}
	c.Outcome(fmt.Sprintf("piv/%s/remote=%v/status=%d/%s", k.PivOp, k.Remote, k.PivStatus, errClassY(oerr)))
	c.Nontrivial(ev.JSON(k)[:min(200, len(ev.JSON(k)))])
	if k.Remote {
		if oerr == nil {
			c.Violation("C13:remote-mode-serves-slot-operation:"+k.PivOp, k.PivOp+" succeeded on a remote-mode server", k)
		}
		if piv.args() != "" {
			c.Violation("C13:remote-mode-runs-piv-tool", "a remote-mode server ran the PIV tool: "+piv.args(), k)
		}
		return
	}
	if k.PivStatus != 0 {
		if oerr == nil {
			c.Violation("C13:piv-failure-reported-as-success:"+k.PivOp, "the PIV tool exited with a non-zero status but the caller saw success", k)
		}
		return
	}
	switch k.PivOp {
	case "ListSlots":
		strict, lenient := refSlots(k.PivOutput)
		if oerr != nil {
			c.Violation("C13:listslots-fails", fmt.Sprintf("ListSlots failed on output %q: %v", clip(k.PivOutput), oerr), k)
			return
		}
		if !isSubseq(strict, slots) || !isSubseq(slots, lenient) {
			c.Violation("C13:listslots-wrong", fmt.Sprintf("ListSlots = %q for output %q; must contain %q in order and nothing outside %q", slots, clip(k.PivOutput), strict, lenient), k)
		}
		if !strings.Contains(piv.args(), "status") {
			c.Violation("C13:piv-wrong-action", "ListSlots ran the PIV tool with: "+piv.args(), k)
		}
	default:
		want := map[string]string{"ReadSlot": "read-certificate", "AttestSlot": "attest"}[k.PivOp]
		if a := piv.args(); !strings.Contains(a, want) || !strings.Contains(a, "-s 9c") {
			c.Violation("C13:piv-wrong-action:"+k.PivOp, fmt.Sprintf("%s ran the PIV tool with %q, expected action %q on slot 9c", k.PivOp, a, want), k)
		}
		certs := c13Certs()
		switch k.PivExpect {
		case "cert0", "cert1":
			want := certs[0]
			if k.PivExpect == "cert1" {
				want = certs[1]
			}
			if oerr != nil || cert == nil {
				c.Violation("C13:slot-certificate-lost:"+k.PivOp, fmt.Sprintf("%s failed on well-formed PEM output: %v", k.PivOp, oerr), k)
			} else if !bytes.Equal(cert.Raw, want.Raw) {
				c.Violation("C13:slot-certificate-altered:"+k.PivOp, "the certificate returned to the caller is not the one the tool printed", k)
			}
		case "error":
			if oerr == nil {
				c.Violation("C13:slot-garbage-accepted:"+k.PivOp, fmt.Sprintf("%s succeeded on output %q", k.PivOp, clip(k.PivOutput)), k)
			}
		}
	}
}

func clip(s string) string {
	if len(s) > 80 {
		return s[:80] + "…"
	}
	return s
}

func errClassY(err error) string {
	if err == nil {
		return "ok"
	}
	return "err"
}

func checkC13(c *ev.Ctx) {
	c.Rule("yubiagent.NewClient through the dial seam; the peer runs the real ServeAgent synchronously per request over (i) a recording YubiAgent with scripted results and (ii) the real server with a fake yubico-piv-tool. Every operation alone: List (0..3 keys, comments '', ascii, UTF-8, 300 bytes), SignWithFlags (3 key types x data {0,1,64,65536} x flags {0,2,4,6}; certificate keys of 3 types x {ordinary, 7 KiB} certificate x data {0,65535,65536}), Add (3 key types x cert x lifetime {0,1,2^32-1} x confirm), Remove, RemoveAll, Lock/Unlock (5 passphrases), Signers (and signing through the signer objects, plain and with each RSA algorithm), AddHardCert (client and legacy encoding, 4 comments, certificates and plain keys of 3 key types), Wait (6 codes), slot operations (slot names, 2 certificate sizes), raw Forward (3 bodies x 4 replies up to 70 KB; and requests / replies of EVERY length 1..3000, signatures over data of every length 1280..1420), Extension, smart-card requests, scripted failures with 5 error texts; transport failures: the response of each of 16 operations cut after {0, 2, 4 bytes, half the body, all but the last byte} and the stream ended (the call must return an error); held results (6 value-returning operations x 16 following operations: the kept bytes must not change); every ordered pair over a 30-operation generating set; a declared side pass with two goroutines on ONE client (7 pairs x 4 repetitions: one operation held in the served agent while the other is issued; each caller gets its own result) and with two connections reading different slots while the first read is held inside the PIV tool; PIV tool outputs (well-formed status, 'Slot' alone, 'Slot 9' (6 chars), 'Slot 9a' (7), 'Slot9a:', CRLF, empty, 1 MiB, exit status {1,2,255} with and without text on standard error (up to 70 KB), PEM/garbage for read/attest) in local and remote mode; after every tool run the server holds no lock and a following slot operation completes. non-trivial = operation sequence whose arguments and results were compared; distinct by sequence")
	c.Assume("error texts exactly 'SUCCESS' / '' and extension payloads that are empty or start with byte 5/28 are in-band protocol artefacts, excluded from the alphabet", "private keys are compared through their public keys")
	ops := map[string]c13Op{}
	list := c13StubOps()
	for _, o := range list {
		ops[o.Name] = o
	}
	piv := newPivEnv()
	defer os.RemoveAll(piv.dir)
	if c.ReplayCase != nil {
		var k c13Case
		json.Unmarshal(c.ReplayCase, &k)
		if k.CutOp != "" {
			for _, cc := range c13CutCalls() {
				if cc.Name == k.CutOp && k.HoldOp != "" {
					c13Hold(c, k.HoldOp, cc)
				} else if cc.Name == k.CutOp {
					c13Cut(c, cc, k.CutClass)
				}
			}
		} else if k.PivOp != "" {
			c13Piv(c, piv, k)
		} else {
			c13RunOps(c, ops, k.Ops)
		}
		return
	}
	for i, o := range list {
		c13RunOps(c, ops, []string{o.Name})
		if i%37 == 0 {
			c.Sample(c13Case{Ops: []string{o.Name}})
		}
	}
	c.Set("operations_alone", len(list))
	// transport failures: the response of every operation cut at every position class
	for _, cc := range c13CutCalls() {
		for _, class := range c13CutClasses {
			c13Cut(c, cc, class)
		}
	}
	c.Sample(c13Case{CutOp: "Forward", CutClass: "half-body"})
	c13LengthSweep(c)
	c13Concurrent(c)
	c13PivConcurrent(c)
	// held results: every value-returning operation followed by every operation, the caller keeping the first result
	for _, first := range []string{"List", "Sign", "Extension", "Forward", "ReadSlot", "AttestSlot"} {
		for _, cc := range c13CutCalls() {
			c13Hold(c, first, cc)
		}
	}
	gen := []string{"list-2", "list-error", "sign-ed25519-data64-flags0", "sign-rsa-data65536-flags2", "sign-error", "add-ed25519-certfalse-life1-confirmfalse", "add-rsa-certtrue-life4294967295-confirmtrue",
		"error-Add", "remove-ecdsa", "error-Remove", "remove-all", "Lock-pass1", "Unlock-pass300", "error-Unlock", "signers", "hardcert-comment13", "hardcert-legacy-encoding", "hardcert-keytype-rsa", "hardcert-keytype-ecdsa", "hardcert-plainkey-ed25519", "hardcert-error-x",
		"hardcert-error-SUCCESSO", "wait-40", fmt.Sprintf("wait-error-%.8s", "échec ü"), "listslots-3", "listslots-error-x", "ReadSlot-cert0-slot\"9a\"", "AttestSlot-cert1-slot\"\"", "readslot-error-x",
		"forward-201-len1-resp1", "forward-202-len65537-resp70000", "extension-payload", "extension-unsupported", "smartcard-add"}
	var genOK []string
	for _, g := range gen {
		if _, ok := ops[g]; ok {
			genOK = append(genOK, g)
		} else {
			c.Violation("C13:harness:unknown-op", g, nil)
		}
	}
	c.Set("generating_set", len(genOK))
	for _, a := range genOK {
		for _, b := range genOK {
			c13RunOps(c, ops, []string{a, b})
		}
	}
	c.Sample(c13Case{Ops: []string{"sign-error", "list-2"}})
	// PIV tool outputs
	wellFormed := "Version:\t5.2.7\nSerial Number:\t12345678\nCHUID:\tNo data available\nCCC:\tNo data available\nSlot 9a:\t\n\tAlgorithm:\tRSA2048\n\tSubject DN:\tCN=x\nSlot 9c:\t\n\tAlgorithm:\tECCP256\nSlot f9:\t\n\tAlgorithm:\tRSA2048\nPIN tries left:\t3\n"
	outs := []string{wellFormed, "Slot 9a:\n", "", "Slot", "Slot ", "Slot 9", "Slot 9a", "Slot9a:", "Slot 9a:\r\nSlot 9c:\r\n", "Slot 9\nSlot 9a:\nSlot\n", "no slots here\n", "Slot 9a:", "\nSlot 9d:\n\n",
		"slot 9a:\n", " Slot 9a:\n", strings.Repeat("Slot 82:\n\tAlgorithm:\tRSA2048\n", 40000), strings.Repeat("x", 1<<20), "Slo\nSlot\nSlot \nSlot 9\nSlot 9a\n"}
	for _, o := range outs {
		for _, remote := range []bool{false, true} {
			c13Piv(c, piv, c13Case{PivOp: "ListSlots", PivOutput: o, Remote: remote})
		}
		c13Piv(c, piv, c13Case{PivOp: "ListSlots", PivOutput: o, PivStatus: 1})
		c13Piv(c, piv, c13Case{PivOp: "ListSlots", PivOutput: o, PivStatus: 1, PivStderr: "Failed to connect to yubikey.\n"})
	}
	for _, op := range []string{"ListSlots", "ReadSlot", "AttestSlot"} {
		for _, st := range []int{0, 1, 2, 255} {
			for _, se := range []string{"", "x", "Failed to connect to yubikey.\nTry re-inserting it.\n", strings.Repeat("e", 70000)} {
				c13Piv(c, piv, c13Case{PivOp: op, PivOutput: wellFormed, PivStatus: st, PivStderr: se, PivExpect: "error"})
			}
		}
	}
	c.Sample(c13Case{PivOp: "ListSlots", PivOutput: "Slot 9"})
	certs := c13Certs()
	pem0, pem1 := string(fix.PEMCert(certs[0].Raw)), string(fix.PEMCert(certs[1].Raw))
	pems := [][2]string{{pem0, "cert0"}, {pem1, "cert1"}, {pem0 + "\n \n", "cert0"}, {"junk before\n" + pem0, "cert0"}, {pem0 + pem1, "cert0"},
		{pem0 + "trailing garbage", "error"}, {"", "error"}, {"not pem", "error"}, {"-----BEGIN CERTIFICATE-----\nAAAA\n-----END CERTIFICATE-----\n", "error"}, {pem0[:200], "error"}}
	for _, o := range pems {
		for _, op := range []string{"ReadSlot", "AttestSlot"} {
			for _, remote := range []bool{false, true} {
				c13Piv(c, piv, c13Case{PivOp: op, PivOutput: o[0], Remote: remote, PivExpect: o[1]})
			}
			c13Piv(c, piv, c13Case{PivOp: op, PivOutput: o[0], PivStatus: 1, PivExpect: o[1]})
		}
	}
}
