//go:build verif

package main

import (
	"bytes"
	"crypto/x509"
	"fmt"
	"net"
	"os"
	"path/filepath"
	"reflect"
	"time"

	"golang.org/x/crypto/ssh"
	"golang.org/x/crypto/ssh/agent"

	"github.com/theparanoids/ysshra/agent/yubiagent"
	"github.com/theparanoids/ysshra/internal/zzverif/ev"
	"github.com/theparanoids/ysshra/internal/zzverif/fix"
	"github.com/theparanoids/ysshra/zzverifrt/vnet"
)

// holdAgent is a stub served agent whose first call of one operation waits for a gate (a signature that waits for a touch).
type holdAgent struct {
	*stubAgent
	holdOp  string
	arrived chan struct{}
	gate    chan struct{}
	used    bool
}

func (h *holdAgent) hold(op string) {
	if op == h.holdOp && !h.used {
		h.used = true
		close(h.arrived)
		<-h.gate
	}
}

func (h *holdAgent) Sign(key ssh.PublicKey, data []byte) (*ssh.Signature, error) {
	h.hold("Sign")
	return h.stubAgent.Sign(key, data)
}
func (h *holdAgent) SignWithFlags(key ssh.PublicKey, data []byte, f agent.SignatureFlags) (*ssh.Signature, error) {
	h.hold("Sign")
	return h.stubAgent.SignWithFlags(key, data, f)
}
func (h *holdAgent) List() ([]*agent.Key, error) { h.hold("List"); return h.stubAgent.List() }
func (h *holdAgent) ListSlots() ([]string, error) {
	h.hold("ListSlots")
	return h.stubAgent.ListSlots()
}
func (h *holdAgent) Forward(req []byte) ([]byte, error) {
	h.hold("Forward")
	return h.stubAgent.Forward(req)
}

// c13Concurrent is a declared side pass (C13's quantifier is over operation sequences; one client object shared by two
// goroutines is outside it, but the client serialises its round trips and a caller may rely on that): while one operation
// is held inside the served agent, a second goroutine issues another operation on the SAME client over a buffered
// connection. Each caller must receive its own result. On a correct client the second call simply waits for the first.
func c13Concurrent(c *ev.Ctx) {
	type opf struct {
		name string
		run  func(cl yubiagent.YubiAgent, st *stubAgent) string
	}
	sig, _ := fix.Signer(fK1).Sign(nil, []byte("data"))
	ops := map[string]opf{
		"Sign": {"Sign", func(cl yubiagent.YubiAgent, st *stubAgent) string {
			s, err := cl.Sign(fix.Pub(fK1), []byte("data"))
			if err != nil || s == nil || !bytes.Equal(s.Blob, st.Sig.Blob) {
				return fmt.Sprintf("Sign returned %v, %v", s, err)
			}
			return ""
		}},
		"List": {"List", func(cl yubiagent.YubiAgent, st *stubAgent) string {
			ks, err := cl.List()
			if err != nil || len(ks) != len(st.Keys) || (len(ks) > 0 && !bytes.Equal(ks[0].Blob, st.Keys[0].Blob)) {
				return fmt.Sprintf("List returned %d keys, %v", len(ks), err)
			}
			return ""
		}},
		"ListSlots": {"ListSlots", func(cl yubiagent.YubiAgent, st *stubAgent) string {
			sl, err := cl.ListSlots()
			if err != nil || !reflect.DeepEqual(sl, st.Slots) {
				return fmt.Sprintf("ListSlots returned %q, %v", sl, err)
			}
			return ""
		}},
		"Forward": {"Forward", func(cl yubiagent.YubiAgent, st *stubAgent) string {
			r, err := cl.Forward([]byte{0xc9, 1, 2, 3})
			if err != nil || !bytes.Equal(r, st.RawResp) {
				return fmt.Sprintf("Forward returned %d bytes, %v", len(r), err)
			}
			return ""
		}},
	}
	n := 0
	for _, pair := range [][2]string{{"Sign", "ListSlots"}, {"Sign", "Forward"}, {"ListSlots", "Sign"}, {"Forward", "List"}, {"List", "ListSlots"}, {"Sign", "List"}, {"ListSlots", "Forward"}} {
		for rep := 0; rep < 4; rep++ {
			c.Eval()
			n++
			k := map[string]any{"concurrent_on_one_client": pair, "repetition": rep}
			st := &stubAgent{
				Keys:    []*agent.Key{{Format: fix.Pub(fK1).Type(), Blob: fix.Pub(fK1).Marshal(), Comment: "one"}},
				Sig:     sig,
				RawResp: append([]byte{0xee}, make([]byte, 299)...),
				Slots:   []string{"9a", "9c"},
			}
			ha := &holdAgent{stubAgent: st, holdOp: pair[0], arrived: make(chan struct{}), gate: make(chan struct{})}
			addr := fmt.Sprintf("/verif/yubi-conc-%d", worldSeq.Add(1))
			sp := &servedPeer{}
			vnet.Register(addr, func() (net.Conn, error) { return servedConn(ha, sp)() })
			cl, err := yubiagent.NewClient(addr)
			if err != nil {
				vnet.Unregister(addr)
				c.Violation("C13:harness:newclient", err.Error(), k)
				return
			}
			res := make(chan [2]string, 2)
			go func() {
				var m string
				p := ev.Guard(func() { m = ops[pair[0]].run(cl, st) })
				res <- [2]string{pair[0], m + p}
			}()
			stop := false
			select {
			case <-ha.arrived:
			case r := <-res:
				c.Violation("C13:concurrent:first-call-fails", fmt.Sprintf("%s on a fresh client: %s", r[0], r[1]), k)
				stop = true
			case <-time.After(60 * time.Second):
				c.Cap("concurrent side pass: the held operation did not reach the served agent within 60 s")
				stop = true
			}
			if !stop {
				go func() {
					var m string
					p := ev.Guard(func() { m = ops[pair[1]].run(cl, st) })
					res <- [2]string{pair[1], m + p}
				}()
				time.Sleep(250 * time.Millisecond) // on a correct client the second call is now waiting for the first
				close(ha.gate)
				for i := 0; i < 2 && !stop; i++ {
					select {
					case r := <-res:
						if r[1] != "" {
							c.Violation("C13:concurrent:caller-receives-foreign-or-broken-result:"+pair[0]+"+"+pair[1], fmt.Sprintf("two goroutines on one client, %s held in the served agent while %s was issued: %s got %s", pair[0], pair[1], r[0], r[1]), k)
							stop = true
						}
					case <-time.After(60 * time.Second):
						c.Violation("C13:concurrent:operations-never-complete:"+pair[0]+"+"+pair[1], fmt.Sprintf("two goroutines on one client (%s held, then %s): a call did not return within 60 s", pair[0], pair[1]), k)
						stop = true
					}
				}
			} else {
				close(ha.gate)
			}
			cl.Close()
			vnet.Unregister(addr)
			if stop {
				return
			}
		}
	}
	c.Set("concurrent_pairs_on_one_client", n)
}

// c13PivConcurrent: two connections to one local-mode server; the first client's slot read is held INSIDE the PIV tool
// (the fake tool waits for a release file) while the second client reads ANOTHER slot. Each client gets the certificate
// of the slot it named; the verdict depends on the returned bytes only. Declared side pass (two connections at once).
func c13PivConcurrent(c *ev.Ctx) {
	d, err := os.MkdirTemp("", "verif-piv2-")
	if err != nil {
		c.Cap("piv concurrency side pass: " + err.Error())
		return
	}
	defer os.RemoveAll(d)
	script := "#!/bin/sh\nD='" + d + "'\nslot=none; prev=''\nfor a in \"$@\"; do [ \"$prev\" = '-s' ] && slot=\"$a\"; prev=\"$a\"; done\n" +
		"if [ -f \"$D/hold-$slot\" ]; then : > \"$D/arrived-$slot\"; while [ ! -f \"$D/release\" ]; do sleep 0.05; done; fi\n" +
		"cat \"$D/cert-$slot\"\nexit 0\n"
	os.WriteFile(filepath.Join(d, "yubico-piv-tool"), []byte(script), 0o755)
	oldPath := os.Getenv("PATH")
	os.Setenv("PATH", d+":"+oldPath)
	defer os.Setenv("PATH", oldPath)
	certs := c13Certs()
	os.WriteFile(filepath.Join(d, "cert-9a"), fix.PEMCert(certs[0].Raw), 0o644)
	os.WriteFile(filepath.Join(d, "cert-9e"), fix.PEMCert(certs[1].Raw), 0o644)
	for _, op := range []string{"ReadSlot", "AttestSlot"} {
		c.Eval()
		k := map[string]any{"piv_two_connections": op, "held": "9a", "second": "9e"}
		os.Remove(filepath.Join(d, "release"))
		os.Remove(filepath.Join(d, "arrived-9a"))
		os.WriteFile(filepath.Join(d, "hold-9a"), nil, 0o644)
		w, err := newYWorld(false)
		if err != nil {
			c.Violation("C13:harness:newserver", err.Error(), k)
			return
		}
		saddr := fmt.Sprintf("/verif/yubi-piv2-%d", worldSeq.Add(1))
		sp := &servedPeer{}
		vnet.Register(saddr, func() (net.Conn, error) { return servedConn(w.srv, sp)() })
		clA, e1 := yubiagent.NewClient(saddr)
		clB, e2 := yubiagent.NewClient(saddr)
		if e1 != nil || e2 != nil {
			c.Violation("C13:harness:newclient", fmt.Sprint(e1, e2), k)
			return
		}
		call := func(cl yubiagent.YubiAgent, slot string) (*x509.Certificate, error) {
			if op == "ReadSlot" {
				return cl.ReadSlot(slot)
			}
			return cl.AttestSlot(slot)
		}
		type res struct {
			who  string
			cert *x509.Certificate
			err  error
		}
		out := make(chan res, 2)
		go func() { ct, e := call(clA, "9a"); out <- res{"first client (slot 9a)", ct, e} }()
		arrived := false
		for i := 0; i < 600 && !arrived; i++ {
			if _, e := os.Stat(filepath.Join(d, "arrived-9a")); e == nil {
				arrived = true
			} else {
				time.Sleep(50 * time.Millisecond)
			}
		}
		if !arrived {
			os.WriteFile(filepath.Join(d, "release"), nil, 0o644)
			c.Cap("piv concurrency side pass: the held tool run did not start within 30 s")
		} else {
			go func() { ct, e := call(clB, "9e"); out <- res{"second client (slot 9e)", ct, e} }()
			time.Sleep(300 * time.Millisecond)
			os.WriteFile(filepath.Join(d, "release"), nil, 0o644)
			want := map[string]*x509.Certificate{"first client (slot 9a)": certs[0], "second client (slot 9e)": certs[1]}
			for i := 0; i < 2; i++ {
				select {
				case r := <-out:
					if r.err != nil || r.cert == nil || !bytes.Equal(r.cert.Raw, want[r.who].Raw) {
						got := "no certificate"
						if r.cert != nil && bytes.Equal(r.cert.Raw, certs[0].Raw) {
							got = "the certificate of slot 9a"
						} else if r.cert != nil {
							got = "another certificate"
						}
						c.Violation("C13:concurrent:slot-result-of-another-request:"+op, fmt.Sprintf("%s on two connections at once, the first held inside the PIV tool: the %s received %s (err=%v)", op, r.who, got, r.err), k)
					}
				case <-time.After(60 * time.Second):
					c.Violation("C13:concurrent:operations-never-complete:"+op, "a slot operation did not return within 60 s of the tool being released", k)
					i = 2
				}
			}
		}
		os.Remove(filepath.Join(d, "hold-9a"))
		clA.Close()
		clB.Close()
		vnet.Unregister(saddr)
		vnet.Unregister(w.addr)
	}
}

// c13LengthSweep: raw requests and replies of EVERY length 1..3000 through one client connection (and signatures over data
// of every length 1280..1420 with an Ed25519 key): the served agent receives the same bytes, the caller the same reply -
// a framing helper with a size class anywhere on the path shows at its boundary only.
func c13LengthSweep(c *ev.Ctx) {
	sig, _ := fix.Signer(fK1).Sign(nil, []byte("data"))
	st := &stubAgent{Sig: sig}
	addr := fmt.Sprintf("/verif/yubi-len-%d", worldSeq.Add(1))
	sp := &servedPeer{}
	vnet.Register(addr, func() (net.Conn, error) { return servedConn(st, sp)() })
	defer vnet.Unregister(addr)
	cl, err := yubiagent.NewClient(addr)
	if err != nil {
		c.Violation("C13:harness:newclient", err.Error(), nil)
		return
	}
	defer cl.Close()
	n := 0
	for L := 1; L <= 3000; L++ {
		c.Eval()
		n++
		req := append([]byte{0xc9}, bytes.Repeat([]byte{byte(L)}, L-1)...)
		st.RawResp = append([]byte{0xee}, bytes.Repeat([]byte{byte(L >> 3)}, L-1)...)
		st.Calls = nil
		var resp []byte
		var ferr error
		k := map[string]any{"length_sweep": "Forward", "length": L}
		if p := ev.Guard(func() { resp, ferr = cl.Forward(req) }); p != "" {
			c.Violation("C13:panic:"+ev.PanicSite(p), p, k)
			return
		}
		got, _ := last(st, "Forward")
		if ferr != nil || !bytes.Equal(resp, st.RawResp) || !bytes.Equal(got.Raw, req) {
			c.Violation("C13:mismatch:forward:length", fmt.Sprintf("raw request of %d bytes with a reply of %d bytes: the served agent received %d bytes, the caller %d bytes, err=%v", L, len(st.RawResp), len(got.Raw), len(resp), ferr), k)
			return
		}
	}
	for L := 1280; L <= 1420; L++ {
		c.Eval()
		n++
		data := bytes.Repeat([]byte{7}, L)
		st.Calls = nil
		k := map[string]any{"length_sweep": "Sign", "length": L}
		var s *ssh.Signature
		var serr error
		if p := ev.Guard(func() { s, serr = cl.Sign(fix.Pub(fK1), data) }); p != "" {
			c.Violation("C13:panic:"+ev.PanicSite(p), p, k)
			return
		}
		got, _ := last(st, "Sign")
		if serr != nil || s == nil || !bytes.Equal(s.Blob, sig.Blob) || !bytes.Equal(got.Data, data) {
			c.Violation("C13:mismatch:sign:length", fmt.Sprintf("signature over %d bytes of data: err=%v, the served agent received %d bytes", L, serr, len(got.Data)), k)
			return
		}
	}
	c.Set("length_sweep_round_trips", n)
}
