//go:build verif

package main

import (
	"encoding/binary"
	"fmt"
	"io"
	"net"
	"time"

	"golang.org/x/crypto/ssh"
	"golang.org/x/crypto/ssh/agent"

	"github.com/theparanoids/ysshra/agent/yubiagent"
	"github.com/theparanoids/ysshra/internal/zzverif/ev"
	"github.com/theparanoids/ysshra/internal/zzverif/fix"
	"github.com/theparanoids/ysshra/zzverifrt/vnet"
)

// cutConn is a transport that fails: the first response frame of the connection reaches the client only up to a cut point,
// then the stream ends (the served side went away mid-response).
type cutConn struct {
	net.Conn
	class     string
	loaded    bool
	buf       []byte
	respLen   int
	delivered int
	complete  bool // the cut point is not inside the frame for this response length: nothing was cut
}

var c13CutClasses = []string{"nothing", "half-prefix", "prefix-only", "half-body", "all-but-last-byte"}

func (c *cutConn) Read(p []byte) (int, error) {
	if !c.loaded {
		c.loaded = true
		var hdr [4]byte
		if _, err := io.ReadFull(c.Conn, hdr[:]); err != nil {
			return 0, err
		}
		l := int(binary.BigEndian.Uint32(hdr[:]))
		body := make([]byte, l)
		if _, err := io.ReadFull(c.Conn, body); err != nil {
			return 0, err
		}
		full := append(hdr[:], body...)
		c.respLen = l
		n := map[string]int{"nothing": 0, "half-prefix": 2, "prefix-only": 4, "half-body": 4 + l/2, "all-but-last-byte": 4 + l - 1}[c.class]
		if n >= len(full) || n < 0 {
			n, c.complete = len(full), true
		}
		c.buf = full[:n]
	}
	if len(c.buf) == 0 {
		c.Conn.Close()
		return 0, io.EOF
	}
	n := copy(p, c.buf)
	c.buf = c.buf[n:]
	c.delivered += n
	return n, nil
}

type c13CutCall struct {
	Name string
	Run  func(cl yubiagent.YubiAgent) error
}

func c13CutCalls() []c13CutCall {
	k1 := fix.Pub(fK1)
	return []c13CutCall{
		{"List", func(cl yubiagent.YubiAgent) error { _, e := cl.List(); return e }},
		{"Sign", func(cl yubiagent.YubiAgent) error { _, e := cl.Sign(k1, []byte("data")); return e }},
		{"SignWithFlags", func(cl yubiagent.YubiAgent) error {
			_, e := cl.SignWithFlags(k1, []byte("data"), agent.SignatureFlagRsaSha256)
			return e
		}},
		{"Add", func(cl yubiagent.YubiAgent) error { return cl.Add(agent.AddedKey{PrivateKey: fK3, Comment: "c"}) }},
		{"Remove", func(cl yubiagent.YubiAgent) error { return cl.Remove(k1) }},
		{"RemoveAll", func(cl yubiagent.YubiAgent) error { return cl.RemoveAll() }},
		{"Lock", func(cl yubiagent.YubiAgent) error { return cl.Lock([]byte("pw")) }},
		{"Unlock", func(cl yubiagent.YubiAgent) error { return cl.Unlock([]byte("pw")) }},
		{"Signers", func(cl yubiagent.YubiAgent) error { _, e := cl.Signers(); return e }},
		{"Extension", func(cl yubiagent.YubiAgent) error { _, e := cl.Extension("ext@x", []byte("payload")); return e }},
		{"Forward", func(cl yubiagent.YubiAgent) error { _, e := cl.Forward([]byte{0xc9, 1, 2, 3}); return e }},
		{"AddHardCert", func(cl yubiagent.YubiAgent) error { return cl.AddHardCert(certH1, "hw") }},
		{"Wait", func(cl yubiagent.YubiAgent) error { return cl.Wait(40) }},
		{"ListSlots", func(cl yubiagent.YubiAgent) error { _, e := cl.ListSlots(); return e }},
		{"ReadSlot", func(cl yubiagent.YubiAgent) error { _, e := cl.ReadSlot("9a"); return e }},
		{"AttestSlot", func(cl yubiagent.YubiAgent) error { _, e := cl.AttestSlot("9a"); return e }},
	}
}

// c13Cut: one operation whose response is lost part-way by the transport; the caller must see an error, never a result.
func c13Cut(c *ev.Ctx, call c13CutCall, class string) {
	c.Eval()
	k := c13Case{CutOp: call.Name, CutClass: class}
	c.Crumb(k)
	sig, _ := fix.Signer(fK1).Sign(nil, []byte("data"))
	st := &stubAgent{
		Keys:    []*agent.Key{{Format: fix.Pub(fK1).Type(), Blob: fix.Pub(fK1).Marshal(), Comment: "one"}, {Format: fix.Pub(fK2).Type(), Blob: fix.Pub(fK2).Marshal(), Comment: "two"}},
		Sig:     sig,
		RawResp: append([]byte{0xee}, make([]byte, 299)...),
		Slots:   []string{"9a", "9c"},
		Cert:    c13Certs()[0],
	}
	addr := fmt.Sprintf("/verif/yubi-cut-%d", worldSeq.Add(1))
	sp := &servedPeer{}
	inner := servedConn(st, sp)
	var cc *cutConn
	vnet.Register(addr, func() (net.Conn, error) {
		ce, err := inner()
		if err != nil {
			return nil, err
		}
		cc = &cutConn{Conn: ce, class: class}
		return cc, nil
	})
	defer vnet.Unregister(addr)
	cl, err := yubiagent.NewClient(addr)
	if err != nil {
		c.Violation("C13:harness:newclient", err.Error(), k)
		return
	}
	defer cl.Close()
	var cerr error
	var p string
	done := make(chan struct{})
	go func() { p = ev.Guard(func() { cerr = call.Run(cl) }); close(done) }()
	select {
	case <-done:
	case <-time.After(60 * time.Second):
		c.Violation("C13:operation-hangs:transport-failure:"+call.Name, fmt.Sprintf("%s did not return within 60 s after the response was cut (%s)", call.Name, class), k)
		return
	}
	if sp2 := sp.take(); sp2 != "" && p == "" {
		p = sp2
	}
	if p != "" {
		c.Violation("C13:crash:"+ev.PanicSite(p), fmt.Sprintf("%s crashed when the response was cut (%s):\n%s", call.Name, class, p), k)
		return
	}
	if cc == nil || !cc.loaded {
		c.Violation("C13:harness:cut-not-reached", fmt.Sprintf("%s read no response", call.Name), k)
		return
	}
	if cc.complete {
		c.Outcome("cut/not-applicable")
		return
	}
	c.Outcome(fmt.Sprintf("cut/%s/err=%v", class, cerr != nil))
	c.Nontrivial("cut|" + call.Name + "|" + class)
	if cerr == nil {
		c.Violation("C13:transport-failure-not-reported:"+call.Name, fmt.Sprintf("%s returned no error although only %d of %d response bytes arrived before the stream ended (%s): a failure must be reported as an error", call.Name, cc.delivered, 4+cc.respLen, class), k)
	}
}

var _ = ssh.Marshal

// c13Hold: the caller keeps the result of one operation while a second operation runs on the same connection; the kept
// result must not change (results are independent of later requests).
func c13Hold(c *ev.Ctx, first string, second c13CutCall) {
	c.Eval()
	k := c13Case{HoldOp: first, CutOp: second.Name}
	c.Crumb(k)
	sig, _ := fix.Signer(fK1).Sign(nil, []byte("data"))
	st := &stubAgent{
		Keys:    []*agent.Key{{Format: fix.Pub(fK1).Type(), Blob: fix.Pub(fK1).Marshal(), Comment: "one"}, {Format: fix.Pub(fK2).Type(), Blob: fix.Pub(fK2).Marshal(), Comment: "two"}},
		Sig:     sig,
		RawResp: append([]byte{0xee}, make([]byte, 299)...),
		Slots:   []string{"9a", "9c"},
		Cert:    c13Certs()[0],
	}
	addr := fmt.Sprintf("/verif/yubi-hold-%d", worldSeq.Add(1))
	sp := &servedPeer{}
	vnet.Register(addr, servedConn(st, sp))
	defer vnet.Unregister(addr)
	cl, err := yubiagent.NewClient(addr)
	if err != nil {
		c.Violation("C13:harness:newclient", err.Error(), k)
		return
	}
	defer cl.Close()
	var live [][]byte
	var ferr error
	p := ev.Guard(func() {
		switch first {
		case "List":
			var ks []*agent.Key
			ks, ferr = cl.List()
			for _, x := range ks {
				live = append(live, x.Blob)
			}
		case "Sign":
			var s *ssh.Signature
			s, ferr = cl.Sign(fix.Pub(fK1), []byte("data"))
			if s != nil {
				live = append(live, s.Blob)
			}
		case "Extension":
			var r []byte
			r, ferr = cl.Extension("ext@x", []byte("payload"))
			live = append(live, r)
		case "Forward":
			var r []byte
			r, ferr = cl.Forward([]byte{0xc9, 1, 2, 3})
			live = append(live, r)
		case "ReadSlot":
			crt, e := cl.ReadSlot("9a")
			ferr = e
			if crt != nil {
				live = append(live, crt.Raw)
			}
		case "AttestSlot":
			crt, e := cl.AttestSlot("9a")
			ferr = e
			if crt != nil {
				live = append(live, crt.Raw)
			}
		}
	})
	if p != "" || ferr != nil || len(live) == 0 {
		c.Violation("C13:harness:hold-first-op", fmt.Sprintf("%s: panic=%q err=%v results=%d", first, p, ferr, len(live)), k)
		return
	}
	var snap [][]byte
	for _, l := range live {
		snap = append(snap, append([]byte{}, l...))
	}
	// the second operation answers with different content of the same size
	st.RawResp = append([]byte{0xee}, bytesOf(0x77, 299)...)
	st.Keys = []*agent.Key{{Format: fix.Pub(fK2).Type(), Blob: fix.Pub(fK2).Marshal(), Comment: "two"}, {Format: fix.Pub(fK1).Type(), Blob: fix.Pub(fK1).Marshal(), Comment: "one"}}
	st.Cert = c13Certs()[1]
	done := make(chan struct{})
	go func() { p = ev.Guard(func() { second.Run(cl) }); close(done) }()
	select {
	case <-done:
	case <-time.After(60 * time.Second):
		c.Violation("C13:operation-hangs:"+second.Name, fmt.Sprintf("%s after %s did not return within 60 s", second.Name, first), k)
		return
	}
	if p != "" {
		c.Violation("C13:crash:"+ev.PanicSite(p), fmt.Sprintf("%s after %s crashed:\n%s", second.Name, first, p), k)
		return
	}
	c.Outcome("hold/ok")
	c.Nontrivial("hold|" + first + "|" + second.Name)
	for i := range live {
		if string(live[i]) != string(snap[i]) {
			c.Outcome("hold/changed")
			c.Violation("C13:returned-value-changed-later:"+first, fmt.Sprintf("the %d-byte value returned by %s changed while the caller held it, during the later %s on the same connection", len(snap[i]), first, second.Name), k)
			return
		}
	}
}

func bytesOf(b byte, n int) []byte {
	out := make([]byte, n)
	for i := range out {
		out[i] = b
	}
	return out
}
