//go:build verif

package main

import (
	"bytes"
	"encoding/binary"
	"encoding/hex"
	"encoding/json"
	"fmt"
	"github.com/theparanoids/ysshra/internal/zzverif/fix"
	"io"
	"os"
	"runtime"
	"strings"
	"time"

	"github.com/theparanoids/ysshra/agent/yubiagent"
	"github.com/theparanoids/ysshra/internal/zzverif/ev"
	"github.com/theparanoids/ysshra/internal/zzverif/introspect"
	"github.com/theparanoids/ysshra/zzverifrt/vnet"
)

// c12Case: a byte stream given as a list of pieces; each piece is either a named grammar frame, a raw hex frame body
// (framed by the harness) or raw hex bytes placed on the wire verbatim (prefix pathologies).
type c12Piece struct {
	Frame string `json:",omitempty"` // name of a grammar frame
	Body  string `json:",omitempty"` // hex body, length prefix added
	Raw   string `json:",omitempty"` // hex bytes verbatim
	// for Raw pieces: the declared length and how many body bytes follow (classification)
	Declared uint32 `json:",omitempty"`
}

type c12Case struct {
	Pieces  []c12Piece
	Before  []c12Piece `json:",omitempty"` // an earlier connection to the SAME server, served to its end before this one
	Note    string
	UAFault map[string]string `json:",omitempty"` // underlying-agent request index -> fault kind (relaxed oracle: service may end there, but only with an error)
	Local   bool              `json:",omitempty"` // the server runs in local mode (slot requests shell out to a fake PIV tool on PATH)
}

type rw struct {
	io.Reader
	io.Writer
}

var c12Frames map[string]frameSpec

type c12Parsed struct {
	spec     *frameSpec // nil for non-grammar bodies
	body     []byte
	complete bool
	empty    bool
	oversize bool
}

func c12Build(k c12Case) (stream []byte, frames []c12Parsed) {
	for _, p := range k.Pieces {
		switch {
		case p.Frame != "":
			stream = append(stream, vnet.Frame(c12Frames[p.Frame].Body)...)
		case p.Raw != "":
			b, _ := hex.DecodeString(p.Raw)
			stream = append(stream, b...)
		default:
			b, _ := hex.DecodeString(p.Body)
			stream = append(stream, vnet.Frame(b)...)
		}
	}
	// independent framing of the concatenated stream (pieces need not align with frame boundaries)
	rest := stream
	for len(rest) > 0 {
		if len(rest) < 4 {
			frames = append(frames, c12Parsed{complete: false})
			break
		}
		l := binary.BigEndian.Uint32(rest)
		if l > 16<<20 {
			frames = append(frames, c12Parsed{oversize: true})
			break
		}
		if uint32(len(rest)-4) < l {
			frames = append(frames, c12Parsed{complete: false})
			break
		}
		body := rest[4 : 4+l]
		f := c12Parsed{body: body, complete: true, empty: l == 0}
		if sp, ok := c12ByBody[string(body)]; ok {
			spc := sp
			f.spec = &spc
		}
		frames = append(frames, f)
		rest = rest[4+l:]
	}
	return
}

var c12ByBody = map[string]frameSpec{}

var c12Wedged bool // a stream wedged the server once: the rest of the enumeration is skipped (each case would wait out the watchdog)

func c12Run(c *ev.Ctx, k c12Case, single bool) {
	if c12Wedged {
		return
	}
	c.Eval()
	c.Crumb(k)
	stream, frames := c12Build(k)
	w, err := newYWorld(!k.Local)
	if err != nil {
		c.Violation("C12:harness:newserver", err.Error(), k)
		return
	}
	defer vnet.Unregister(w.addr)
	for is, kind := range k.UAFault {
		var i int
		fmt.Sscanf(is, "%d", &i)
		w.ua.Plan[i] = kind
	}
	if len(k.Before) > 0 {
		// an earlier client connection on the same server: whatever it did, the next connection is judged as usual
		pre, _ := c12Build(c12Case{Pieces: k.Before})
		var sink bytes.Buffer
		if pn := ev.Guard(func() { yubiagent.ServeAgent(w.srv, rw{bytes.NewReader(pre), &sink}) }); pn != "" {
			c.Violation("C12:crash:"+ev.PanicSite(pn), "serving the earlier connection crashed:\n"+pn, k)
			return
		}
	}
	var out bytes.Buffer
	var serveErr error
	var m0, m1 runtime.MemStats
	hasOversize := false
	for _, f := range frames {
		hasOversize = hasOversize || f.oversize
	}
	if hasOversize {
		runtime.ReadMemStats(&m0)
	}
	var pn string
	{
		// the stream is finite and the peer never waits, so serving it ends; a watchdog turns a wedged server (a lock
		// left held by an earlier request, a wait nobody ends) into a violation instead of a hung check
		done := make(chan struct{})
		go func() {
			pn = ev.Guard(func() { serveErr = yubiagent.ServeAgent(w.srv, rw{bytes.NewReader(stream), &out}) })
			close(done)
		}()
		select {
		case <-done:
		case <-time.After(180 * time.Second):
			c.Violation("C12:service-never-ends", "serving a finite byte stream did not end within 180 s (a few milliseconds are normal): the server is wedged", k)
			c12Wedged = true
			c.Cap("enumeration stopped after a stream wedged the server")
			return
		}
	}
	if held := introspect.LocksHeld(w.srv); len(held) > 0 && pn == "" {
		c.Violation("C12:lock-left-held", fmt.Sprintf("serving the stream returned with %v still held: the next request on any connection would block for ever", held), k)
		return
	}
	if hasOversize {
		runtime.ReadMemStats(&m1)
		if grew := m1.TotalAlloc - m0.TotalAlloc; grew > 1<<20+uint64(len(stream))*8 {
			c.Violation("C12:allocates-for-oversized-frame", fmt.Sprintf("serving allocated %d bytes for a frame declared larger than 16 MiB", grew), k)
		}
	}
	if pn != "" {
		c.Violation("C12:crash:"+ev.PanicSite(pn), "serving the stream crashed:\n"+pn, k)
		return
	}
	// output must be a sequence of frames
	var resps [][]byte
	o := out.Bytes()
	for len(o) > 0 {
		if len(o) < 4 {
			c.Violation("C12:output-not-framed", "response stream ends inside a length prefix", k)
			return
		}
		l := int(binary.BigEndian.Uint32(o))
		if len(o) < 4+l {
			c.Violation("C12:output-not-framed", "response stream ends inside a frame", k)
			return
		}
		resps = append(resps, o[4:4+l])
		o = o[4+l:]
	}
	nComplete := 0
	for _, f := range frames {
		if f.complete {
			nComplete++
		} else {
			break
		}
	}
	R := len(resps)
	c.Outcome(fmt.Sprintf("frames=%d/complete=%d/resps=%d/err=%v", len(frames), nComplete, R, serveErr != nil))
	if R > nComplete {
		c.Violation("C12:more-responses-than-requests", fmt.Sprintf("%d response frames for %d complete request frames", R, nComplete), k)
		return
	}
	// walk: every frame before the end of service gets exactly one response; service may end only at a malformed/empty frame
	wf := func(f c12Parsed) bool { return f.spec != nil && f.spec.WF }
	if R < nComplete {
		// service ended at frame index R (0-based, no response) or R-1 (answered, then ended)
		endedAt := R
		okEnd := !wf(frames[endedAt]) || (R > 0 && !wf(frames[R-1]))
		faultFired := false
		for _, q := range w.ua.Log {
			faultFired = faultFired || q.Fault != ""
		}
		if !okEnd && !faultFired {
			name := "?"
			if frames[endedAt].spec != nil {
				name = frames[endedAt].spec.Name
			}
			c.Violation("C12:well-formed-request-unanswered", fmt.Sprintf("the well-formed request #%d (%s) received no response (responses=%d, return=%v)", endedAt, name, R, serveErr), k)
			return
		}
		if serveErr == nil {
			c.Violation("C12:silent-stop", fmt.Sprintf("service stopped after %d of %d complete frames without an error", R, nComplete), k)
		}
	} else {
		// all complete frames answered
		if serveErr != nil && nComplete == len(frames) {
			last := frames[len(frames)-1]
			if wf(last) || len(frames) == 0 {
				c.Violation("C12:error-on-clean-end", fmt.Sprintf("end of stream exactly at a frame boundary returned %v", serveErr), k)
			}
		}
		if len(frames) == 0 && serveErr != nil {
			c.Violation("C12:error-on-clean-end", fmt.Sprintf("empty stream returned %v", serveErr), k)
		}
		// the stream ended INSIDE a frame (length prefix or body cut short): that is not a clean end between frames
		if n := len(frames); n > 0 && !frames[n-1].complete && !frames[n-1].oversize && serveErr == nil && len(k.UAFault) == 0 {
			c.Violation("C12:truncated-frame-ends-cleanly", fmt.Sprintf("the stream ended inside frame #%d (after %d complete frames) and service ended without an error", n-1, nComplete), k)
		}
	}
	// per-response expectations, in request order
	for i := 0; i < R && i < len(frames) && len(k.UAFault) == 0; i++ {
		f := frames[i]
		if f.spec == nil {
			continue
		}
		if wf(f) {
			c.Nontrivial(f.spec.Name + "|" + fmt.Sprint(i, len(frames)))
		}
		if single && len(frames) == 1 && f.spec.Check != nil {
			if msg := f.spec.Check(resps[i]); msg != "" {
				c.Violation("C12:wrong-response:"+f.spec.Name, "request "+f.spec.Name+": "+msg, k)
			}
		} else if f.spec.Type != nil && wf(f) && !f.spec.Type(resps[i]) {
			c.Violation("C12:response-out-of-order-or-wrong-type:"+f.spec.Name, fmt.Sprintf("response #%d (%x…) is not a response to request #%d (%s)", i, resps[i][:min(len(resps[i]), 8)], i, f.spec.Name), k)
		}
	}
}

func checkC12(c *ev.Ctx) {
	c.Rule("yubiagent.ServeAgent called synchronously on (bytes.Reader, bytes.Buffer) with the real *server (NewServer through the dial seam, remote mode) over the real shim and the harness underlying agent. Streams (remote mode unless stated; 318 slot-request streams in local mode with a fake PIV tool: every slot name of 0..3 characters over a 5-symbol alphabet for read and attest): every message code 0..255 x {code only, +00, +FF, +4 zero bytes} (wait frames use awaited codes 40/255), the empty frame, ~90 grammar-derived canonical and truncated frames (both add-hardware-certificate encodings, slot names, wait, every standard agent request incl. constraint bytes, raw-forward requests; a frame-length sweep: codes {200, 20, 27, 13, 31, 33} x every body length 1..2100 for the raw-forwarded code, windows of 13 around every multiple of 128 for the others, and within 6 of every power of two up to 2^17, each followed by a list request; a size ladder of well-formed sign / raw / add requests with bodies of 64 KiB, 256 KiB, 256 KiB+1, 1 MiB, 4 MiB and exactly 16 MiB, alone and between small requests; every ordered pair over 8 and triple over 5 medium/large requests on one connection; 147 streams with an add-hardware-certificate request (3 encodings) between large requests, followed by a listing and a signature with that certificate; every large frame up to 1 MiB cut inside its body at every power of two >= 4096 and its neighbours (body and stream offsets), alone and after a complete request), prefix pathologies (0..3 prefix bytes; declared 1, 2, 16MiB, 16MiB+1, 2^31, 2^32-1 with 0/1/all body bytes), every ordered pair of a 37-piece representative set, every piece on a SECOND connection after an earlier connection to the same server ended in one of 8 ways, every triple over a 20-piece subset (thorough: all triples, quadruples over 14). Oracle: no crash, framed output, one response per well-formed request in order with the expected type/content, service ends only at malformed frames and then with an error, clean end returns nil, a stream that ends inside a frame ends with an error, allocation bound for oversized declarations. non-trivial = well-formed request answered; distinct by (frame, position)")
	c.Assume("frames are classified well-formed only when they are canonical encodings produced by the harness grammar (x/crypto's own client for standard requests); for everything else either 'answered' or 'connection ended with an error' is accepted", "awaited codes below 40 block by design and are explored under C20")
	c12Frames = map[string]frameSpec{}
	gf := grammarFrames()
	for _, f := range gf {
		c12Frames[f.Name] = f
		c12ByBody[string(f.Body)] = f
	}
	if c.ReplayCase != nil {
		var k c12Case
		json.Unmarshal(c.ReplayCase, &k)
		c12Run(c, k, len(k.Pieces) == 1)
		return
	}
	n := 0
	// empty stream, empty frame
	c12Run(c, c12Case{Note: "empty stream"}, true)
	c12Run(c, c12Case{Pieces: []c12Piece{{Raw: "00000000"}}, Note: "frame of declared length 0"}, true)
	// every code x generic body shapes
	for code := 0; code < 256; code++ {
		shapes := [][]byte{{byte(code)}, {byte(code), 0}, {byte(code), 0xff}, {byte(code), 0, 0, 0, 0}}
		if code == 35 {
			shapes = [][]byte{{35}, {35, 40}, {35, 255}, {35, 40, 0, 0, 0}}
		}
		for _, b := range shapes {
			c12Run(c, c12Case{Pieces: []c12Piece{{Body: hex.EncodeToString(b)}}, Note: fmt.Sprintf("code %d", code)}, true)
			n++
		}
	}
	c.Sample(c12Case{Pieces: []c12Piece{{Body: "2300"}}, Note: "code 35 handled specially; this is code 35 with awaited code 0 — NOT generated; sample shows the shape only"})
	// grammar frames alone
	for _, f := range gf {
		c12Run(c, c12Case{Pieces: []c12Piece{{Frame: f.Name}}, Note: "grammar"}, true)
		n++
	}
	c.Sample(c12Case{Pieces: []c12Piece{{Frame: "hardcert-legacy-held-key"}}})
	// frame-length sweep: one code of every dispatch class (raw-forwarded unknown code, forwarded smartcard and extension
	// requests, a standard request, an add-hardware-certificate request, a slot request) x EVERY body length 1..2100, and
	// every length within 6 of a power of two up to 2^17 - a fixed-size scratch buffer or a length-class switch anywhere on
	// the path shows at its boundary only
	{
		lens := map[int]bool{}
		for L := 1; L <= 2100; L++ {
			lens[L] = true
		}
		for k := 11; k <= 17; k++ {
			for d := -6; d <= 6; d++ {
				lens[1<<k+d] = true
			}
		}
		nl := 0
		for _, code := range []byte{200, 20, 27, 13, 31, 33} {
			for L := range lens {
				if code != 200 && L > 40 && L < 2100 && !(L%128 >= 122 || L%128 <= 6) {
					continue // the full 1..2100 range for the raw-forwarded code; boundary windows (every multiple of 128) for the others
				}
				b := append([]byte{code}, bytes.Repeat([]byte{1}, L-1)...)
				c12Run(c, c12Case{Pieces: []c12Piece{{Body: hex.EncodeToString(b)}, {Frame: "list"}}, Note: fmt.Sprintf("length sweep: code %d, body of %d bytes", code, L)}, false)
				n++
				nl++
			}
		}
		c.Set("length_sweep_streams", nl)
	}
	// slot requests on a LOCAL-mode server (a fake PIV tool on PATH answers with a certificate / a status listing): every
	// slot name of 0..3 characters over {9, a, space, 0xff, '-'} and three longer ones, for read and attest, each followed
	// by a slot listing and a list request - whatever the name, one response per request and no crash
	{
		piv := newPivEnv()
		piv.set(fix.PEMCert(c13Certs()[0].Raw), 0)
		var names []string
		var rec func(pre string, d int)
		rec = func(pre string, d int) {
			names = append(names, pre)
			if d == 3 {
				return
			}
			for _, ch := range []string{"9", "a", " ", "\xff", "-"} {
				rec(pre+ch, d+1)
			}
		}
		rec("", 0)
		names = append(names, "9a9a", strings.Repeat("9", 64), "9a -s 9c")
		nl := 0
		for _, code := range []byte{33, 34} {
			for _, nm := range names {
				body := append([]byte{code}, []byte(nm)...)
				c12Run(c, c12Case{Local: true, Pieces: []c12Piece{{Body: hex.EncodeToString(body)}, {Body: "20"}, {Frame: "list"}}, Note: fmt.Sprintf("local mode: slot request %d with a %d-character name", code, len(nm))}, false)
				n++
				nl++
			}
		}
		c.Set("local_mode_slot_streams", nl)
		os.RemoveAll(piv.dir)
	}
	// huge comments in add-hardware-certificate requests, each followed by a slot listing and a list request on the same
	// connection (a refusal that cannot be framed would shift every later response by one)
	for _, f := range []string{"hardcert-new-absent-key-comment5MiB-nul", "hardcert-new-absent-key-comment5MiB-ff", "hardcert-new-held-key-comment5MiB-nul"} {
		c12Run(c, c12Case{Pieces: []c12Piece{{Frame: f}, {Frame: "list-slots"}, {Frame: "list"}}, Note: "huge comment, then two more requests"}, false)
		n++
	}
	// several large requests on ONE connection, in every order of sizes (per-connection buffers reused across requests)
	{
		multi := []string{"sign-k1-body5000", "sign-k1-body6000", "lock-pass6000", "unlock-wrong-pass7000-embedded-frames", "sign-cert", "sign-k1-body65536", "sign-k1-body262145", "sign-k1-body1048576"}
		for _, a := range multi {
			for _, b := range multi {
				if _, ok := c12Frames[a]; !ok {
					c.Violation("C12:harness:unknown-frame", a, nil)
					continue
				}
				c12Run(c, c12Case{Pieces: []c12Piece{{Frame: a}, {Frame: b}, {Frame: "list"}}, Note: "two large requests on one connection"}, false)
				n++
			}
		}
		for _, a := range multi[:5] {
			for _, b := range multi[:5] {
				for _, d := range multi[:5] {
					c12Run(c, c12Case{Pieces: []c12Piece{{Frame: a}, {Frame: b}, {Frame: d}, {Frame: "list"}}, Note: "three large requests on one connection"}, false)
					n++
				}
			}
		}
	}
	// an add-hardware-certificate request between two large requests on one connection, then a listing and a signature with
	// that certificate: what the server keeps of the request (the parsed certificate goes into the shim's table) must not
	// live in a per-connection buffer that the next request overwrites
	{
		bigs := []string{"", "sign-k1-body5000", "sign-k1-body6000", "lock-pass6000+unlock", "sign-cert", "sign-k1-body65536", "add-ed25519-comment1MiB"}
		for _, a := range bigs {
			for _, hc := range []string{"hardcert-new-held-key", "hardcert-legacy-held-key", "hardcert-new-utf8-comment"} {
				for _, b := range bigs {
					var ps []c12Piece
					for _, nm := range []string{a, hc, b} {
						switch nm {
						case "":
						case "lock-pass6000+unlock":
							ps = append(ps, c12Piece{Frame: "lock-pass6000"}, c12Piece{Frame: "unlock-pass6000"})
						default:
							ps = append(ps, c12Piece{Frame: nm})
						}
					}
					ps = append(ps, c12Piece{Frame: "list"}, c12Piece{Frame: "sign-h1"}, c12Piece{Frame: "list"})
					c12Run(c, c12Case{Pieces: ps, Note: "hardware certificate added between large requests"}, false)
					n++
				}
			}
		}
	}
	// truncation ladder: every large frame cut inside its body at powers of two and their neighbours (chunked readers),
	// alone and after a complete request
	for _, f := range gf {
		if len(f.Body) < 64<<10 || len(f.Body) > 1<<20 {
			continue
		}
		full := vnet.Frame(f.Body)
		cuts := map[int]bool{4: true, 5: true, len(full) - 1: true, 4 + len(f.Body)/2: true}
		for p := 4096; p < len(f.Body); p *= 2 {
			for _, d := range []int{-1, 0, 1} {
				cuts[4+p+d] = true // body offset p+d
				cuts[p+d] = true   // stream offset p+d
			}
		}
		for cut := range cuts {
			if cut <= 0 || cut >= len(full) {
				continue
			}
			raw := hex.EncodeToString(full[:cut])
			c12Run(c, c12Case{Pieces: []c12Piece{{Raw: raw}}, Note: fmt.Sprintf("%s cut after %d of %d stream bytes", f.Name, cut, len(full))}, true)
			c12Run(c, c12Case{Pieces: []c12Piece{{Frame: "list"}, {Raw: raw}}, Note: fmt.Sprintf("list, then %s cut after %d stream bytes", f.Name, cut)}, false)
			n += 2
		}
	}
	// large well-formed requests inside a stream: answered once, later responses stay in order
	for _, f := range gf {
		if len(f.Body) >= 64<<10 {
			c12Run(c, c12Case{Pieces: []c12Piece{{Frame: "list"}, {Frame: f.Name}, {Frame: "sign-k1"}, {Frame: "list"}}, Note: "large request between small ones"}, false)
			n++
		}
	}
	// prefix pathologies
	for _, pre := range []string{"00", "0000", "000000"} {
		c12Run(c, c12Case{Pieces: []c12Piece{{Raw: pre}}, Note: "truncated prefix"}, true)
		c12Run(c, c12Case{Pieces: []c12Piece{{Frame: "list"}, {Raw: pre}}, Note: "truncated prefix after a frame"}, true)
	}
	for _, decl := range []uint32{1, 2, 16 << 20, 16<<20 + 1, 1 << 31, 1<<32 - 1} {
		for _, have := range []int{0, 1, -1} {
			var l [4]byte
			binary.BigEndian.PutUint32(l[:], decl)
			body := []byte{}
			switch have {
			case 1:
				body = []byte{11}
			case -1:
				if decl > 2 {
					continue
				}
				body = bytes.Repeat([]byte{11}, int(decl))
			}
			c12Run(c, c12Case{Pieces: []c12Piece{{Raw: hex.EncodeToString(append(l[:], body...)), Declared: decl}}, Note: fmt.Sprintf("declared %d, %d body bytes", decl, len(body))}, true)
			c12Run(c, c12Case{Pieces: []c12Piece{{Frame: "sign-k1"}, {Raw: hex.EncodeToString(append(l[:], body...)), Declared: decl}}, Note: "after a frame"}, true)
			n += 2
		}
	}
	c.Sample(c12Case{Pieces: []c12Piece{{Raw: "01000001", Declared: 16<<20 + 1}}, Note: "declared 16MiB+1, no body"})
	// pairs over a representative set
	rep := []string{"list", "sign-k1", "remove-k1", "add-ed25519-lifetime", "add-rsa", "lock", "unlock-when-unlocked", "remove-all", "hardcert-new-held-key", "hardcert-legacy-held-key",
		"hardcert-new-absent-key", "list-slots", "read-slot-\"9a\"", "attest-slot-\"\"", "wait-40", "wait-255", "raw-201-len1", "raw-27-len17", "smartcard-add", "list-v1", "sign-absent", "add-cert",
		"hardcert-code-only", "hardcert-garbage", "hardcert-new-trailing", "wait-code-only", "sign-truncated@5/" + fmt.Sprint(len(c12Frames["sign-k1"].Body)), "remove-truncated", "lock-truncated",
		"add-constrained-unknown-constraint", "add-constrained-confirm-then-truncated-lifetime", "list-trailing"}
	var repOK []string
	for _, r := range rep {
		if _, ok := c12Frames[r]; ok {
			repOK = append(repOK, r)
		} else {
			c.Violation("C12:harness:unknown-frame", r, nil)
		}
	}
	extra := []c12Piece{{Raw: "00000000"}, {Body: "ff"}, {Body: "00"}, {Raw: "01000001"}, {Raw: "0000"}}
	var pieces []c12Piece
	for _, r := range repOK {
		pieces = append(pieces, c12Piece{Frame: r})
	}
	pieces = append(pieces, extra...)
	c.Set("representative_set", len(pieces))
	for _, a := range pieces {
		for _, b := range pieces {
			c12Run(c, c12Case{Pieces: []c12Piece{a, b}, Note: "pair"}, false)
			n++
		}
	}
	c.Sample(c12Case{Pieces: []c12Piece{{Frame: "lock"}, {Frame: "list"}}, Note: "pair"})
	sub := pieces
	if !c.Thorough() && len(sub) > 20 {
		sub = append(append([]c12Piece{}, pieces[:12]...), pieces[len(pieces)-8:]...)
	}
	for _, a := range sub {
		for _, b := range sub {
			for _, d := range sub {
				if c.Expired("triples") {
					break
				}
				c12Run(c, c12Case{Pieces: []c12Piece{a, b, d}, Note: "triple"}, false)
				n++
			}
		}
	}
	if c.Thorough() {
		q := append(append([]c12Piece{}, pieces[:8]...), pieces[len(pieces)-6:]...)
		for _, a := range q {
			for _, b := range q {
				for _, d := range q {
					for _, e := range q {
						if c.Expired("quadruples") {
							break
						}
						c12Run(c, c12Case{Pieces: []c12Piece{a, b, d, e}, Note: "quadruple"}, false)
						n++
					}
				}
			}
		}
	}
	// two connections, one after the other, on the same server: the earlier one ends in every way a connection can end
	for _, before := range [][]c12Piece{{{Frame: "hardcert-new-held-key"}}, {{Frame: "hardcert-code-only"}}, {{Frame: "wait-code-only"}}, {{Raw: "00000000"}}, {{Raw: "01000001"}}, {{Frame: "list"}, {Raw: "0000"}},
		{{Frame: "add-constrained-confirm-then-truncated-lifetime"}}, {{Frame: "hardcert-new-utf8-comment"}, {Frame: "sign-truncated@5/" + fmt.Sprint(len(c12Frames["sign-k1"].Body))}}} {
		for _, a := range pieces {
			c12Run(c, c12Case{Before: before, Pieces: []c12Piece{a}, Note: "second connection"}, false)
			c12Run(c, c12Case{Before: before, Pieces: []c12Piece{{Frame: "list"}, a, {Frame: "sign-k1"}}, Note: "second connection"}, false)
			n += 2
		}
	}
	// the underlying agent fails during a request: the connection may end there, but only with an error
	for _, kind := range []string{"close", "failure", "oversized", "empty"} {
		for _, st := range [][]string{{"raw-201-len1", "list"}, {"list", "raw-201-len1", "list"}, {"list", "sign-k1", "list"}, {"hardcert-new-held-key", "list"}} {
			for idx := 0; idx < len(st); idx++ {
				var ps []c12Piece
				for _, f := range st {
					ps = append(ps, c12Piece{Frame: f})
				}
				c12Run(c, c12Case{Pieces: ps, Note: "underlying agent fault", UAFault: map[string]string{fmt.Sprint(idx): kind}}, false)
				n++
			}
		}
	}
	c.Set("streams", n)
}
