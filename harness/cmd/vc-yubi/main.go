//go:build verif

// vc-yubi: checks C12 (agent server over arbitrary byte streams) and C13 (client/server operation fidelity).
package main

import (
	"os"

	"github.com/theparanoids/ysshra/internal/zzverif/ev"
)

func main() {
	c := ev.Main(map[string]string{"C12": "exploration", "C13": "exploration"})
	switch c.Prop {
	case "C12":
		checkC12(c)
	case "C13":
		checkC13(c)
	}
	os.Exit(c.Finish())
}
