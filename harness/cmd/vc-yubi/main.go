//go:build verif

// vc-yubi: checks C12 (agent server over arbitrary byte streams) and C13 (client/server operation fidelity).
package main

import (
	"os"

	"github.com/theparanoids/ysshra/internal/zzverif/ev"
)

func main() {
	c := ev.Main(map[string]string{"C12": "exploration", "C13": "exploration"})
	switch c.Prop {
	// both run in one child process each (ev.Isolated): an unrecoverable crash of the code under test is a violation
	case "C12":
		c.Isolated(func() { checkC12(c) })
	case "C13":
		c.Isolated(func() { checkC13(c) })
	}
	os.Exit(c.Finish())
}
