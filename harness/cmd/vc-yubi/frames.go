//go:build verif

package main

import (
	"bytes"
	"crypto/sha256"
	"fmt"
	"math"
	"sync/atomic"

	"golang.org/x/crypto/ssh"
	"golang.org/x/crypto/ssh/agent"

	"github.com/theparanoids/ysshra/agent/yubiagent"
	"github.com/theparanoids/ysshra/internal/zzverif/fix"
	"github.com/theparanoids/ysshra/internal/zzverif/uagent"
	"github.com/theparanoids/ysshra/keyid"
)

// capture records the request frame an x/crypto agent client writes and answers SSH_AGENT_FAILURE.
type capture struct {
	req  []byte
	resp []byte
}

func (c *capture) Write(p []byte) (int, error) { c.req = append(c.req, p...); return len(p), nil }
func (c *capture) Read(p []byte) (int, error) {
	if len(c.resp) == 0 {
		c.resp = []byte{0, 0, 0, 1, 5}
	}
	n := copy(p, c.resp)
	c.resp = c.resp[n:]
	return n, nil
}

// canon returns the canonical wire frame (without length prefix) of one standard agent client call.
func canon(call func(a agent.ExtendedAgent)) []byte {
	cp := &capture{}
	call(agent.NewClient(cp))
	return append([]byte{}, cp.req[4:]...)
}

var (
	fK1    = fix.Ed(0)
	fK2    = fix.EC(256)
	fKrsa  = fix.RSA(2048)
	fK3    = fix.Ed(1)
	hwKeyY = func() string {
		k := keyid.KeyID{Principals: []string{"alice"}, TransID: "aa11bb22cc", ReqUser: "alice", ReqIP: "1.2.3.4", ReqHost: "h", IsHWKey: true, TouchPolicy: keyid.CachedTouch, Version: 1}
		s, _ := k.Marshal()
		return s
	}()
	certH1  = fix.SSHCert(fix.Pub(fK1), hwKeyY, 0, math.MaxUint64, nil, "alice")
	certH3  = fix.SSHCert(fix.Pub(fK3), hwKeyY, 0, math.MaxUint64, nil, "alice")
	certCur = fix.SSHCert(fix.Pub(fK1), "plain id", 0, math.MaxUint64, nil, "alice")
)

var worldSeq atomic.Int64

// yworld: real yubiagent server (remote mode) over a real shim over the harness underlying agent.
type yworld struct {
	ua   *uagent.Agent
	srv  yubiagent.YubiAgent
	addr string
}

func rawEcho(frame []byte) ([]byte, bool) {
	if len(frame) == 0 {
		return []byte{5}, true
	}
	if frame[0] >= 0xc8 || frame[0] == 27 {
		h := sha256.Sum256(frame)
		return append([]byte{0xee}, h[:]...), true
	}
	return nil, false
}

func newYWorld(remote bool) (*yworld, error) {
	w := &yworld{ua: uagent.New()}
	w.ua.Raw = rawEcho
	w.ua.Ring.Add(agent.AddedKey{PrivateKey: fK1, Comment: "k1"})
	w.ua.Ring.Add(agent.AddedKey{PrivateKey: fK1, Certificate: certCur, Comment: "cur"})
	w.addr = fmt.Sprintf("/verif/yubi-ua-%d", worldSeq.Add(1))
	w.ua.Listen(w.addr)
	var err error
	w.srv, err = yubiagent.NewServer(w.addr, remote)
	return w, err
}

func str(b []byte) []byte {
	out := []byte{byte(len(b) >> 24), byte(len(b) >> 16), byte(len(b) >> 8), byte(len(b))}
	return append(out, b...)
}

func cat(parts ...[]byte) []byte { return bytes.Join(parts, nil) }

type frameSpec struct {
	Name  string
	Body  []byte
	WF    bool                     // well-formed: complete canonical encoding of its code
	Check func(resp []byte) string // precise expectation for a single-frame stream on a fresh world ("" = ok)
	Type  func(resp []byte) bool   // type-level expectation valid in any state
}

func firstByte(want ...byte) func([]byte) bool {
	return func(r []byte) bool {
		if len(r) == 0 {
			return false
		}
		for _, w := range want {
			if r[0] == w {
				return true
			}
		}
		return false
	}
}

func wantFirst(b byte) func([]byte) string {
	return func(r []byte) string {
		if len(r) == 0 || r[0] != b {
			return fmt.Sprintf("response %x…, want type byte %d", r[:min(len(r), 8)], b)
		}
		return ""
	}
}

func wantText(s string) func([]byte) string {
	return func(r []byte) string {
		if string(r) != s {
			return fmt.Sprintf("response %q, want %q", r[:min(len(r), 40)], s)
		}
		return ""
	}
}

func wantNotText(s string) func([]byte) string {
	return func(r []byte) string {
		if string(r) == s || len(r) == 0 {
			return fmt.Sprintf("response %q, want an error text", r)
		}
		return ""
	}
}

func wantEcho(frame []byte) func([]byte) string {
	return func(r []byte) string {
		w, _ := rawEcho(frame)
		if !bytes.Equal(r, w) {
			return "response is not the underlying agent's byte-exact reply"
		}
		return ""
	}
}

func wantSlotErr(r []byte) string {
	var m struct {
		A []byte
		E string
	}
	var l struct {
		S []string
		E string
	}
	if ssh.Unmarshal(r, &m) == nil && m.E != "" {
		return ""
	}
	if ssh.Unmarshal(r, &l) == nil && l.E != "" {
		return ""
	}
	return fmt.Sprintf("response %x… is not a slot response carrying the remote-mode refusal", r[:min(len(r), 12)])
}

// grammarFrames: canonical (well-formed) and body-malformed frames derived from the wire grammars.
func grammarFrames() []frameSpec {
	k1 := fix.Pub(fK1)
	var fs []frameSpec
	add := func(name string, body []byte, wf bool, check func([]byte) string, typ func([]byte) bool) {
		fs = append(fs, frameSpec{name, body, wf, check, typ})
	}
	anyT := func([]byte) bool { return true }
	// standard requests, canonical encodings produced by x/crypto's own client
	add("list", []byte{11}, true, wantFirst(12), firstByte(12))
	add("list-v1", []byte{1}, true, wantFirst(2), firstByte(2))
	add("remove-all", []byte{19}, true, wantFirst(6), firstByte(5, 6))
	add("lock", canon(func(a agent.ExtendedAgent) { a.Lock([]byte("pw")) }), true, wantFirst(6), firstByte(5, 6))
	add("unlock-when-unlocked", canon(func(a agent.ExtendedAgent) { a.Unlock([]byte("pw")) }), true, wantFirst(5), firstByte(5, 6))
	add("sign-k1", canon(func(a agent.ExtendedAgent) { a.Sign(k1, []byte("data")) }), true, wantFirst(14), firstByte(5, 14))
	add("sign-k1-flags", canon(func(a agent.ExtendedAgent) { a.SignWithFlags(fix.Pub(fKrsa), []byte("data"), agent.SignatureFlagRsaSha256) }), true, wantFirst(5), firstByte(5, 14))
	add("sign-cert", canon(func(a agent.ExtendedAgent) { a.Sign(certCur, bytes.Repeat([]byte{7}, 4096)) }), true, wantFirst(14), firstByte(5, 14))
	add("sign-absent", canon(func(a agent.ExtendedAgent) { a.Sign(fix.Pub(fK3), []byte("data")) }), true, wantFirst(5), firstByte(5, 14))
	add("remove-k1", canon(func(a agent.ExtendedAgent) { a.Remove(k1) }), true, wantFirst(6), firstByte(5, 6))
	add("remove-absent", canon(func(a agent.ExtendedAgent) { a.Remove(fix.Pub(fK3)) }), true, wantFirst(5), firstByte(5, 6))
	for _, kk := range []struct {
		n string
		p any
	}{{"ed25519", fK3}, {"ecdsa", fK2}, {"rsa", fKrsa}} {
		kk := kk
		add("add-"+kk.n, canon(func(a agent.ExtendedAgent) { a.Add(agent.AddedKey{PrivateKey: kk.p, Comment: "c"}) }), true, wantFirst(6), firstByte(5, 6))
		add("add-"+kk.n+"-lifetime", canon(func(a agent.ExtendedAgent) { a.Add(agent.AddedKey{PrivateKey: kk.p, Comment: "c", LifetimeSecs: 60}) }), true, wantFirst(6), firstByte(5, 6))
		add("add-"+kk.n+"-confirm", canon(func(a agent.ExtendedAgent) {
			a.Add(agent.AddedKey{PrivateKey: kk.p, Comment: "c", LifetimeSecs: 60, ConfirmBeforeUse: true})
		}), true, wantFirst(6), firstByte(5, 6))
	}
	add("add-cert", canon(func(a agent.ExtendedAgent) { a.Add(agent.AddedKey{PrivateKey: fK1, Certificate: certH1, Comment: "c", LifetimeSecs: 9}) }), true, wantFirst(6), firstByte(5, 6))
	// body-malformed variants of the standard requests: truncated at every field boundary
	base := canon(func(a agent.ExtendedAgent) { a.Add(agent.AddedKey{PrivateKey: fK3, Comment: "c", LifetimeSecs: 60}) })
	for _, cut := range []int{1, 5, 9, 16, len(base) - 6, len(base) - 5, len(base) - 4, len(base) - 3, len(base) - 1} {
		if cut > 0 && cut < len(base) {
			add(fmt.Sprintf("add-constrained-truncated@%d/%d", cut, len(base)), base[:cut], false, nil, anyT)
		}
	}
	add("add-constrained-unknown-constraint", append(append([]byte{}, base[:len(base)-5]...), 0x7f), false, nil, anyT)
	add("add-constrained-confirm-then-truncated-lifetime", append(append([]byte{}, base[:len(base)-5]...), 2, 1, 0), false, nil, anyT)
	sgn := canon(func(a agent.ExtendedAgent) { a.Sign(k1, []byte("data")) })
	for _, cut := range []int{1, 3, 5, len(sgn) - 9, len(sgn) - 4, len(sgn) - 1} {
		if cut > 0 && cut < len(sgn) {
			add(fmt.Sprintf("sign-truncated@%d/%d", cut, len(sgn)), sgn[:cut], false, nil, anyT)
		}
	}
	add("remove-truncated", []byte{18, 0, 0, 0, 9, 1}, false, nil, anyT)
	add("lock-truncated", []byte{22, 0, 0}, false, nil, anyT)
	add("list-trailing", []byte{11, 1, 2, 3}, false, nil, anyT)
	// add-hardware-certificate, both encodings
	newEnc := func(blob []byte, comment string) []byte { return cat([]byte{31}, str(blob), str([]byte(comment))) }
	add("hardcert-new-held-key", newEnc(certH1.Marshal(), "hw"), true, wantText("SUCCESS"), anyT)
	add("hardcert-new-absent-key", newEnc(certH3.Marshal(), ""), true, wantNotText("SUCCESS"), anyT)
	add("hardcert-new-plain-key", newEnc(k1.Marshal(), "x"), true, wantNotText("SUCCESS"), anyT)
	add("hardcert-legacy-held-key", cat([]byte{31}, certH1.Marshal()), true, wantText("SUCCESS"), anyT)
	add("hardcert-legacy-plain-key", cat([]byte{31}, k1.Marshal()), true, wantNotText("SUCCESS"), anyT)
	add("hardcert-new-utf8-comment", newEnc(certH1.Marshal(), "ü 日本 \x00"), true, wantText("SUCCESS"), anyT)
	// a refused add-hardware-certificate request whose comment is 5 MiB of unprintable bytes (a frame well under the
	// 16 MiB limit): whatever the refusal says, it is ONE response frame
	add("hardcert-new-absent-key-comment5MiB-nul", newEnc(certH3.Marshal(), string(bytes.Repeat([]byte{0}, 5<<20))), true, wantNotText("SUCCESS"), anyT)
	add("hardcert-new-absent-key-comment5MiB-ff", newEnc(certH3.Marshal(), string(bytes.Repeat([]byte{0xff}, 5<<20))), true, wantNotText("SUCCESS"), anyT)
	add("hardcert-new-held-key-comment5MiB-nul", newEnc(certH1.Marshal(), string(bytes.Repeat([]byte{0}, 5<<20))), true, wantText("SUCCESS"), anyT)
	add("hardcert-code-only", []byte{31}, false, nil, anyT)
	add("hardcert-truncated-blob", newEnc(certH1.Marshal(), "hw")[:40], false, nil, anyT)
	add("hardcert-new-trailing", append(newEnc(certH1.Marshal(), "hw"), 1, 2), false, nil, anyT)
	add("hardcert-legacy-trailing", cat([]byte{31}, certH1.Marshal(), []byte{0}), false, nil, anyT)
	add("hardcert-garbage", cat([]byte{31}, []byte("not a key blob at all")), false, nil, anyT)
	add("hardcert-new-garbage-blob", newEnc([]byte("garbage"), "c"), false, nil, anyT)
	// slots (remote mode refuses), names
	add("list-slots", []byte{32}, true, wantSlotErr, anyT)
	for _, s := range []string{"", "9a", string(bytes.Repeat([]byte("s"), 64)), "\xff\xfe"} {
		add(fmt.Sprintf("read-slot-%q", s[:min(len(s), 4)]), cat([]byte{33}, []byte(s)), true, wantSlotErr, anyT)
		add(fmt.Sprintf("attest-slot-%q", s[:min(len(s), 4)]), cat([]byte{34}, []byte(s)), true, wantSlotErr, anyT)
	}
	// wait on codes outside the table (codes below 40 block by design and belong to C20)
	add("wait-40", []byte{35, 40}, true, wantText("SUCCESS"), anyT)
	add("wait-255", []byte{35, 255}, true, wantText("SUCCESS"), anyT)
	add("wait-40-trailing", []byte{35, 40, 0, 0, 0}, false, nil, anyT)
	add("wait-code-only", []byte{35}, false, nil, anyT)
	// raw-forward path
	for _, b := range [][]byte{{0xc9}, cat([]byte{0xca}, bytes.Repeat([]byte{1}, 1000)), cat([]byte{27}, str([]byte("ext@x")), []byte("payload"))} {
		b := b
		add(fmt.Sprintf("raw-%d-len%d", b[0], len(b)), b, true, wantEcho(b), anyT)
	}
	// size ladder: complete, well-formed requests whose frame body is large but within the 16 MiB limit (sign request with
	// long data, raw-forwarded request, add-identity with a long comment)
	{
		probe := canon(func(a agent.ExtendedAgent) { a.Sign(k1, nil) })
		for _, L := range []int{64 << 10, 256 << 10, 256<<10 + 1, 1 << 20, 4 << 20, 16 << 20} {
			L := L
			data := bytes.Repeat([]byte{0xa5}, L-len(probe))
			body := canon(func(a agent.ExtendedAgent) { a.Sign(k1, data) })
			if len(body) != L {
				panic(fmt.Sprintf("harness: sign frame of %d bytes, wanted %d", len(body), L))
			}
			add(fmt.Sprintf("sign-k1-body%d", L), body, true, wantFirst(14), firstByte(5, 14))
		}
		for _, L := range []int{256<<10 + 1, 16 << 20} {
			b := cat([]byte{0xcb}, bytes.Repeat([]byte{2}, L-1))
			add(fmt.Sprintf("raw-203-len%d", L), b, true, wantEcho(b), anyT)
		}
		// medium frames for sequences of several large requests on one connection (growing, equal, shrinking sizes)
		for _, L := range []int{5000, 6000} {
			L := L
			data := bytes.Repeat([]byte{0xa5}, L-len(probe))
			add(fmt.Sprintf("sign-k1-body%d", L), canon(func(a agent.ExtendedAgent) { a.Sign(k1, data) }), true, wantFirst(14), firstByte(5, 14))
		}
		add("lock-pass6000", canon(func(a agent.ExtendedAgent) { a.Lock(bytes.Repeat([]byte("p"), 6000)) }), true, wantFirst(6), firstByte(5, 6))
		add("unlock-pass6000", canon(func(a agent.ExtendedAgent) { a.Unlock(bytes.Repeat([]byte("p"), 6000)) }), true, wantFirst(5), firstByte(5, 6)) // alone: nothing is locked, refused
		// a signature with the hardware certificate certH1 (held in memory once an add-hardware-certificate request was
		// accepted): in a sequence after such a request on an unlocked agent the answer is a signature
		add("sign-h1", canon(func(a agent.ExtendedAgent) { a.Sign(certH1, []byte("signed with the hardware certificate")) }), true, wantFirst(5), firstByte(5, 14))
		// a passphrase whose tail is itself two well-formed list frames (stale bytes replayed as requests would be answered)
		add("unlock-wrong-pass7000-embedded-frames", canon(func(a agent.ExtendedAgent) {
			a.Unlock(append(bytes.Repeat([]byte("q"), 6990), 0, 0, 0, 1, 11, 0, 0, 0, 1, 11))
		}), true, wantFirst(5), firstByte(5, 6))
		add("add-ed25519-comment1MiB", canon(func(a agent.ExtendedAgent) {
			a.Add(agent.AddedKey{PrivateKey: fK3, Comment: string(bytes.Repeat([]byte("c"), 1<<20))})
		}), true, wantFirst(6), firstByte(5, 6))
	}
	add("smartcard-add", cat([]byte{20}, str([]byte("reader")), str([]byte("1234"))), true, wantFirst(5), firstByte(5, 6))
	add("smartcard-add-constrained", cat([]byte{26}, str([]byte("reader")), str([]byte("1234")), []byte{1, 0, 0, 0, 9}), true, wantFirst(5), firstByte(5, 6))
	add("smartcard-remove", cat([]byte{21}, str([]byte("reader")), str([]byte("1234"))), true, wantFirst(5), firstByte(5, 6))
	return fs
}
