//go:build verif

package main

import (
	"crypto/x509"
	"errors"
	"time"

	"golang.org/x/crypto/ssh"
	"golang.org/x/crypto/ssh/agent"
)

// call is one recorded invocation on the served agent.
type call struct {
	Op      string
	KeyBlob []byte
	Data    []byte
	Flags   agent.SignatureFlags
	Added   *agent.AddedKey
	Pass    []byte
	Comment string
	Raw     []byte
	Code    byte
	Slot    string
	KeyObj  ssh.PublicKey // the very object the served agent was handed (it may keep it, as the shim agent does)
}

// stubAgent is a recording yubiagent.YubiAgent whose results are scripted per call.
type stubAgent struct {
	Calls []call
	// scripted results
	Keys    []*agent.Key
	Sig     *ssh.Signature
	Err     error
	RawResp []byte
	Slots   []string
	Cert    *x509.Certificate
}

func (s *stubAgent) rec(c call) { s.Calls = append(s.Calls, c) }

func (s *stubAgent) List() ([]*agent.Key, error) { s.rec(call{Op: "List"}); return s.Keys, s.Err }
func (s *stubAgent) Sign(key ssh.PublicKey, data []byte) (*ssh.Signature, error) {
	s.rec(call{Op: "Sign", KeyBlob: key.Marshal(), Data: append([]byte{}, data...)})
	return s.Sig, s.Err
}
func (s *stubAgent) SignWithFlags(key ssh.PublicKey, data []byte, flags agent.SignatureFlags) (*ssh.Signature, error) {
	s.rec(call{Op: "Sign", KeyBlob: key.Marshal(), Data: append([]byte{}, data...), Flags: flags})
	return s.Sig, s.Err
}
func (s *stubAgent) Add(key agent.AddedKey) error {
	k := key
	s.rec(call{Op: "Add", Added: &k})
	return s.Err
}
func (s *stubAgent) Remove(key ssh.PublicKey) error {
	s.rec(call{Op: "Remove", KeyBlob: key.Marshal()})
	return s.Err
}
func (s *stubAgent) RemoveAll() error        { s.rec(call{Op: "RemoveAll"}); return s.Err }
func (s *stubAgent) Lock(p []byte) error     { s.rec(call{Op: "Lock", Pass: append([]byte{}, p...)}); return s.Err }
func (s *stubAgent) Unlock(p []byte) error   { s.rec(call{Op: "Unlock", Pass: append([]byte{}, p...)}); return s.Err }
func (s *stubAgent) Signers() ([]ssh.Signer, error) { s.rec(call{Op: "Signers"}); return nil, errors.New("stub: Signers is not served over the wire") }
func (s *stubAgent) Extension(t string, c []byte) ([]byte, error) {
	s.rec(call{Op: "Extension", Comment: t, Data: append([]byte{}, c...)})
	return s.RawResp, s.Err
}
func (s *stubAgent) Forward(req []byte) ([]byte, error) {
	s.rec(call{Op: "Forward", Raw: append([]byte{}, req...)})
	return s.RawResp, s.Err
}
func (s *stubAgent) AddHardCert(key ssh.PublicKey, comment string) error {
	s.rec(call{Op: "AddHardCert", KeyBlob: append([]byte{}, key.Marshal()...), Comment: comment, KeyObj: key})
	return s.Err
}
func (s *stubAgent) Wait(code byte) error { s.rec(call{Op: "Wait", Code: code}); return s.Err }
func (s *stubAgent) Close() error         { s.rec(call{Op: "Close"}); return nil }
func (s *stubAgent) ListSlots() ([]string, error) { s.rec(call{Op: "ListSlots"}); return s.Slots, s.Err }
func (s *stubAgent) ReadSlot(slot string) (*x509.Certificate, error) {
	s.rec(call{Op: "ReadSlot", Slot: slot})
	return s.Cert, s.Err
}
func (s *stubAgent) AttestSlot(slot string) (*x509.Certificate, error) {
	s.rec(call{Op: "AttestSlot", Slot: slot})
	return s.Cert, s.Err
}
func (s *stubAgent) AddSmartcardKey(id string, pin []byte, lifetime time.Duration, confirm bool) error {
	s.rec(call{Op: "AddSmartcardKey"})
	return s.Err
}
func (s *stubAgent) RemoveSmartcardKey(id string, pin []byte) error {
	s.rec(call{Op: "RemoveSmartcardKey"})
	return s.Err
}
