//go:build verif

package main

import (
	"bytes"
	"encoding/binary"
	"encoding/json"
	"fmt"
	"github.com/theparanoids/crypki/proto"
	"github.com/theparanoids/ysshra/csr"
	"io"
	"os"
	"path/filepath"
	"sort"
	"strings"
	"time"

	"golang.org/x/crypto/ssh"
	"golang.org/x/crypto/ssh/agent"

	"github.com/theparanoids/ysshra/agent/shimagent"
	"github.com/theparanoids/ysshra/config"
	"github.com/theparanoids/ysshra/gensign"
	"github.com/theparanoids/ysshra/gensign/regular"
	"github.com/theparanoids/ysshra/internal/zzverif/bfs"
	"github.com/theparanoids/ysshra/internal/zzverif/ev"
	"github.com/theparanoids/ysshra/internal/zzverif/fix"
	"github.com/theparanoids/ysshra/internal/zzverif/uagent"
	"github.com/theparanoids/ysshra/zzverifrt/vnet"
	"github.com/theparanoids/ysshra/zzverifrt/vtime"
)

// oneShot is the transport of a single request: ServeAgent reads the frame, writes the reply and sees end of stream.
type oneShot struct {
	in  *bytes.Reader
	out bytes.Buffer
}

func (o *oneShot) Read(p []byte) (int, error)  { return o.in.Read(p) }
func (o *oneShot) Write(p []byte) (int, error) { return o.out.Write(p) }

// serveThrough makes a synchronous reactor peer out of an agent: every request frame is served by x/crypto's agent server.
func serveThrough(ag agent.Agent) func(frame []byte) vnet.Reply {
	return func(frame []byte) vnet.Reply {
		buf := make([]byte, 4+len(frame))
		binary.BigEndian.PutUint32(buf, uint32(len(frame)))
		copy(buf[4:], frame)
		o := &oneShot{in: bytes.NewReader(buf)}
		if err := agent.ServeAgent(ag, o); err != nil && err != io.EOF {
			return vnet.Reply{Raw: o.out.Bytes(), Close: true}
		}
		return vnet.Reply{Raw: o.out.Bytes()}
	}
}

var c03Seq int

const c03Label = "paranoids.regular"

// foreign / near-miss identities that a run must never remove or alter
var c03Foreign = []struct {
	name, comment string
	cert          bool
}{
	{"plainkey", "user key", false},
	{"foreigncert", "corp-cert", true},
	{"nearmiss-case", "Paranoids.Regular-cert", true},
	{"nearmiss-trunc", "paranoids.regula", true},
	{"nearmiss-underscore", "paranoids_regular-cert", true},
}

type c03World struct {
	e        *genv
	runs     int
	genOf    map[string]int // blob -> run number that provisioned it
	foreign  map[string]string
	thorough bool
	label    string // handler option key_label ("" = not configured)
	shim     bool   // the requester's agent is the project's own shim agent in front of the key store
	addr     string
	multi    bool // the handler's agent key carries two CSRs (csr.AgentKey.CSRs is a list; e.g. one per CA key algorithm)
	c        *ev.Ctx
}

// multiHandler is the real regular handler whose agent keys ask for two certificates each: the same request twice,
// the second under another key id. Authentication, key generation and AddCertsToAgent are the real handler's.
type multiHandler struct{ gensign.Handler }

type multiKey struct {
	csr.AgentKey
	csrs []*proto.SSHCertificateSigningRequest
}

func (k *multiKey) CSRs() []*proto.SSHCertificateSigningRequest { return k.csrs }

func (h *multiHandler) Generate(p *csr.ReqParam) ([]csr.AgentKey, error) {
	keys, err := h.Handler.Generate(p)
	if err != nil {
		return keys, err
	}
	var out []csr.AgentKey
	for _, k := range keys {
		mk := &multiKey{AgentKey: k}
		for _, r := range k.CSRs() {
			mk.csrs = append(mk.csrs, r, &proto.SSHCertificateSigningRequest{KeyMeta: r.KeyMeta, Principals: r.Principals, PublicKey: r.PublicKey,
				Validity: r.Validity, KeyId: r.KeyId + " (second CA key)", CriticalOptions: r.CriticalOptions, Extensions: r.Extensions, Priority: r.Priority})
		}
		out = append(out, mk)
	}
	return out, nil
}

func newC03World(c *ev.Ctx, root string) bfs.World {
	x := &c03World{genOf: map[string]int{}, foreign: map[string]string{}, thorough: c.Thorough(), c: c}
	if strings.HasSuffix(root, "/shim") {
		x.shim, root = true, strings.TrimSuffix(root, "/shim")
	}
	if strings.HasSuffix(root, "/multi") {
		x.multi, root = true, strings.TrimSuffix(root, "/multi")
	}
	if i := strings.Index(root, "/label="); i >= 0 {
		x.label, root = root[i+len("/label="):], root[:i]
	}
	x.e = newEnv(envOpt{KeyDir: "pub", LogName: "alice", Validity: 43200, KeyIDs: map[string]string{"default": "slot"}, Behaviour: "honest", AgentHasKey: true})
	// the same person also has the account "bob" on the server, with the same key registered
	if line, err := os.ReadFile(filepath.Join(x.e.dir, "alice.pub")); err == nil {
		os.WriteFile(filepath.Join(x.e.dir, "bob.pub"), line, 0o644)
	}
	var mask int
	fmt.Sscanf(root, "%d", &mask)
	for i, f := range c03Foreign {
		if mask&(1<<i) == 0 {
			continue
		}
		k := agentAddedKey{PrivateKey: fix.Ed(i % 2), Comment: f.comment}
		if i == 0 {
			k.PrivateKey = fix.EC(256)
		}
		if f.cert {
			k.Certificate = fix.SSHCert(fix.Pub(fix.Ed(i%2)), "foreign "+f.name, 0, 1<<40, nil, "alice")
		}
		x.e.ua.Ring.Add(k)
	}
	for _, id := range x.e.ua.Ring.Keys {
		x.foreign[string(id.Blob)] = id.Comment
	}
	if x.shim {
		c03Seq++
		x.addr = fmt.Sprintf("/verif/c03-ua-%d", c03Seq)
		x.e.ua.Listen(x.addr)
		vtime.Set(time.Unix(int64(x.e.ca.ValidAt), 0))
		sh, err := shimagent.New(shimagent.Option{Address: x.addr})
		if err != nil {
			panic("c03: shimagent.New over a healthy agent: " + err.Error())
		}
		x.e.conn = &vnet.Reactor{Handler: serveThrough(sh), Name: "forwarded-shim-agent"}
	}
	return x
}

func (x *c03World) Init() []bfs.Finding { return nil }
func (x *c03World) Close() {
	if x.shim {
		vnet.Unregister(x.addr)
	}
	x.e.close()
}

func (x *c03World) Key() string {
	var s []string
	if x.shim {
		s = append(s, "~shim")
	}
	if x.label != "" {
		s = append(s, "~label="+x.label)
	}
	for _, id := range x.e.ua.Ring.Keys {
		if _, f := x.foreign[string(id.Blob)]; f {
			s = append(s, "foreign:"+id.Comment)
			continue
		}
		age := x.runs - x.genOf[string(id.Blob)]
		pk, _ := ssh.ParsePublicKey(id.Blob)
		_, isCert := pk.(*ssh.Certificate)
		s = append(s, fmt.Sprintf("ra:cert=%v:age=%d:%s:life=%d", isCert, age, id.Comment, id.Lifetime))
	}
	sort.Strings(s)
	return strings.Join(s, "|")
}

func (x *c03World) Enabled() []bfs.Op {
	var ops []bfs.Op
	for _, k := range []string{"1", "2", "3"} {
		for _, cm := range []string{"none", "short-empty", "long"} {
			ops = append(ops, bfs.Op{Name: "ok", Arg: k + "/" + cm, Arg2: "43200"})
		}
	}
	ops = append(ops, bfs.Op{Name: "ok", Arg: "1/none", Arg2: "1"}, bfs.Op{Name: "ok", Arg: "2/short-empty", Arg2: "315360000"})
	// a successful run for ANOTHER login name of the same person against the same agent: still one generation
	ops = append(ops, bfs.Op{Name: "ok-bob"})
	// the CA answers successfully with nothing usable: no certificate at all, or plain public keys only
	ops = append(ops, bfs.Op{Name: "ok-empty"}, bfs.Op{Name: "ok-plainkeys"})
	// the CA grants less than requested to some certificates of one reply (every order of short and full validities)
	ops = append(ops, bfs.Op{Name: "ok", Arg: "2/none/short-first", Arg2: "43200"}, bfs.Op{Name: "ok", Arg: "2/none/short-last", Arg2: "43200"},
		bfs.Op{Name: "ok", Arg: "3/long/short-middle", Arg2: "315360000"}, bfs.Op{Name: "ok", Arg: "3/none/short-first", Arg2: "43200"})
	if x.multi {
		ops = append(ops, bfs.Op{Name: "fail-ca-second"}) // the CA signs the first request of the key and fails the second
	}
	if x.shim {
		// request indices at the key store differ behind the shim; agent faults under a shim are C10's subject
		return append(ops, bfs.Op{Name: "fail-auth"}, bfs.Op{Name: "fail-generate-noslot"}, bfs.Op{Name: "fail-ca"})
	}
	ops = append(ops, bfs.Op{Name: "fail-auth"}, bfs.Op{Name: "fail-generate-agent"}, bfs.Op{Name: "fail-generate-noslot"}, bfs.Op{Name: "fail-ca"},
		bfs.Op{Name: "fail-agent-list"}, bfs.Op{Name: "fail-agent-certadd"})
	if len(x.labelled()) > 0 {
		ops = append(ops, bfs.Op{Name: "fail-agent-remove"}) // the agent refuses the removal of an older generation
	}
	if x.thorough {
		ops = append(ops, bfs.Op{Name: "fail-agent-remove-close"}, bfs.Op{Name: "fail-ca-panic"}, bfs.Op{Name: "ok", Arg: "3/long", Arg2: "1"})
	}
	return ops
}

// labelled: the certificates this handler provisioned in earlier runs and that the agent still holds. They are
// recognised by provenance (the RA added them during a run), not by their comment: which comment the handler gives its
// certificates is its own business (a configurable label included), the generation rule is not.
func (x *c03World) labelled() map[string]bool {
	m := map[string]bool{}
	for _, id := range x.e.ua.Ring.Keys {
		if x.raCert(id.Blob) {
			m[string(id.Blob)] = true
		}
	}
	return m
}

func (x *c03World) raCert(blob []byte) bool {
	if _, f := x.foreign[string(blob)]; f {
		return false
	}
	if _, ok := x.genOf[string(blob)]; !ok {
		return false
	}
	pk, err := ssh.ParsePublicKey(blob)
	if err != nil {
		return false
	}
	_, isCert := pk.(*ssh.Certificate)
	return isCert
}

func (x *c03World) Apply(op bfs.Op) (fs []bfs.Finding) {
	add := func(key, desc string) { fs = append(fs, bfs.Finding{Key: "C03:" + key, Desc: desc}) }
	e := x.e
	x.runs++
	validity := uint64(43200)
	if op.Arg2 != "" {
		fmt.Sscanf(op.Arg2, "%d", &validity)
	}
	// a fresh handler per run (configuration = validity), same forwarded-agent connection
	keyIDs := map[string]any{"default": "slot"}
	if op.Name == "fail-generate-noslot" {
		keyIDs = map[string]any{"rsa": "slot"}
	}
	hconf := map[string]any{"pub_key_dir": e.dir, "cert_validity_sec": validity, "key_identifiers": keyIDs}
	if x.label != "" {
		hconf["key_label"] = x.label
	}
	js, _ := json.Marshal(map[string]any{"handlers": map[string]any{regular.HandlerName: hconf}})
	conf := new(config.GensignConfig)
	json.Unmarshal(js, conf)
	h, herr := regular.NewHandler(conf, e.conn)
	if herr != nil {
		add("harness:handler", herr.Error())
		return
	}
	e.ca.Script = map[int]string{}
	e.ca.NCerts, e.ca.Comments, e.ca.Granted = 1, nil, nil
	e.adv.Behaviour = "honest"
	e.ua.Plan = map[int]string{}
	base := len(e.ua.Log)
	nOld := len(x.labelled())
	switch op.Name {
	case "ok":
		p := strings.Split(op.Arg, "/")
		fmt.Sscanf(p[0], "%d", &e.ca.NCerts)
		switch p[1] {
		case "short-empty":
			e.ca.Comments = append([]string{""}, make([]string, 0)...)
			for i := 1; i < e.ca.NCerts-1; i++ {
				e.ca.Comments = append(e.ca.Comments, "c")
			}
		case "long":
			for i := 0; i < e.ca.NCerts+1; i++ {
				e.ca.Comments = append(e.ca.Comments, fmt.Sprintf("comment-%d", i))
			}
		}
		if len(p) > 2 {
			e.ca.Granted = make([]uint64, e.ca.NCerts)
			switch p[2] {
			case "short-first":
				e.ca.Granted[0] = 600
			case "short-last":
				e.ca.Granted[e.ca.NCerts-1] = 600
			case "short-middle":
				e.ca.Granted[1] = 600
			}
		}
	case "ok-empty":
		e.ca.Script[len(e.ca.Reqs)] = "empty"
	case "ok-plainkeys":
		e.ca.Script[len(e.ca.Reqs)] = "plainkeys"
	case "fail-auth":
		e.adv.Behaviour = "failure"
	case "fail-generate-agent":
		e.ua.Plan[base+1] = uagent.FaultFailure
	case "fail-ca":
		e.ca.Script[len(e.ca.Reqs)] = "err"
	case "fail-ca-second":
		e.ca.Script[len(e.ca.Reqs)+1] = "err"
	case "fail-ca-panic":
		e.ca.Script[len(e.ca.Reqs)] = "panic"
	case "fail-agent-list":
		e.ua.Plan[base+2] = uagent.FaultFailure
	case "fail-agent-remove":
		e.ua.Plan[base+3] = uagent.FaultFailure
	case "fail-agent-remove-close":
		e.ua.Plan[base+3] = uagent.FaultClose
	case "fail-agent-certadd":
		e.ua.Plan[base+3+nOld] = uagent.FaultFailure
	}
	labelledBefore := x.labelled()
	unlabelledBefore := map[string]string{} // every identity without the handler's label, incl. RA private keys of earlier runs
	for _, id := range e.ua.Ring.Keys {
		if !x.raCert(id.Blob) {
			unlabelledBefore[string(id.Blob)] = id.Comment
		}
	}
	addsBefore, caBefore := len(e.ua.Ring.AddLog), len(e.ca.Issued)
	var hh gensign.Handler = h
	if x.multi {
		hh = &multiHandler{Handler: h}
	}
	login := "alice"
	if op.Name == "ok-bob" {
		login = "bob"
	}
	err, esc := e.run(defaultParams(login), []gensign.Handler{hh})
	if esc != "" {
		add("panic-escaped:"+ev.PanicSite(esc), esc)
		return
	}
	newAdds := e.ua.Ring.AddLog[addsBefore:]
	for _, a := range newAdds {
		x.genOf[string(a.Blob)] = x.runs
	}
	if os.Getenv("C03DBG") != "" {
		for _, l := range e.ua.Log[base:] {
			fmt.Fprintf(os.Stderr, "DBG %s: %+v\n", op.Name, l)
		}
	}
	x.c.Outcome(op.Name + "/" + errType(err))
	// foreign and near-miss identities are never removed or altered
	for blob, comment := range x.foreign {
		found := false
		for _, id := range e.ua.Ring.Keys {
			if string(id.Blob) == blob {
				found = true
				if id.Comment != comment {
					add("foreign-identity-altered", fmt.Sprintf("identity with comment %q now has comment %q", comment, id.Comment))
				}
			}
		}
		if !found {
			add("foreign-identity-removed:"+strings.ReplaceAll(comment, " ", "-"), fmt.Sprintf("the run (%s → %s) removed the identity with comment %q, which does not carry the handler's label", op.Name, errType(err), comment))
		}
	}
	for blob, comment := range unlabelledBefore {
		if _, isForeign := x.foreign[blob]; isForeign {
			continue
		}
		found := false
		for _, id := range e.ua.Ring.Keys {
			if string(id.Blob) == blob {
				found = true
				if id.Comment != comment {
					add("unlabelled-identity-altered", fmt.Sprintf("identity with comment %q now has comment %q", comment, id.Comment))
				}
			}
		}
		if !found {
			add("unlabelled-identity-removed:"+strings.ReplaceAll(comment, " ", "-"), fmt.Sprintf("the run (%s) removed an identity with comment %q added by an earlier run, which does not carry the handler's label", op.Name, comment))
		}
	}
	// every identity the RA added carries a finite lifetime not shorter than the validity
	for _, a := range newAdds {
		if a.Lifetime == 0 {
			add("identity-without-lifetime", fmt.Sprintf("the RA added an identity (comment %q) without a lifetime constraint", a.Comment))
		} else if uint64(a.Lifetime) < validity {
			add("lifetime-shorter-than-validity", fmt.Sprintf("the RA added an identity (comment %q) with lifetime %d s, shorter than the certificate validity %d s", a.Comment, a.Lifetime, validity))
		} else if pk, perr := ssh.ParsePublicKey(a.Blob); perr == nil {
			if crt, ok := pk.(*ssh.Certificate); ok && crt.ValidBefore > crt.ValidAfter && uint64(a.Lifetime) < crt.ValidBefore-crt.ValidAfter {
				add("lifetime-shorter-than-validity", fmt.Sprintf("the RA added a certificate valid for %d s with an agent lifetime of %d s", crt.ValidBefore-crt.ValidAfter, a.Lifetime))
			}
		}
	}
	if strings.HasPrefix(op.Name, "ok") && err != nil {
		add("harness:unexpected-outcome:"+op.Name, fmt.Sprintf("scripted %s but the run returned %v", op.Name, err))
		return
	}
	// a scripted fault normally fails the run (C04 decides the error kind); if the run nevertheless reports success,
	// the success post-conditions below apply in full (usable certificates, at most one generation)
	if err == nil {
		x.c.Nontrivial(x.Key() + op.Arg)
		var issued []ssh.PublicKey
		for _, is := range e.ca.Issued[caBefore:] {
			issued = append(issued, is...)
		}
		if wantCalls := map[bool]int{false: 1, true: 2}[x.multi]; len(e.ca.Issued) != caBefore+wantCalls {
			add("harness:ca-calls", fmt.Sprintf("expected exactly %d CA call(s), saw %d", wantCalls, len(e.ca.Issued)-caBefore))
		}
		issuedSet := map[string]bool{}
		for _, ct := range issued {
			cert, isCert := ct.(*ssh.Certificate)
			if !isCert {
				continue // the CA returned a plain public key: nothing to install
			}
			blob := cert.Marshal()
			issuedSet[string(blob)] = true
			if !e.ua.Ring.Has(blob) {
				add("certificate-missing", fmt.Sprintf("after a successful run the agent does not hold one of the %d certificates the CA returned", len(issued)))
				continue
			}
			data := []byte("usable credential check")
			sig, serr := e.ua.Ring.Sign(cert, data)
			if serr != nil {
				add("certificate-cannot-sign", "the certificate is in the agent but cannot sign: "+serr.Error())
			} else if verr := cert.Key.Verify(data, sig); verr != nil {
				add("certificate-signature-invalid", "signing with the provisioned certificate does not verify under its key: "+verr.Error())
			}
			if !e.ua.Ring.Has(cert.Key.Marshal()) {
				add("private-key-missing", "after a successful run the agent does not hold the new private key")
			}
		}
		// at most one generation
		for blob := range x.labelled() {
			if !issuedSet[blob] {
				add("older-generation-remains", fmt.Sprintf("a handler-labelled certificate of run %d is still in the agent after run %d succeeded", x.genOf[blob], x.runs))
			}
		}
		if len(labelledBefore) > 0 {
			x.c.Count("successful_runs_replacing_an_older_generation", 1)
		}
	} else if strings.HasPrefix(op.Name, "fail-auth") || strings.HasPrefix(op.Name, "fail-generate") || strings.HasPrefix(op.Name, "fail-ca") {
		// failed before or during signing: previously provisioned certificates stay
		now := x.labelled()
		for blob := range labelledBefore {
			if !now[blob] {
				add("failed-run-destroys-certificates:"+op.Name, fmt.Sprintf("run %d failed (%s, before or during signing) but a previously provisioned certificate is gone", x.runs, errType(err)))
			}
		}
		if len(labelledBefore) > 0 {
			x.c.Nontrivial(x.Key() + op.Name)
			x.c.Count("failed_runs_with_certificates_at_stake", 1)
		}
	}
	_ = bytes.Equal
	return
}

func checkC03(c *ev.Ctx) {
	defer cleanupScratch()
	c.Rule("E1 BFS over sequences of real gensign.Run executions against one agent: transitions = success with the CA returning 1..3 certificates (also for a second login name of the same person) (or, successfully, none / only plain public keys) x comment lists {none, shorter with empty strings, longer} and validity {1 s, 12 h, 10 y}, incl. replies in which the CA grants 10 min to the first / middle / last certificate only; failure at authentication, at private-key insertion, missing key slot, CA error, agent failure at list / certificate add (thorough: remove, CA panic); roots = all 32 subsets of {plain key, foreign certificate, 3 near-miss comments} over a plain key store, plus 6 roots with the documented key_label option set, plus 6 behind the real shim agent (virtual clock; fault-free and pre-signing-failure transitions), plus 3 in which the real handler's key carries two CSRs (extra transition: the CA signs the first and fails the second); state = canonical identity multiset (class, generation age, comment, lifetime). non-trivial = successful run, or failed run with certificates at stake; distinct by (state, transition)")
	c.Assume("identities whose comment contains the handler name inside a longer word are don't-care", "lifetime constraints are read from the add-identity requests as parsed by x/crypto's agent server")
	var roots []string
	for m := 0; m < 32; m++ {
		roots = append(roots, fmt.Sprint(m))
	}
	// the same histories with the project's own shim agent as the requester's agent (it lists certificates under
	// rewritten comments and removes lapsed ones on its own)
	for _, m := range []int{0, 31, 5, 10, 16, 3} {
		roots = append(roots, fmt.Sprintf("%d/shim", m))
	}
	// the same histories under handler configurations that set the documented key_label option
	for _, lb := range []string{"corp-ssh", "x-paranoids.regular-y", "Paranoids.Regular"} {
		roots = append(roots, "0/label="+lb, "31/label="+lb)
	}
	// the same histories with a handler whose key asks for two certificates (two CSRs per key)
	roots = append(roots, "0/multi", "31/multi", "2/multi/shim")
	depth := 3
	if c.Thorough() {
		depth = 5
	}
	if c.ReplayCase != nil {
		var k struct {
			Root    string   `json:"root"`
			History []bfs.Op `json:"history"`
		}
		json.Unmarshal(c.ReplayCase, &k)
		for _, f := range bfs.Replay(func(r string) bfs.World { return newC03World(c, r) }, k.Root, k.History) {
			c.Violation(f.Key, f.Desc, k)
		}
		return
	}
	c.Sharded(8, 8, func(shard int) {
		var mine []string
		for i, r := range roots {
			if i%8 == shard {
				mine = append(mine, r)
			}
		}
		n := 0
		res := bfs.Run(bfs.Config{
			New: func(r string) bfs.World { return newC03World(c, r) }, Roots: mine, MaxDepth: depth, Deadline: c.Deadline,
			OnFinding: func(root string, hist []bfs.Op, f bfs.Finding) {
				c.Violation(f.Key, f.Desc+"\n  history [foreign mask "+root+"]: "+fmt.Sprint(hist), map[string]any{"root": root, "history": hist})
			},
			OnTransition: func(root string, hist []bfs.Op, d int) {
				c.Eval()
				n++
				if n%701 == 3 {
					c.Sample(map[string]any{"foreign_mask": root, "history": hist})
				}
			},
		})
		c.AddCov("states", int64(res.States))
		c.AddCov("transitions", int64(res.Transitions))
		c.AddCov("traces_validated_against_impl", int64(res.Transitions))
		c.ShardInfo(map[string]any{"roots": mine, "states": res.States, "transitions": res.Transitions, "depth_completed": res.DepthCompleted, "closed_under_alphabet": res.Closed, "frontier_left": res.FrontierLeft})
		if res.Capped != "" {
			c.Cap(res.Capped)
		}
		cleanupScratch()
	})
	c.Set("bound", fmt.Sprintf("all run sequences of length <= %d from each of 32 initial agents", depth))
}
