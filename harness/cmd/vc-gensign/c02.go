//go:build verif

package main

import (
	"bytes"
	"crypto/x509"
	"encoding/binary"
	"encoding/json"
	"fmt"
	"github.com/theparanoids/ysshra/csr"
	"github.com/theparanoids/ysshra/internal/zzverif/uagent"
	"reflect"
	"sort"
	"strings"
	"sync"
	"time"

	"golang.org/x/crypto/ssh"

	"github.com/theparanoids/ysshra/gensign"
	"github.com/theparanoids/ysshra/internal/zzverif/ev"
	"github.com/theparanoids/ysshra/internal/zzverif/fix"
	"github.com/theparanoids/ysshra/keyid"
)

type c02Case struct {
	LogName, ReqUser, ReqHost, ClientIP, TransID string
	Algo                                         int
	Validity                                     uint64
	KeyIDs                                       map[string]string
	NoPubKeyDir                                  bool
	KeyDir                                       string `json:",omitempty"` // layout of the registered-key directory ("" = <name>.pub)
	SigAlgo                                      int    `json:",omitempty"` // client-declared signature algorithm (a claim that must not influence the request)
	HardKeyClaim, Touch2SSH                      bool   `json:",omitempty"`
	Algos                                        []int  `json:",omitempty"` // one requested CA key algorithm per consecutive request on the same handler (default: Algo twice)
	FailKeyAddRound                              int    `json:",omitempty"` // n>0: in the n-th request the agent refuses the insertion of the new private key (the request fails; its key pair was offered to that agent)
}

// c02Offered: every public key whose private half was ever offered to an agent in an add-identity request on the wire
// (accepted or refused), with the request that offered it.
var c02Offered = map[string]string{}

var c02RunSeq int

// c02OfferedKeys extracts the public keys of the plain (non-certificate) ECDSA identities in add-identity requests.
func c02OfferedKeys(log []uagent.Req) (out [][]byte) {
	for _, q := range log {
		if q.Code != 17 && q.Code != 25 {
			continue
		}
		rest := q.Body[1:]
		var f [3][]byte
		ok := true
		for i := range f {
			if len(rest) < 4 {
				ok = false
				break
			}
			n := int(binary.BigEndian.Uint32(rest))
			if len(rest) < 4+n {
				ok = false
				break
			}
			f[i], rest = rest[4:4+n], rest[4+n:]
		}
		if !ok || !strings.HasPrefix(string(f[0]), "ecdsa-sha2-") || strings.Contains(string(f[0]), "cert") {
			continue
		}
		out = append(out, ssh.Marshal(struct {
			Name, Curve string
			Key         []byte
		}{string(f[0]), string(f[1]), f[2]}))
	}
	return
}

var c02SeenKeys = map[string]string{}

// c02Normalise: how a key_identifiers key names an algorithm (names in any case, or a number).
func c02Normalise(k string) (int, bool) {
	switch strings.ToLower(k) {
	case "default", "unknown":
		return 0, true
	case "rsa":
		return 1, true
	case "dsa":
		return 2, true
	case "ecdsa":
		return 3, true
	case "ed25519":
		return 4, true
	}
	var n int
	if _, err := fmt.Sscanf(k, "%d", &n); err == nil && fmt.Sprint(n) == k && n >= 0 {
		return n, true
	}
	return 0, false
}

var c02Extensions = map[string]string{"permit-pty": "", "permit-X11-forwarding": "", "permit-agent-forwarding": "", "permit-port-forwarding": "", "permit-user-rc": ""}

func c02Run(c *ev.Ctx, k c02Case) {
	c.Eval()
	c.Crumb(k)
	kd := k.KeyDir
	if kd == "" {
		kd = "pub"
	}
	e := newEnv(envOpt{KeyDir: kd, LogName: k.LogName, Validity: k.Validity, KeyIDs: k.KeyIDs, Behaviour: "honest", AgentHasKey: true, NoPubKeyDir: k.NoPubKeyDir})
	defer e.close()
	if e.hErr != nil {
		c.Outcome("handler-config-rejected")
		valid := true
		for name := range k.KeyIDs {
			if _, ok := c02Normalise(name); !ok {
				valid = false
			}
		}
		if valid {
			c.Violation("C02:valid-configuration-rejected", fmt.Sprintf("a handler configuration whose key_identifiers are algorithm names (any case) or numbers was rejected: %v", e.hErr), k)
		}
		return
	}
	want := map[int]string{}
	for name, id := range k.KeyIDs {
		if n, ok := c02Normalise(name); ok {
			want[n] = id
		}
	}
	algos := k.Algos
	if len(algos) == 0 {
		algos = []int{k.Algo, k.Algo}
	}
	for round, algo := range algos {
		k.Algo = algo
		p := defaultParams(k.LogName)
		p.ReqUser, p.ReqHost, p.ClientIP, p.TransID = k.ReqUser, k.ReqHost, k.ClientIP, k.TransID+fmt.Sprint(round)
		p.Attrs.Username, p.Attrs.Hostname = k.ReqUser, k.ReqHost
		p.Attrs.CAPubKeyAlgo = x509.PublicKeyAlgorithm(k.Algo)
		p.Attrs.SignatureAlgo = x509.SignatureAlgorithm(k.SigAlgo)
		p.SignatureAlgo = x509.SignatureAlgorithm(k.SigAlgo)
		p.Attrs.Touch2SSH = k.Touch2SSH
		caBefore, addsBefore := len(e.ca.Reqs), len(e.ua.Ring.AddLog)
		logBefore := len(e.ua.Log)
		faulted := k.FailKeyAddRound == round+1
		if faulted {
			e.ua.Plan[logBefore+1] = uagent.FaultFailure // request 0 = the challenge, request 1 = the insertion of the new private key
		}
		err, esc := e.run(p, []gensign.Handler{e.handler})
		delete(e.ua.Plan, logBefore+1)
		offeredNow := c02OfferedKeys(e.ua.Log[logBefore:])
		c02RunSeq++
		runTag := fmt.Sprintf("%s (run #%d of this check)", p.TransID, c02RunSeq)
		defer func(tid string) {
			for _, b := range offeredNow {
				if _, seen := c02Offered[string(b)]; !seen {
					c02Offered[string(b)] = tid
				}
			}
		}(runTag)
		if faulted && esc == "" {
			c.Outcome("key-insertion-refused/" + errType(err))
			if len(e.ca.Reqs) != caBefore {
				c.Violation("C02:signed-although-key-insertion-failed", "the agent refused the new private key, yet a request reached the CA", k)
				return
			}
			for _, b := range offeredNow {
				c02Offered[string(b)] = runTag
			}
			continue
		}
		if esc != "" {
			c.Violation("C02:panic-escaped:"+ev.PanicSite(esc), esc, k)
			return
		}
		if k.NoPubKeyDir {
			c.Outcome("no-pubkey-dir/" + errType(err))
			if len(e.ca.Reqs) != caBefore {
				c.Violation("C02:signed-without-registered-key", "a request was signed although the default key directory holds no key for the user", k)
			}
			return
		}
		if k.KeyDir == "nearmiss-names" && len(e.ca.Reqs) == caBefore {
			// only OTHER users (near misses of this login name) have the key registered: the request is refused, nothing to
			// compare (whether it may be accepted is C01's subject); if a request IS signed, its content is judged as usual
			c.Outcome("no-key-file-of-its-own/" + errType(err))
			return
		}
		wantID, configured := want[k.Algo]
		if !configured {
			c.Outcome("unconfigured-algo/" + errType(err))
			if len(e.ca.Reqs) != caBefore {
				c.Violation("C02:signed-with-unconfigured-slot", fmt.Sprintf("CA algorithm %d has no configured key slot, yet a request reached the CA with slot %q", k.Algo, e.ca.Reqs[len(e.ca.Reqs)-1].KeyMeta.GetIdentifier()), k)
			}
			if errType(err) != "HandlerConfErr" {
				c.Violation("C02:unconfigured-slot-wrong-error:"+errType(err), fmt.Sprintf("expected a handler configuration error, got %s (%v)", errType(err), err), k)
			}
			if len(k.Algos) == 0 {
				return
			}
			continue // a sequence goes on after a refusal: the same long-lived handler serves the next request
		}
		if err != nil || len(e.ca.Reqs) != caBefore+1 {
			c.Violation("C02:configured-request-fails:"+errType(err), fmt.Sprintf("run failed (%v) or CA calls=%d for a configured algorithm", err, len(e.ca.Reqs)-caBefore), k)
			return
		}
		c.Outcome("signed")
		c.Nontrivial(ev.JSON(k))
		req := e.ca.Reqs[len(e.ca.Reqs)-1]
		bad := func(key, desc string) { c.Violation("C02:"+key, desc+"\n  request: "+ev.JSON(req), k) }
		if !reflect.DeepEqual(req.Principals, []string{k.LogName}) {
			bad("principals", fmt.Sprintf("principals %q, want exactly the login name %q", req.Principals, k.LogName))
		}
		if req.Validity != k.Validity {
			bad("validity", fmt.Sprintf("validity %d, configured %d", req.Validity, k.Validity))
		}
		if !reflect.DeepEqual(req.Extensions, c02Extensions) {
			bad("extensions", fmt.Sprintf("extensions %v, want the fixed default set", req.Extensions))
		}
		if req.KeyMeta.GetIdentifier() != wantID {
			bad("key-slot", fmt.Sprintf("key slot %q, configured for algorithm %d is %q", req.KeyMeta.GetIdentifier(), k.Algo, wantID))
		}
		// KeyID: real decoder and independent decode
		kid, kerr := keyid.Unmarshal(req.KeyId)
		if kerr != nil {
			bad("keyid-malformed", fmt.Sprintf("KeyID does not decode: %v", kerr))
		} else {
			wantKid := keyid.KeyID{Principals: []string{k.LogName}, TransID: p.TransID, ReqUser: k.ReqUser, ReqIP: k.ClientIP, ReqHost: k.ReqHost, Version: 1, TouchPolicy: keyid.NeverTouch, Usage: keyid.AllUsage}
			if !reflect.DeepEqual(*kid, wantKid) {
				bad("keyid-contents", fmt.Sprintf("KeyID decodes to %s, want %s", ev.JSON(kid), ev.JSON(wantKid)))
			}
		}
		var m map[string]any
		if json.Unmarshal([]byte(req.KeyId), &m) != nil {
			bad("keyid-malformed", "KeyID is not a JSON object")
		} else {
			exp := map[string]any{"prins": []any{k.LogName}, "transID": p.TransID, "reqUser": k.ReqUser, "reqIP": k.ClientIP, "reqHost": k.ReqHost, "ver": 1.0,
				"isFirefighter": false, "isHWKey": false, "isHeadless": false, "isNonce": false, "usage": 0.0, "touchPolicy": 1.0}
			if !reflect.DeepEqual(m, exp) {
				bad("keyid-contents", fmt.Sprintf("KeyID object %v, want %v", m, exp))
			}
		}
		// the certified key: fresh, added to the agent in this run, never the long-term key, never reused
		pub, _, _, _, perr := ssh.ParseAuthorizedKey([]byte(req.PublicKey))
		if perr != nil {
			bad("public-key-unparsable", perr.Error())
			return
		}
		blob := pub.Marshal()
		if bytes.Equal(blob, fix.Pub(regKeyDefault()).Marshal()) {
			bad("certifies-long-term-key", "the request certifies the user's registered long-term key")
		}
		if prev, was := c02Offered[string(blob)]; was && prev != runTag {
			bad("key-offered-to-an-earlier-agent", "the certified key pair was generated for, and offered to the agent of, the earlier request "+prev+" (whose insertion was refused); that requester may hold the private key")
		}
		if prev, dup := c02SeenKeys[string(blob)]; dup {
			bad("key-reused", "the certified key was already used by request "+prev)
		}
		c02SeenKeys[string(blob)] = p.TransID
		inAgent := false
		for _, a := range e.ua.Ring.AddLog[addsBefore:] {
			if bytes.Equal(a.Blob, blob) {
				inAgent = true
			}
		}
		if !inAgent {
			bad("key-not-generated-for-this-request", "the certified public key is not the key of a private key the RA added to the agent in this run")
		}
	}
}

func checkC02(c *ev.Ctx) {
	defer cleanupScratch()
	c.Rule("real gensign.Run + regular.Handler, honest agent, recording CA; the signing request received by the CA is compared with a reference record built from server-side inputs: strings {plain, JSON metacharacters, <>&, non-ASCII, 200 chars, empty, literal JSON/HTML escape texts (\\u0026, \\\\u003c, &lt;, \\n), U+2028/2029, control characters} for login/user/host/IP/transaction id varied one field at a time and jointly; 10 login names that interact with the key-file lookup ('.pub' suffixes, dots, case) x directory layouts {<name>.pub, bare <name>, both} x CA algorithm{0,1,2,3,4,99}; 5 login names for which only near-miss key files of other users exist (other case, prefix, suffix); handler configurations: validity{1,3600,43200,315360000,2^32+43200} x every non-colliding subset (size<=3; thorough <=4) of key_identifiers keys {rsa,RSA,Ecdsa,ed25519,default,unknown,1,3,99} x algorithm; two consecutive requests per case; client-declared signature algorithm 0..17 x touch-to-SSH x requested algorithm {omitted,1,3,4} x 3 slot configurations; every sequence of 1..4 requests over 5 algorithms (3 configured, 2 not) on one long-lived handler; sequences in which the agent refuses the insertion of one request's new private key (a certified key pair was never offered to an earlier requester's agent: add-identity requests are read off the wire); a batch of three requests authenticated and generated on one handler before anything is signed (what Generate returned for an earlier request still describes that request); a declared side pass in which two requests overlap on one handler (the first parked inside its key insertion by an event-driven gate). non-trivial = request signed and compared; distinct by case")
	c.Assume("key_identifiers names are normalised case-insensitively or numerically (reference table in the harness)")
	if c.ReplayCase != nil {
		var k c02Case
		json.Unmarshal(c.ReplayCase, &k)
		c02Run(c, k)
		return
	}
	allIDs := map[string]string{"default": "slot-default", "rsa": "slot-rsa", "dsa": "slot-dsa", "ecdsa": "slot-ecdsa", "ed25519": "slot-ed", "99": "slot-99"}
	strs := []string{"plain", "j\"s{o}n[,]:\\", "a<>&b", "ünï-日本", strings.Repeat("x", 200), "",
		// every escape form a JSON encoder can emit, as literal text in the value, and the characters those forms stand for
		`a\u0026b\u003c\u003e`, `\\u0026\\\u003c`, `&lt;&gt;&amp;&#34;`, `\n\"\\\/\ud83d`, "\u2028\u2029\ufffd", "\x00\x01\x1f\n\r\t\x7f"}
	base := c02Case{LogName: "alice", ReqUser: "alice", ReqHost: "client.host", ClientIP: "1.2.3.4", TransID: "0a1b2c3d4e", Validity: 43200, KeyIDs: allIDs}
	n := 0
	for _, algo := range []int{0, 1, 2, 3, 4, 99, 7} {
		for fi := 0; fi < 6; fi++ {
			for _, s := range strs {
				k := base
				k.Algo = algo
				switch fi {
				case 0:
					if s == "" || strings.ContainsAny(s, "/\x00") {
						continue // a login name is a file name in the key directory: such a user cannot be authenticated
					}
					k.LogName = s
				case 1:
					k.ReqUser = s
				case 2:
					k.ReqHost = s
				case 3:
					k.ClientIP = s
				case 4:
					k.TransID = s
				case 5:
					k.ReqUser, k.ReqHost, k.ClientIP, k.TransID = s, s+"h", s+"i", s+"t"
					if s != "" && !strings.ContainsAny(s, "/\x00") {
						k.LogName = s
					}
				}
				c02Run(c, k)
				n++
				if n%97 == 5 {
					c.Sample(k)
				}
			}
		}
	}
	// configurations
	names := []string{"rsa", "RSA", "Ecdsa", "ed25519", "default", "unknown", "1", "3", "99"}
	maxSub := 3
	if c.Thorough() {
		maxSub = 4
	}
	var subsets [][]string
	var rec func(start int, cur []string)
	rec = func(start int, cur []string) {
		used := map[int]bool{}
		for _, x := range cur {
			v, _ := c02Normalise(x)
			if used[v] {
				return // colliding
			}
			used[v] = true
		}
		subsets = append(subsets, append([]string{}, cur...))
		if len(cur) == maxSub {
			return
		}
		for i := start; i < len(names); i++ {
			rec(i+1, append(cur, names[i]))
		}
	}
	rec(0, nil)
	sort.Slice(subsets, func(i, j int) bool { return len(subsets[i]) < len(subsets[j]) })
	c.Set("key_identifier_subsets", len(subsets))
	for _, sub := range subsets {
		ids := map[string]string{}
		for _, nm := range sub {
			ids[nm] = "slot-for-" + nm
		}
		for _, val := range []uint64{1, 3600, 43200, 315360000, 1<<32 + 43200} {
			for _, algo := range []int{0, 1, 2, 3, 4, 99} {
				k := base
				k.KeyIDs, k.Validity, k.Algo = ids, val, algo
				if len(sub) == 0 {
					k.KeyIDs = nil
				}
				c02Run(c, k)
				n++
				if n%977 == 5 {
					c.Sample(k)
				}
			}
		}
	}
	nk := base
	nk.NoPubKeyDir = true
	c02Run(c, nk)
	// the other client claims (declared signature algorithm 0..17, touch-to-SSH) against the requested CA key algorithm being
	// omitted or given, under configurations with and without a default slot: only the requested CA key algorithm selects
	// the slot
	for sa := 0; sa <= 17; sa++ {
		for _, algo := range []int{0, 1, 3, 4} {
			for _, ids := range []map[string]string{allIDs, {"rsa": "slot-rsa", "ecdsa": "slot-ecdsa", "ed25519": "slot-ed"}, {"default": "slot-default", "rsa": "slot-rsa"}} {
				for _, t2 := range []bool{false, true} {
					k := base
					k.KeyIDs, k.Algo, k.SigAlgo, k.Touch2SSH = ids, algo, sa, t2
					c02Run(c, k)
					n++
				}
			}
		}
	}
	// sequences of requests on ONE long-lived handler: every sequence of length 1..4 over {two configured algorithms, two
	// unconfigured ones}; each request is judged on its own (a refusal must not change what the next request gets)
	{
		seqIDs := map[string]string{"rsa": "slot-rsa", "ed25519": "slot-ed", "99": "slot-99"}
		al := []int{1, 4, 7, 3, 99}
		var rec func(cur []int)
		rec = func(cur []int) {
			if len(cur) > 0 {
				k := base
				k.KeyIDs, k.Algos = seqIDs, append([]int{}, cur...)
				c02Run(c, k)
				n++
			}
			if len(cur) == 4 {
				return
			}
			for _, a := range al {
				rec(append(cur, a))
			}
		}
		rec(nil)
	}
	// login names that interact with the key-file lookup (suffixes, dots, case), under every directory layout in which the
	// user can still authenticate: the principal is the login name, whatever file held the key
	for _, ln := range []string{"alice", "alice.pub", "alice.pub.pub", "al.ice", "alice.PUB", "alice.", ".alice", "pub", "alice.pubx", "Alice"} {
		for _, layout := range []string{"pub", "bare", "both"} {
			k := base
			k.LogName, k.KeyDir, k.ReqUser = ln, layout, "someone-else"
			c02Run(c, k)
			n++
		}
	}
	// login names for which only near-miss files exist (another case, a prefix, ...): normally refused; whatever an
	// implementation does with the near-miss files, a signed request names the server-side login name
	for _, ln := range []string{"Alice", "ALICE", "aLiCe", "Élodie", "alice"} {
		k := base
		k.LogName, k.KeyDir, k.ReqUser = ln, "nearmiss-names", "someone-else"
		c02Run(c, k)
		n++
	}
	// the agent refuses the insertion of the new private key in one request; the following requests (same handler, and a
	// fresh handler in the same process) certify key pairs of their own
	for _, fr := range []int{1, 2} {
		for _, algos := range [][]int{{0, 0, 0}, {0, 1, 0}} {
			k := base
			k.Algos, k.FailKeyAddRound = algos, fr
			c02Run(c, k)
			n++
		}
	}
	{
		k := base
		k.Algos = []int{0}
		c02Run(c, k) // a fresh handler right after the sequences above
		n++
	}
	c02Batch(c)
	c02Overlap(c)
	c.Set("cases", n+3)
}

// c02Overlap is a declared side pass (two goroutines; C02's quantifier is over requests and sequences): two requests on
// ONE handler overlap - the first is parked inside the insertion of its new private key (the agent does not answer yet)
// while the second starts; then the agent answers. Each signing request still describes its own request. The gate is
// event-driven; the only timing is a 300 ms head start for the second request.
func c02Overlap(c *ev.Ctx) {
	c.Eval()
	e := newEnv(envOpt{KeyDir: "pub", LogName: "alice", Validity: 43200, KeyIDs: map[string]string{"default": "slot"}, Behaviour: "honest", AgentHasKey: true})
	defer e.close()
	if e.hErr != nil {
		c.Violation("C02:harness:handler", e.hErr.Error(), nil)
		return
	}
	k := map[string]any{"overlap": true}
	arrived, gate := make(chan struct{}), make(chan struct{})
	first := true
	old := e.ua.OnRequest
	var mu sync.Mutex
	e.ua.OnRequest = func(idx int, frame []byte, fault string) {
		if old != nil {
			old(idx, frame, fault)
		}
		mu.Lock()
		park := first && len(frame) > 0 && (frame[0] == 25 || frame[0] == 17)
		if park {
			first = false
		}
		mu.Unlock()
		if park {
			close(arrived)
			<-gate // the agent takes its time over the first request's key insertion
		}
	}
	type out struct {
		p    *csr.ReqParam
		keys []csr.AgentKey
		err  error
		pn   string
	}
	mk := func(i int) *csr.ReqParam {
		p := defaultParams("alice")
		p.TransID, p.ReqUser, p.ReqHost, p.ClientIP = fmt.Sprintf("%010x", 0xc0+i), fmt.Sprintf("ovl%d", i), fmt.Sprintf("ovl%d.example", i), fmt.Sprintf("10.9.0.%d", i+1)
		p.Attrs.Username, p.Attrs.Hostname = p.ReqUser, p.ReqHost
		return p
	}
	res := make(chan out, 2)
	// both requests are authenticated first (the front end has both in hand), then generated concurrently
	p0, p1 := mk(0), mk(1)
	for _, p := range []*csr.ReqParam{p0, p1} {
		var aerr error
		if pn := ev.Guard(func() { aerr = e.handler.Authenticate(p) }); pn != "" || aerr != nil {
			c.Violation("C02:configured-request-fails:overlap", fmt.Sprintf("authentication of %s failed: %v %s", p.TransID, aerr, pn), k)
			return
		}
	}
	run := func(p *csr.ReqParam) {
		o := out{p: p}
		o.pn = ev.Guard(func() { o.keys, o.err = e.handler.Generate(p) })
		res <- o
	}
	go run(p0)
	select {
	case <-arrived:
	case o := <-res:
		close(gate)
		c.Violation("C02:configured-request-fails:overlap", fmt.Sprintf("the first request ended before its key insertion: %v %s", o.err, o.pn), k)
		return
	case <-time.After(60 * time.Second):
		close(gate)
		c.Cap("overlap side pass: the first request did not reach its key insertion within 60 s")
		return
	}
	go run(p1)
	time.Sleep(300 * time.Millisecond)
	close(gate)
	for i := 0; i < 2; i++ {
		select {
		case o := <-res:
			if o.pn != "" {
				c.Violation("C02:panic-escaped:"+ev.PanicSite(o.pn), o.pn, k)
				return
			}
			if o.err != nil || len(o.keys) == 0 {
				c.Violation("C02:configured-request-fails:overlap", fmt.Sprintf("request %s failed while overlapping another request on the same handler: %v", o.p.TransID, o.err), k)
				return
			}
			for _, ak := range o.keys {
				for _, req := range ak.CSRs() {
					if !reflect.DeepEqual(req.Principals, []string{"alice"}) || !strings.Contains(req.KeyId, o.p.TransID) || !strings.Contains(req.KeyId, o.p.ReqUser) || !strings.Contains(req.KeyId, o.p.ReqHost) || !strings.Contains(req.KeyId, o.p.ClientIP) {
						c.Violation("C02:overlap:request-describes-the-other-request", fmt.Sprintf("two requests overlapped on one handler; the signing request of %s (user %s, host %s, address %s) reads principals=%q keyid=%s", o.p.TransID, o.p.ReqUser, o.p.ReqHost, o.p.ClientIP, req.Principals, req.KeyId), k)
						return
					}
				}
			}
		case <-time.After(120 * time.Second):
			c.Violation("C02:overlap:requests-never-complete", "two overlapping requests on one handler did not both return within 120 s of the agent answering", k)
			return
		}
	}
	c.Outcome("overlap/2")
	c.Nontrivial("overlap")
}

// c02Batch: a front end that authenticates and generates for several requests on ONE handler before it has anything
// signed (generate the batch, then sign the batch): what Generate returned for an earlier request still describes THAT
// request after later calls - results are values of their own.
func c02Batch(c *ev.Ctx) {
	c.Eval()
	e := newEnv(envOpt{KeyDir: "pub", LogName: "alice", Validity: 43200, KeyIDs: map[string]string{"default": "slot"}, Behaviour: "honest", AgentHasKey: true})
	defer e.close()
	if e.hErr != nil {
		c.Violation("C02:harness:handler", e.hErr.Error(), nil)
		return
	}
	type held struct {
		p    *csr.ReqParam
		keys []csr.AgentKey
	}
	var hs []held
	k := map[string]any{"batch": true}
	for i := 0; i < 3; i++ {
		p := defaultParams("alice")
		p.TransID, p.ReqUser, p.ReqHost, p.ClientIP = fmt.Sprintf("%010x", 0xb0+i), fmt.Sprintf("user%d", i), fmt.Sprintf("host%d.example", i), fmt.Sprintf("10.0.0.%d", i+1)
		p.Attrs.Username, p.Attrs.Hostname = p.ReqUser, p.ReqHost
		var keys []csr.AgentKey
		var err error
		if pn := ev.Guard(func() {
			if err = e.handler.Authenticate(p); err == nil {
				keys, err = e.handler.Generate(p)
			}
		}); pn != "" {
			c.Violation("C02:panic-escaped:"+ev.PanicSite(pn), pn, k)
			return
		}
		if err != nil || len(keys) == 0 {
			c.Violation("C02:configured-request-fails:batch", fmt.Sprintf("request %d of a batch on one handler failed: %v", i, err), k)
			return
		}
		hs = append(hs, held{p, keys})
	}
	seen := map[string]int{}
	for i, h := range hs {
		for _, ak := range h.keys {
			for _, req := range ak.CSRs() {
				c.Nontrivial(fmt.Sprint("batch", i))
				if !reflect.DeepEqual(req.Principals, []string{"alice"}) || !strings.Contains(req.KeyId, h.p.TransID) || !strings.Contains(req.KeyId, h.p.ReqUser) || !strings.Contains(req.KeyId, h.p.ReqHost) {
					c.Violation("C02:batch:earlier-result-describes-a-later-request", fmt.Sprintf("after %d further Generate calls on the same handler, the signing request returned for request %d (transaction %s, user %s) reads principals=%q keyid=%s", len(hs)-1-i, i, h.p.TransID, h.p.ReqUser, req.Principals, req.KeyId), k)
				}
				if j, dup := seen[req.PublicKey]; dup {
					c.Violation("C02:key-reused", fmt.Sprintf("the signing requests held for requests %d and %d of a batch certify the same key pair", j, i), k)
				}
				seen[req.PublicKey] = i
			}
		}
	}
	c.Outcome("batch/3")
}
