//go:build verif

package main

import (
	"fmt"

	"github.com/theparanoids/crypki/proto"
	"golang.org/x/crypto/ssh"
	ag "golang.org/x/crypto/ssh/agent"

	agssh "github.com/theparanoids/ysshra/agent/ssh"
	"github.com/theparanoids/ysshra/crypki"
	"github.com/theparanoids/ysshra/csr"
	"github.com/theparanoids/ysshra/gensign"
	"github.com/theparanoids/ysshra/internal/zzverif/ev"
	"github.com/theparanoids/ysshra/internal/zzverif/uagent"
)

// reuseHandler is a handler that keeps ONE real agent key (agent/ssh.AgentKey, the type the regular handler uses) for the
// life of the forwarded-agent connection and hands it out again on every run - a retrying front end. The objects of
// package agent/ssh are then long-lived across runs, which the regular handler (fresh objects per run) never exercises.
type reuseHandler struct {
	client ag.Agent
	key    *reuseKey
}

type reuseKey struct {
	*agssh.AgentKey
	csrs []*proto.SSHCertificateSigningRequest
}

func (k *reuseKey) CSRs() []*proto.SSHCertificateSigningRequest { return k.csrs }

func (h *reuseHandler) Name() string                       { return "verif.reuse" }
func (h *reuseHandler) Authenticate(p *csr.ReqParam) error { return nil }
func (h *reuseHandler) Generate(p *csr.ReqParam) ([]csr.AgentKey, error) {
	if h.key == nil {
		opt := agssh.DefaultKeyOpt
		opt.PrivateKeyValiditySec = 3600
		opt.CertLabel = "verif.reuse-cert"
		k, err := agssh.NewSSHAgentKeyWithOpt(h.client, opt)
		if err != nil {
			return nil, gensign.NewError(gensign.HandlerGenCSRErr, h.Name(), err)
		}
		req := &proto.SSHCertificateSigningRequest{
			KeyMeta: &proto.KeyMeta{Identifier: "slot"}, Extensions: crypki.GetDefaultExtension(), Validity: 3600, Principals: []string{p.LogName},
			PublicKey: string(ssh.MarshalAuthorizedKey(k.PublicKey())), KeyId: "verif reuse",
		}
		h.key = &reuseKey{AgentKey: k, csrs: []*proto.SSHCertificateSigningRequest{req}}
	}
	return []csr.AgentKey{h.key}, nil
}

// panicAgent is the forwarded agent as an OBJECT that crashes at its n-th call (any agent.Agent implementation may: the
// interface is what agent/ssh programs against); calls are counted from the start of each run.
type panicAgent struct {
	ag.ExtendedAgent
	calls, at int
}

func (p *panicAgent) tick(op string) {
	if p.calls == p.at {
		p.calls++
		panic("forwarded agent object crashed in " + op)
	}
	p.calls++
}
func (p *panicAgent) Add(k ag.AddedKey) error  { p.tick("Add"); return p.ExtendedAgent.Add(k) }
func (p *panicAgent) List() ([]*ag.Key, error) { p.tick("List"); return p.ExtendedAgent.List() }
func (p *panicAgent) Remove(k ssh.PublicKey) error {
	p.tick("Remove")
	return p.ExtendedAgent.Remove(k)
}

type c04ReuseCase struct {
	Reuse  bool
	NCerts int
	// PanicAt[r] >= 0: in run r the forwarded agent object crashes at its PanicAt[r]-th call of that run (add private key,
	// list, removes, certificate adds); the run must end with a Panic error and nothing may be reported as success
	PanicAt []int `json:",omitempty"`
	// Faults[r] = fault plan of run r: agent request index relative to the start of that run -> fault kind
	Faults []map[string]string
}

// c04Reuse: a sequence of runs that share one agent key object; every run is judged on its own by the success clause
// ("success only when every returned certificate was handed to the agent") and the error-kind clause.
func c04Reuse(c *ev.Ctx, k c04ReuseCase) {
	c.Eval()
	c.Crumb(k)
	e := newEnv(envOpt{KeyDir: "pub", LogName: "alice", Validity: 3600, KeyIDs: map[string]string{"default": "slot"}, Behaviour: "honest", AgentHasKey: true})
	defer e.close()
	e.ca.NCerts, e.ca.Idempotent = k.NCerts, true
	pa := &panicAgent{ExtendedAgent: ag.NewClient(e.conn), at: -1}
	h := &reuseHandler{client: pa}
	for r, plan := range k.Faults {
		e.events = nil
		pa.calls, pa.at = 0, -1
		if r < len(k.PanicAt) {
			pa.at = k.PanicAt[r]
		}
		e.ua.Plan = map[int]string{}
		base := len(e.ua.Log)
		for is, kind := range plan {
			var i int
			fmt.Sscanf(is, "%d", &i)
			e.ua.Plan[base+i] = kind
		}
		caBefore := len(e.ca.Issued)
		err, esc := e.run(defaultParams("alice"), []gensign.Handler{h})
		if esc != "" {
			c.Violation("C04:crash:"+ev.PanicSite(esc), "a panic escaped gensign.Run:\n"+esc, k)
			return
		}
		if pa.at >= 0 && pa.calls > pa.at {
			// the agent object crashed during this run
			c.Outcome(fmt.Sprintf("reuse/run%d/agent-object-crashed/%s", r, errType(err)))
			c.Nontrivial(ev.JSON(k) + fmt.Sprint(r))
			if errType(err) != "Panic" {
				c.Violation("C04:reuse:agent-crash-wrong-kind:"+errType(err), fmt.Sprintf("run %d: the forwarded agent object crashed at its call #%d, the run returned %v (want a Panic error)", r, pa.at, err), k)
				return
			}
			continue
		}
		fired := ""
		for _, q := range e.ua.Log[base:] {
			if q.Fault != "" && fired == "" {
				fired = q.Fault
			}
		}
		c.Outcome(fmt.Sprintf("reuse/run%d/fault=%v/%s", r, fired != "", errType(err)))
		if fired != "" && err == nil {
			c.Violation("C04:reuse:fault-swallowed", fmt.Sprintf("run %d: the agent answered a request with %q and the run reported success", r, fired), k)
			return
		}
		if fired != "" && errType(err) != "AgentOpCertErr" && errType(err) != "HandlerGenCSRErr" {
			c.Violation("C04:reuse:wrong-kind:"+errType(err), fmt.Sprintf("run %d: agent fault %q, run returned %v", r, fired, err), k)
		}
		if err == nil {
			c.Nontrivial(ev.JSON(k) + fmt.Sprint(r))
			if len(e.ca.Issued) != caBefore+1 {
				c.Violation("C04:success-without-signing", fmt.Sprintf("run %d reported success with %d CA calls", r, len(e.ca.Issued)-caBefore), k)
				return
			}
			for _, ct := range e.ca.Issued[len(e.ca.Issued)-1] {
				if !e.ua.Ring.Has(ct.Marshal()) {
					c.Violation("C04:success-but-certificate-missing", fmt.Sprintf("run %d of a sequence sharing one agent key reported success, but a certificate the CA returned is not in the agent (earlier runs: %v)", r, k.Faults[:r]), k)
					return
				}
			}
		} else if fired == "" {
			c.Violation("C04:reuse:fails-without-fault:"+errType(err), fmt.Sprintf("run %d failed without any fault: %v", r, err), k)
			return
		}
	}
}

func c04ReuseCases(thorough bool) (cs []c04ReuseCase) {
	kinds := []string{uagent.FaultFailure, uagent.FaultClose}
	for _, nc := range []int{1, 2, 3} {
		// the forwarded agent object crashes at every call index of the first / the second run
		for idx := 0; idx < 4+nc; idx++ {
			cs = append(cs, c04ReuseCase{Reuse: true, NCerts: nc, Faults: []map[string]string{{}, {}}, PanicAt: []int{idx, -1}})
			cs = append(cs, c04ReuseCase{Reuse: true, NCerts: nc, Faults: []map[string]string{{}, {}, {}}, PanicAt: []int{-1, idx, -1}})
		}
	}
	for _, nc := range []int{1, 2} {
		cs = append(cs, c04ReuseCase{Reuse: true, NCerts: nc, Faults: []map[string]string{{}, {}, {}}})
		// run 0 requests: add private key, list, [removes], certificate adds; later runs: list, removes, adds
		for idx := 0; idx < 3+nc; idx++ {
			for _, kd := range kinds[:1] {
				cs = append(cs, c04ReuseCase{Reuse: true, NCerts: nc, Faults: []map[string]string{{fmt.Sprint(idx): kd}, {}, {}}})
				cs = append(cs, c04ReuseCase{Reuse: true, NCerts: nc, Faults: []map[string]string{{}, {fmt.Sprint(idx): kd}, {}}})
				if thorough {
					for idx2 := 0; idx2 < 3+nc; idx2++ {
						cs = append(cs, c04ReuseCase{Reuse: true, NCerts: nc, Faults: []map[string]string{{fmt.Sprint(idx): kd}, {fmt.Sprint(idx2): kd}, {}}})
					}
				}
			}
		}
	}
	return
}
