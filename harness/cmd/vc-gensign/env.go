//go:build verif

package main

import (
	"context"
	"crypto/rand"
	"encoding/json"
	"errors"
	"fmt"
	"os"
	"path/filepath"
	"strings"
	"sync"
	"time"

	"github.com/theparanoids/crypki/proto"
	"golang.org/x/crypto/ssh"
	"golang.org/x/crypto/ssh/agent"

	"github.com/theparanoids/ysshra/common"
	"github.com/theparanoids/ysshra/config"
	"github.com/theparanoids/ysshra/csr"
	"github.com/theparanoids/ysshra/gensign"
	"github.com/theparanoids/ysshra/gensign/regular"
	"github.com/theparanoids/ysshra/internal/zzverif/ev"
	"github.com/theparanoids/ysshra/internal/zzverif/fix"
	"github.com/theparanoids/ysshra/internal/zzverif/uagent"
	"github.com/theparanoids/ysshra/message"
	"github.com/theparanoids/ysshra/sshutils/version"
	"github.com/theparanoids/ysshra/zzverifrt/vnet"
	"github.com/theparanoids/ysshra/zzverifrt/vrand"
)

// caStub is the recording CA: it signs what it is asked to sign (with the fixture SSH CA) according to a script.
type caStub struct {
	Reqs   []*proto.SSHCertificateSigningRequest
	Issued [][]ssh.PublicKey // per call
	// Script per call index: "ok" (default), "err", "panic", "empty" (nil,nil,nil)
	Script     map[int]string
	NCerts     int      // certificates per request (default 1)
	Comments   []string // comments returned per call (nil: none)
	ValidAt    uint64   // base time for issued certificates
	Idempotent bool     // the same request yields byte-identical certificates (serial by position, deterministic CA signature)
	cache      map[string]ssh.PublicKey
	Granted    []uint64 // per certificate of one reply: validity granted instead of the requested one (0 / missing = as requested)
	events     *[]string
}

func (s *caStub) Sign(ctx context.Context, req *proto.SSHCertificateSigningRequest) ([]ssh.PublicKey, []string, error) {
	idx := len(s.Reqs)
	s.Reqs = append(s.Reqs, req)
	if sc := s.Script[idx]; sc != "" && s.events != nil {
		*s.events = append(*s.events, "ca:"+sc)
	}
	switch s.Script[idx] {
	case "err":
		s.Issued = append(s.Issued, nil)
		return nil, nil, errors.New("ca stub: scripted failure")
	case "typederr", "typedconferr":
		// a signer whose own error is a typed gensign error of ANOTHER stage: the run still failed at the signing stage
		s.Issued = append(s.Issued, nil)
		if s.Script[idx] == "typederr" {
			return nil, nil, gensign.NewErr(gensign.Unknown, errors.New("ca stub: typed failure"))
		}
		return nil, nil, gensign.NewError(gensign.HandlerConfErr, "some-handler", errors.New("ca stub: typed configuration failure"))
	case "panic":
		s.Issued = append(s.Issued, nil)
		panic("ca stub: scripted panic")
	case "empty":
		s.Issued = append(s.Issued, nil)
		return nil, nil, nil
	case "plainkeys":
		pk, _, _, _, err := ssh.ParseAuthorizedKey([]byte(req.PublicKey))
		if err != nil {
			s.Issued = append(s.Issued, nil)
			return nil, nil, err
		}
		out := []ssh.PublicKey{pk, fix.Pub(fix.Ed(4))}
		s.Issued = append(s.Issued, out)
		return out, []string{"plain", "plain"}, nil
	}
	pub, _, _, _, err := ssh.ParseAuthorizedKey([]byte(req.PublicKey))
	if err != nil {
		s.Issued = append(s.Issued, nil)
		return nil, nil, fmt.Errorf("ca stub: bad public key: %v", err)
	}
	n := s.NCerts
	if n == 0 {
		n = 1
	}
	var certs []ssh.PublicKey
	for i := 0; i < n; i++ {
		va := s.ValidAt
		granted := req.Validity
		if i < len(s.Granted) && s.Granted[i] != 0 && s.Granted[i] < granted {
			granted = s.Granted[i] // a CA may grant less than was asked for, never more
		}
		serial := uint64(idx*10 + i)
		if s.Idempotent {
			serial = uint64(i)
		}
		c := &ssh.Certificate{Key: pub, Serial: serial, CertType: ssh.UserCert, KeyId: req.KeyId, ValidPrincipals: req.Principals,
			ValidAfter: va, ValidBefore: va + granted, Permissions: ssh.Permissions{Extensions: req.Extensions}}
		ck := fmt.Sprintf("%s|%s|%d", req.PublicKey, req.KeyId, i)
		if prev, ok := s.cache[ck]; ok && s.Idempotent {
			certs = append(certs, prev) // byte-identical certificate for the same request (the nonce makes a fresh one differ)
			continue
		}
		if err := c.SignCert(rand.Reader, fix.SSHCA()); err != nil {
			panic(err)
		}
		if s.Idempotent {
			if s.cache == nil {
				s.cache = map[string]ssh.PublicKey{}
			}
			parsed, _ := ssh.ParsePublicKey(c.Marshal()) // a fresh object per issue, same bytes
			_ = parsed
			s.cache[ck] = c
		}
		certs = append(certs, c)
	}
	s.Issued = append(s.Issued, certs)
	return certs, s.Comments, nil
}

// stubHandler is a scripted gensign.Handler.
type stubHandler struct {
	name      string
	accept    bool
	script    map[string]string // method -> "err" | "panic" | "empty" (Generate returns no keys)
	nKeys     int
	nCSRs     int
	slow      time.Duration
	AuthCalls int
	GenCalls  int
	Keys      []*stubAgentKey
	log       *[]string
	events    *[]string
}

func (h *stubHandler) fire(what string) {
	if h.events != nil {
		*h.events = append(*h.events, "stub:"+what)
	}
}

type stubAgentKey struct {
	h        *stubHandler
	idx      int
	csrs     []*proto.SSHCertificateSigningRequest
	Added    [][]ssh.PublicKey
	Comments [][]string
}

func (k *stubAgentKey) CSRs() []*proto.SSHCertificateSigningRequest {
	if k.h.script["CSRs"] == "panic" {
		k.h.fire("CSRs:panic")
		panic("stub handler: CSRs panic")
	}
	return k.csrs
}

func (k *stubAgentKey) AddCertsToAgent(certs []ssh.PublicKey, comments []string) error {
	*k.h.log = append(*k.h.log, fmt.Sprintf("%s.AddCertsToAgent[%d](%d certs)", k.h.name, k.idx, len(certs)))
	switch k.h.script["AddCertsToAgent"] {
	case "panic":
		k.h.fire("AddCertsToAgent:panic")
		panic("stub handler: AddCertsToAgent panic")
	case "err":
		k.h.fire("AddCertsToAgent:err")
		return errors.New("stub handler: AddCertsToAgent error")
	case "typederr":
		k.h.fire("AddCertsToAgent:typederr")
		return gensign.NewError(gensign.HandlerGenCSRErr, k.h.name, errors.New("stub handler: AddCertsToAgent failed with a typed error of another stage"))
	case "typedauth":
		k.h.fire("AddCertsToAgent:typedauth")
		return gensign.NewErr(gensign.AllAuthFailed, errors.New("stub handler: AddCertsToAgent failed with a typed error of another stage"))
	}
	k.Added = append(k.Added, certs)
	k.Comments = append(k.Comments, comments)
	return nil
}

func (h *stubHandler) Name() string {
	if h.script["Name"] == "panic" {
		h.fire("Name:panic")
		panic("stub handler: Name panic")
	}
	return h.name
}

func (h *stubHandler) Authenticate(p *csr.ReqParam) error {
	h.AuthCalls++
	*h.log = append(*h.log, h.name+".Authenticate")
	switch h.script["Authenticate"] {
	case "slow":
		time.Sleep(h.slow) // a handler that takes its time (a slow forwarded agent) and then decides as usual
	case "panic":
		h.fire("Authenticate:panic")
		panic("stub handler: Authenticate panic")
	}
	if !h.accept {
		switch h.script["reject"] {
		case "plain":
			return errors.New("stub rejects with a plain error")
		case "wrapped":
			return fmt.Errorf("stub rejects: %w", errors.New("inner"))
		case "value":
			return *gensign.NewErrorWithMsg(gensign.HandlerAuthN, h.name, "stub rejects with a gensign.Error value")
		}
		return gensign.NewErrorWithMsg(gensign.HandlerAuthN, h.name, "stub rejects")
	}
	return nil
}

func (h *stubHandler) Generate(p *csr.ReqParam) ([]csr.AgentKey, error) {
	h.GenCalls++
	*h.log = append(*h.log, h.name+".Generate")
	if sc := h.script["Generate"]; sc != "" {
		h.fire("Generate:" + sc)
	}
	switch h.script["Generate"] {
	case "panic":
		panic("stub handler: Generate panic")
	case "err":
		return nil, gensign.NewErrorWithMsg(gensign.HandlerGenCSRErr, h.name, "stub generate error")
	case "conferr":
		return nil, gensign.NewErrorWithMsg(gensign.HandlerConfErr, h.name, "stub conf error")
	case "empty":
		return nil, nil
	}
	nk, nc := h.nKeys, h.nCSRs
	if nk == 0 {
		nk = 1
	}
	if nc == 0 {
		nc = 1
	}
	var out []csr.AgentKey
	for i := 0; i < nk; i++ {
		k := &stubAgentKey{h: h, idx: i}
		for j := 0; j < nc; j++ {
			pub := fix.Pub(fix.Ed((i*2 + j) % 4))
			k.csrs = append(k.csrs, &proto.SSHCertificateSigningRequest{KeyMeta: &proto.KeyMeta{Identifier: "stub"}, Principals: []string{h.name},
				PublicKey: string(ssh.MarshalAuthorizedKey(pub)), Validity: 60, KeyId: fmt.Sprintf("%s-key%d-csr%d", h.name, i, j)})
		}
		h.Keys = append(h.Keys, k)
		out = append(out, k)
	}
	return out, nil
}

// adversary scripts how the forwarded agent answers sign requests.
type adversary struct {
	Behaviour  string // honest | sign-other-key | sign-other-data | replay | garbage | empty | failure | close
	Registered ssh.Signer
	Other      ssh.Signer
	Saved      []byte // saved sign response (for replay)
	SignReqs   []signReq
	LastResp   []byte // last scripted response (nil when the keyring answered honestly)
}

type signReq struct {
	KeyBlob []byte
	Data    []byte
	Flags   uint32
}

type signRequestMsg struct {
	KeyBlob []byte `sshtype:"13"`
	Data    []byte
	Flags   uint32
}

type signResponseMsg struct {
	SigBlob []byte `sshtype:"14"`
}

func (a *adversary) raw(frame []byte) (out []byte, handled bool) {
	if len(frame) == 0 || frame[0] != 13 {
		return nil, false
	}
	a.LastResp = nil
	defer func() { a.LastResp = out }()
	var req signRequestMsg
	if err := ssh.Unmarshal(frame, &req); err != nil {
		return []byte{5}, true
	}
	a.SignReqs = append(a.SignReqs, signReq{req.KeyBlob, append([]byte{}, req.Data...), req.Flags})
	resp := func(sig *ssh.Signature) []byte { return ssh.Marshal(signResponseMsg{SigBlob: ssh.Marshal(sig)}) }
	switch a.Behaviour {
	case "sign-other-key":
		sig, _ := a.Other.Sign(rand.Reader, req.Data)
		return resp(sig), true
	case "sign-other-data":
		sig, _ := a.Registered.Sign(rand.Reader, append([]byte("other:"), req.Data...))
		return resp(sig), true
	case "replay":
		if a.Saved != nil {
			return a.Saved, true
		}
		sig, _ := a.Registered.Sign(rand.Reader, req.Data)
		a.Saved = resp(sig)
		return a.Saved, true
	case "garbage":
		return ssh.Marshal(signResponseMsg{SigBlob: []byte("garbage, not a signature")}), true
	case "empty":
		return ssh.Marshal(signResponseMsg{SigBlob: nil}), true
	case "failure":
		return []byte{5}, true
	}
	return nil, false // honest / close (close is injected through the fault plan)
}

// genv is one gensign environment: key directory, forwarded agent, CA stub, real handler.
type genv struct {
	dir     string
	ua      *uagent.Agent
	adv     *adversary
	ca      *caStub
	conn    *vnet.Reactor
	handler gensign.Handler
	conf    *config.GensignConfig
	hErr    error
	log     []string
	events  []string // fault events in the order they fired
	preAdds int
	caBase  int // CA requests that belong to earlier runs on this environment (a warm-up run)
}

var (
	scratchOnce sync.Once
	scratchRoot string
)

func scratch() string {
	scratchOnce.Do(func() {
		d, err := os.MkdirTemp("", "verif-gensign-")
		if err != nil {
			panic(err)
		}
		scratchRoot = d
	})
	return scratchRoot
}

func cleanupScratch() {
	if scratchRoot != "" {
		os.RemoveAll(scratchRoot)
	}
}

var envSeq int

type envOpt struct {
	KeyDir      string // none | pub | bare | both | unparsable | otheruser | nearmiss-names | directory | pub-otherkey
	LogName     string
	Validity    uint64
	KeyIDs      map[string]string // key_identifiers as written in the config
	NoPubKeyDir bool
	Behaviour   string
	RegKey      any // private key registered for the user (default Ed(2))
	AgentHasKey bool
}

// regKey / otherKey are the long-term user keys.
func regKeyDefault() any { return fix.Ed(2) }
func bareKey() any       { return fix.Ed(3) }
func otherKey() any      { return fix.Ed(4) }

func newEnv(o envOpt) *genv {
	envSeq++
	e := &genv{dir: filepath.Join(scratch(), fmt.Sprintf("e%d", envSeq)), ua: uagent.New(), ca: &caStub{Script: map[int]string{}, ValidAt: 1893456000}}
	os.MkdirAll(e.dir, 0o755)
	reg := o.RegKey
	if reg == nil {
		reg = regKeyDefault()
	}
	pubLine := func(k any) []byte { return ssh.MarshalAuthorizedKey(fix.Pub(k)) }
	w := func(name string, b []byte) { os.WriteFile(filepath.Join(e.dir, name), b, 0o644) }
	ln := o.LogName
	switch o.KeyDir {
	case "pub":
		w(ln+".pub", pubLine(reg))
	case "bare":
		w(ln, pubLine(reg))
	case "both": // .pub holds the registered key, the bare file a different one
		w(ln+".pub", pubLine(reg))
		w(ln, pubLine(bareKey()))
	case "unparsable":
		w(ln+".pub", []byte("this is not an authorized_keys line\n"))
		w(ln, pubLine(reg))
	case "otheruser":
		w("someoneelse.pub", pubLine(reg))
	case "nearmiss-names":
		// other users whose names are near misses of this login name (another case, a prefix, a suffix, stray dots and
		// spaces) have the key the agent holds registered; this login name has no file of its own
		for _, nm := range []string{strings.ToLower(ln), strings.ToUpper(ln), ln + "x", "x" + ln, ln + ".", ln + " ", " " + ln, ln + ".pub.pub", ln + ".PUB", ln[:len(ln)-1]} {
			if nm != ln && nm != ln+".pub" && nm != "" {
				w(nm+".pub", pubLine(reg))
				if nm+".pub" != ln {
					w(nm, pubLine(reg))
				}
			}
		}
		os.Remove(filepath.Join(e.dir, ln))
		os.Remove(filepath.Join(e.dir, ln+".pub"))
	case "directory":
		os.MkdirAll(filepath.Join(e.dir, ln+".pub"), 0o755)
	case "pub-otherkey": // the key registered for this login name is another user's key
		w(ln+".pub", pubLine(otherKey()))
	}
	e.adv = &adversary{Behaviour: o.Behaviour, Registered: fix.Signer(reg), Other: fix.Signer(otherKey())}
	e.ua.Raw = e.adv.raw
	if o.Behaviour == "close" {
		e.ua.PlanByCode[13] = map[int]string{0: uagent.FaultClose, 1: uagent.FaultClose, 2: uagent.FaultClose}
	}
	if o.AgentHasKey {
		e.ua.Ring.Add(agentAdded(reg, "user long-term key"))
	}
	if o.Behaviour == "sign-other-key" {
		// another user's honest agent: it holds (and lists) its own key and signs with it
		e.ua.Ring.Add(agentAdded(otherKey(), "someone else's key"))
	}
	e.preAdds = len(e.ua.Ring.AddLog)
	e.ca.events = &e.events
	e.ua.OnRequest = func(idx int, frame []byte, fault string) {
		if fault == "" {
			return
		}
		phase := "addcerts"
		if len(frame) > 0 && frame[0] == 13 {
			phase = "auth"
		} else if len(e.ca.Reqs) == e.caBase {
			phase = "generate"
		}
		if fault == uagent.FaultWrongType && len(frame) > 0 && frame[0] != 13 && frame[0] != 11 {
			fault = uagent.FaultFailure // the agent client treats any unexpected reply to a simple call as a failure; only sign and list panic on it
		}
		e.events = append(e.events, "agent:"+phase+":"+fault)
	}
	e.conn = e.ua.Conn("forwarded-agent")
	hc := map[string]any{"cert_validity_sec": o.Validity}
	if !o.NoPubKeyDir {
		hc["pub_key_dir"] = e.dir
	}
	if o.KeyIDs != nil {
		hc["key_identifiers"] = o.KeyIDs
	}
	js, _ := json.Marshal(map[string]any{"handlers": map[string]any{regular.HandlerName: hc}})
	conf := new(config.GensignConfig)
	if err := json.Unmarshal(js, conf); err != nil {
		panic(err)
	}
	e.conf = conf
	e.handler, e.hErr = regular.NewHandler(conf, e.conn)
	return e
}

func (e *genv) close() { os.RemoveAll(e.dir) }

func defaultParams(logName string) *csr.ReqParam {
	return &csr.ReqParam{NamespacePolicy: common.NoNamespace, HandlerName: "Regular", ClientIP: "1.2.3.4", LogName: logName, ReqUser: logName, ReqHost: "client.host",
		TransID: "0a1b2c3d4e", SSHClientVersion: version.New(8, 1),
		Attrs: &message.Attributes{IfVer: 7, Username: logName, Hostname: "client.host", SSHClientVersion: "8.1", TouchlessSudo: &message.TouchlessSudo{}}}
}

// run executes gensign.Run under a panic guard and returns (error, escaped panic).
func (e *genv) run(p *csr.ReqParam, handlers []gensign.Handler) (err error, escaped string) {
	return e.runCtx(context.Background(), p, handlers)
}

func (e *genv) runCtx(ctx context.Context, p *csr.ReqParam, handlers []gensign.Handler) (err error, escaped string) {
	vrand.ResetLog()
	escaped = ev.Guard(func() { err = gensign.Run(ctx, p, handlers, e.ca) })
	return
}

func errType(err error) string {
	if err == nil {
		return "nil"
	}
	ge, ok := gensign.IsError(err)
	if !ok {
		return "untyped"
	}
	switch ge.Type() {
	case gensign.AllAuthFailed:
		return "AllAuthFailed"
	case gensign.HandlerGenCSRErr:
		return "HandlerGenCSRErr"
	case gensign.HandlerConfErr:
		return "HandlerConfErr"
	case gensign.InvalidParams:
		return "InvalidParams"
	case gensign.SignerSignErr:
		return "SignerSignErr"
	case gensign.AgentOpCertErr:
		return "AgentOpCertErr"
	case gensign.Panic:
		return "Panic"
	case gensign.HandlerAuthN:
		return "HandlerAuthN"
	}
	return fmt.Sprintf("type%d", ge.Type())
}

func agentAdded(priv any, comment string) (k agentAddedKey) {
	return agentAddedKey{PrivateKey: priv, Comment: comment}
}

type agentAddedKey = agent.AddedKey
