//go:build verif

// vc-gensign: checks C01–C04 over the real gensign.Run / regular.Handler with a scripted agent, CA stub and stub handlers.
package main

import (
	"os"

	"github.com/theparanoids/ysshra/internal/zzverif/ev"
)

func main() {
	c := ev.Main(map[string]string{"C01": "exploration", "C02": "exploration", "C03": "model_checking", "C04": "fault_enumeration"})
	// C01, C02, C04 run in one child process each (ev.Isolated): a crash of the code under test that no caller can recover
	// from becomes a violation with the case in hand; C03 is sharded into processes anyway
	switch c.Prop {
	case "C01":
		c.Isolated(func() { checkC01(c) })
	case "C02":
		c.Isolated(func() { checkC02(c) })
	case "C03":
		checkC03(c)
	case "C04":
		c.Isolated(func() { checkC04(c) })
	}
	os.Exit(c.Finish())
}
