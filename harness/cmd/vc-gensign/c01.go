//go:build verif

package main

import (
	"bytes"
	"context"
	"encoding/json"
	"fmt"
	"github.com/theparanoids/ysshra/internal/zzverif/uagent"
	"github.com/theparanoids/ysshra/zzverifrt/vnet"
	"strings"
	"time"

	"os"
	"path/filepath"

	"golang.org/x/crypto/ssh"

	"github.com/theparanoids/ysshra/common"
	"github.com/theparanoids/ysshra/csr"
	"github.com/theparanoids/ysshra/gensign"
	"github.com/theparanoids/ysshra/gensign/regular"
	"github.com/theparanoids/ysshra/internal/zzverif/ev"
	"github.com/theparanoids/ysshra/internal/zzverif/fix"
	"github.com/theparanoids/ysshra/zzverifrt/vrand"
)

type c01Case struct {
	Kind      string // single | handlers | sequence
	LogName   string
	Policy    string
	HardKey   bool
	NilParams bool
	NilAttrs  bool `json:",omitempty"` // request parameters without client attributes (Attrs == nil)
	ClaimUser string
	KeyDir    string
	Agent     string   // behaviour; "honest-with-key" / "honest-without" / adversary behaviours
	RegType   string   // ed25519 | ecdsa | rsa
	Handlers  []string `json:",omitempty"` // A | R | real
	RealOK    bool     `json:",omitempty"`
	Seq       []string `json:",omitempty"` // behaviours of consecutive runs
}

var c01Challenges = map[string]string{}

func c01RegKey(t string) any {
	switch t {
	case "ecdsa":
		return fix.EC(384)
	case "rsa":
		return fix.RSA(2048)
	}
	return regKeyDefault()
}

func c01Env(k c01Case, behaviour string) *genv {
	o := envOpt{KeyDir: k.KeyDir, LogName: k.LogName, Validity: 43200, KeyIDs: map[string]string{"default": "key-default", "rsa": "key-rsa"}, RegKey: c01RegKey(k.RegType)}
	switch behaviour {
	case "honest-with-key":
		o.Behaviour, o.AgentHasKey = "honest", true
	case "honest-without":
		o.Behaviour = "honest"
	default:
		o.Behaviour = behaviour
		o.AgentHasKey = behaviour == "replay"
	}
	return newEnv(o)
}

func c01Params(k c01Case) *csr.ReqParam {
	if k.NilParams {
		return nil
	}
	p := defaultParams(k.LogName)
	p.NamespacePolicy = common.NamespacePolicy(k.Policy)
	if k.NilAttrs {
		p.Attrs = nil
		if k.ClaimUser != "" {
			p.ReqUser = k.ClaimUser
		}
		return p
	}
	p.Attrs.HardKey = k.HardKey
	if k.ClaimUser != "" {
		p.ReqUser, p.Attrs.Username = k.ClaimUser, k.ClaimUser
	}
	return p
}

// c01RegisteredPub: the public key registered on the server for the login name under the documented lookup order.
func c01RegisteredPub(k c01Case) ssh.PublicKey {
	switch k.KeyDir {
	case "pub", "bare", "both":
		return fix.Pub(c01RegKey(k.RegType))
	case "pub-otherkey":
		return fix.Pub(otherKey())
	}
	return nil // none, unparsable (.pub exists but does not parse), otheruser, directory
}

// c01Observe evaluates one finished run against the reference predicate. It returns authOK.
func c01Observe(c *ev.Ctx, k c01Case, e *genv, p *csr.ReqParam, err error, esc string, addsBefore, caBefore, signBefore int, tag string) bool {
	if esc != "" {
		c.Violation("C01:panic-escaped:"+ev.PanicSite(esc), esc, k)
		return false
	}
	reg := c01RegisteredPub(k)
	newSign := e.adv.SignReqs[signBefore:]
	sigValid := false
	if len(newSign) > 0 && reg != nil {
		last := newSign[len(newSign)-1]
		if e.adv.LastResp == nil { // the keyring answered
			sigValid = e.ua.Ring.Has(reg.Marshal()) && bytes.Equal(last.KeyBlob, reg.Marshal()) && e.adv.Behaviour != "close"
		} else {
			var resp signResponseMsg
			var sig ssh.Signature
			if ssh.Unmarshal(e.adv.LastResp, &resp) == nil && ssh.Unmarshal(resp.SigBlob, &sig) == nil {
				sigValid = reg.Verify(last.Data, &sig) == nil
			}
		}
	}
	authOK := p != nil && p.Attrs != nil && p.NamespacePolicy == common.NoNamespace && !p.Attrs.HardKey && reg != nil && sigValid
	caCalls, adds := len(e.ca.Reqs)-caBefore, len(e.ua.Ring.AddLog)-addsBefore
	c.Outcome(fmt.Sprintf("%s/authOK=%v/%s/ca=%d/adds=%d", tag, authOK, errType(err), caCalls, adds))
	if authOK {
		c.Nontrivial(ev.JSON(k) + tag)
		c.Count("runs_with_valid_proof_of_possession", 1)
		if err == nil {
			c.Count("runs_issuing_a_certificate", 1)
		}
	}
	if !authOK {
		if caCalls > 0 {
			c.Violation("C01:ca-called-without-proof:"+c01WhyKey(k, p, reg, sigValid), fmt.Sprintf("%d signing request(s) reached the CA although %s", caCalls, c01Why(k, p, reg, sigValid)), k)
		}
		if adds > 0 {
			c.Violation("C01:agent-add-without-proof:"+c01WhyKey(k, p, reg, sigValid), fmt.Sprintf("%d identities were added to the requester's agent although %s", adds, c01Why(k, p, reg, sigValid)), k)
		}
		if k.NilAttrs {
			// the handler crashes on such a request (C04 decides the error kind: Panic); here only "not a success"
			if err == nil {
				c.Violation("C01:wrong-error:nil", "run reported success for a request without client attributes", k)
			}
		} else if errType(err) != "AllAuthFailed" {
			c.Violation("C01:wrong-error:"+errType(err), fmt.Sprintf("run returned %s (%v), expected AllAuthFailed", errType(err), err), k)
		}
	}
	// (2) the challenge
	for _, sr := range newSign {
		if reg != nil && !bytes.Equal(sr.KeyBlob, reg.Marshal()) {
			c.Violation("C01:challenge-under-wrong-key", "the agent was asked to sign with a key other than the one registered for the login name", k)
		}
		if len(sr.Data) < 64 {
			c.Violation("C01:challenge-too-short", fmt.Sprintf("challenge of %d bytes", len(sr.Data)), k)
		}
		fresh := false
		for _, rd := range vrand.Log() {
			if len(rd) >= 64 && bytes.Equal(rd, sr.Data) {
				fresh = true
			}
		}
		if !fresh {
			c.Violation("C01:challenge-not-from-csprng", fmt.Sprintf("the challenge %x… is not the bytes drawn from the CSPRNG during this run", sr.Data[:min(8, len(sr.Data))]), k)
		}
		if prev, dup := c01Challenges[string(sr.Data)]; dup {
			c.Violation("C01:challenge-repeated", "the same challenge was used in two runs ("+prev+" and "+tag+")", k)
		}
		c01Challenges[string(sr.Data)] = tag + ev.JSON(k)
	}
	if reg == nil && len(newSign) > 0 && k.KeyDir != "unparsable" {
		c.Violation("C01:challenge-without-registered-key", "a challenge was issued although no key is registered for the login name", k)
	}
	return authOK
}

func c01Why(k c01Case, p *csr.ReqParam, reg ssh.PublicKey, sigValid bool) string {
	switch {
	case p == nil:
		return "the request parameters are nil"
	case p.Attrs == nil:
		return "the request carries no client attributes (no handler can have authenticated it)"
	case p.NamespacePolicy != common.NoNamespace:
		return "a foreign namespace was requested"
	case p.Attrs.HardKey:
		return "a hardware key was requested"
	case reg == nil:
		return "no parsable key is registered for the login name (" + k.KeyDir + ")"
	case !sigValid:
		return "the agent returned no valid signature over this run's challenge (" + k.Agent + ")"
	}
	return "?"
}

func c01WhyKey(k c01Case, p *csr.ReqParam, reg ssh.PublicKey, sigValid bool) string {
	switch {
	case p == nil:
		return "nil-params"
	case p.Attrs == nil:
		return "no-client-attributes"
	case p.NamespacePolicy != common.NoNamespace:
		return "foreign-namespace"
	case p.Attrs.HardKey:
		return "hard-key"
	case reg == nil:
		return "no-registered-key:" + k.KeyDir
	}
	return "no-valid-signature:" + k.Agent
}

func c01Single(c *ev.Ctx, k c01Case) {
	c.Eval()
	c.Crumb(k)
	e := c01Env(k, k.Agent)
	defer e.close()
	if e.hErr != nil {
		c.Violation("C01:harness:handler", e.hErr.Error(), k)
		return
	}
	p := c01Params(k)
	err, esc := e.run(p, []gensign.Handler{e.handler})
	c01Observe(c, k, e, p, err, esc, boolInt(e.uaAddsPre()), 0, 0, "single")
}

func boolInt(n int) int { return n }

// uaAddsPre: adds done by the harness itself before the run (the user's long-term key).
func (e *genv) uaAddsPre() int { return e.preAdds }

func c01Handlers(c *ev.Ctx, k c01Case) {
	c.Eval()
	c.Crumb(k)
	kk := k
	kk.KeyDir, kk.LogName, kk.Policy = "pub", "alice", "NONS"
	kk.Agent = "honest-with-key"
	if !k.RealOK {
		kk.Agent = "honest-without"
	}
	e := c01Env(kk, kk.Agent)
	defer e.close()
	var hs []gensign.Handler
	var stubs []*stubHandler
	firstAccept := -1
	slowList, genFails := false, false
	for i, h := range k.Handlers {
		switch h {
		case "A", "R", "Rplain", "Rwrapped", "Rvalue":
			s := &stubHandler{name: fmt.Sprintf("stub%d", i), accept: h == "A", log: &e.log, script: map[string]string{"reject": strings.ToLower(strings.TrimPrefix(h, "R"))}}
			stubs = append(stubs, s)
			hs = append(hs, s)
			if h == "A" && firstAccept < 0 {
				firstAccept = i
			}
		case "Ag", "Age":
			// a handler that authenticates the request and then cannot produce a signing request (error / no keys): the run
			// ends there; no OTHER handler - none of which authenticated anything - may generate in its place
			s := &stubHandler{name: fmt.Sprintf("stub%d", i), accept: true, log: &e.log, script: map[string]string{"Generate": map[string]string{"Ag": "err", "Age": "empty"}[h]}}
			stubs = append(stubs, s)
			hs = append(hs, s)
			if firstAccept < 0 {
				firstAccept = i
				genFails = true
			}
		case "S", "SR":
			// a slow handler: its Authenticate answers (accept / reject) only after most of the request's deadline has passed
			s := &stubHandler{name: fmt.Sprintf("stub%d", i), accept: h == "S", slow: 2600 * time.Millisecond, log: &e.log, script: map[string]string{"Authenticate": "slow"}}
			stubs = append(stubs, s)
			hs = append(hs, s)
			if h == "S" && firstAccept < 0 {
				firstAccept = i
			}
			slowList = true
		case "P":
			// a handler whose Authenticate crashes: it has NOT authenticated anybody
			s := &stubHandler{name: fmt.Sprintf("stub%d", i), accept: true, log: &e.log, script: map[string]string{"Authenticate": "panic"}}
			stubs = append(stubs, s)
			hs = append(hs, s)
		case "real":
			stubs = append(stubs, nil)
			hs = append(hs, e.handler)
			if k.RealOK && firstAccept < 0 {
				firstAccept = i
			}
		}
	}
	pre := e.preAdds
	ctx := context.Background()
	if slowList {
		// the request carries a deadline (as the real front end's does); whoever answers late, a certificate is signed only
		// for a handler whose OWN Authenticate returned success
		var cancel context.CancelFunc
		ctx, cancel = context.WithTimeout(ctx, 4*time.Second)
		defer cancel()
	}
	err, esc := e.runCtx(ctx, defaultParams("alice"), hs)
	if esc != "" {
		c.Violation("C01:panic-escaped:"+ev.PanicSite(esc), esc, k)
		return
	}
	// a crashing Authenticate before any handler accepted: the run ends there (C04 decides the error kind); whatever it
	// returns, nobody proved possession, so nothing may be generated, signed or added
	crashAt := -1
	for i, h := range k.Handlers {
		if h == "P" && (firstAccept < 0 || i < firstAccept) {
			crashAt = i
			break
		}
	}
	if crashAt >= 0 {
		c.Outcome(fmt.Sprintf("handlers/%d/crash-at=%d/%s", len(hs), crashAt, errType(err)))
		c.Nontrivial(ev.JSON(k))
		if err == nil {
			c.Violation("C01:handlers:crashed-authentication-taken-for-success", fmt.Sprintf("handler %d crashed in Authenticate and the run reported success (%v)", crashAt, k.Handlers), k)
		}
		if adds := len(e.ua.Ring.AddLog) - pre; len(e.ca.Reqs) != 0 || adds != 0 {
			c.Violation("C01:handlers:signed-after-crashed-authentication", fmt.Sprintf("handler %d crashed in Authenticate, yet CA calls=%d agent adds=%d (%v)", crashAt, len(e.ca.Reqs), adds, k.Handlers), k)
		}
		for i, s := range stubs {
			if s != nil && s.GenCalls > 0 {
				c.Violation("C01:handlers:generate-without-auth", fmt.Sprintf("Generate was called on handler %d although the list crashed in Authenticate at %d", i, crashAt), k)
			}
		}
		return
	}
	c.Outcome(fmt.Sprintf("handlers/%d/first=%d/%s", len(hs), firstAccept, errType(err)))
	c.Nontrivial(ev.JSON(k))
	adds := len(e.ua.Ring.AddLog) - pre
	if firstAccept < 0 {
		if errType(err) != "AllAuthFailed" {
			c.Violation("C01:handlers:none-accepts-wrong-error:"+errType(err), fmt.Sprintf("no handler authenticates, run returned %s", errType(err)), k)
		}
		if len(e.ca.Reqs) != 0 || adds != 0 {
			c.Violation("C01:handlers:none-accepts-but-signed", fmt.Sprintf("no handler authenticates, yet CA calls=%d agent adds=%d", len(e.ca.Reqs), adds), k)
		}
		for i, s := range stubs {
			if s != nil && s.GenCalls > 0 {
				c.Violation("C01:handlers:generate-without-auth", fmt.Sprintf("Generate was called on handler %d although nothing authenticated", i), k)
			}
		}
		return
	}
	if genFails {
		c.Outcome("handlers/generate-fails/" + errType(err))
		if err == nil {
			c.Violation("C01:handlers:success-although-generation-failed", fmt.Sprintf("handler %d authenticated and failed to generate, the run reported success (%v)", firstAccept, k.Handlers), k)
		}
		for i, s := range stubs {
			if s != nil && i != firstAccept && s.GenCalls > 0 {
				c.Violation("C01:handlers:generate-without-auth", fmt.Sprintf("Generate was called on handler %d, whose Authenticate never succeeded (handler %d authenticated and failed to generate; %v)", i, firstAccept, k.Handlers), k)
			}
		}
		if len(e.ca.Reqs) != 0 || adds != 0 {
			c.Violation("C01:handlers:signed-for-unauthenticated-handler", fmt.Sprintf("handler %d authenticated and failed to generate, yet CA calls=%d agent adds=%d (%v)", firstAccept, len(e.ca.Reqs), adds, k.Handlers), k)
		}
		return
	}
	if err != nil && slowList {
		// an implementation may give up on a handler that takes most of the request's deadline; the statement only
		// demands that nothing is then generated, signed or added
		c.Outcome("handlers/slow/gave-up/" + errType(err))
		if len(e.ca.Reqs) != 0 || adds != 0 {
			c.Violation("C01:handlers:none-accepts-but-signed", fmt.Sprintf("the run failed (%s), yet CA calls=%d agent adds=%d", errType(err), len(e.ca.Reqs), adds), k)
		}
		for i, s := range stubs {
			if s != nil && s.GenCalls > 0 {
				c.Violation("C01:handlers:generate-without-auth", fmt.Sprintf("Generate was called on handler %d although the run failed", i), k)
			}
		}
		return
	}
	if err != nil {
		c.Violation("C01:handlers:accepting-list-fails:"+errType(err), fmt.Sprintf("handler %d authenticates but the run failed: %v", firstAccept, err), k)
		return
	}
	// the CSR must come from the first accepting handler, Generate on no other
	for i, s := range stubs {
		if s == nil {
			continue
		}
		want := 0
		if i == firstAccept {
			want = 1
		}
		if s.GenCalls != want {
			c.Violation("C01:handlers:wrong-generator", fmt.Sprintf("Generate calls on handler %d = %d, want %d (first accepting handler is %d of %v)", i, s.GenCalls, want, firstAccept, k.Handlers), k)
		}
	}
	if len(e.ca.Reqs) != 1 {
		c.Violation("C01:handlers:ca-calls", fmt.Sprintf("%d CA calls, want 1", len(e.ca.Reqs)), k)
		return
	}
	fromReal := len(e.ca.Reqs[0].KeyId) > 0 && e.ca.Reqs[0].KeyId[0] == '{'
	if k.Handlers[firstAccept] == "real" != fromReal {
		c.Violation("C01:handlers:csr-from-wrong-handler", fmt.Sprintf("the signing request (KeyId %q) does not come from the first accepting handler %d of %v", e.ca.Reqs[0].KeyId, firstAccept, k.Handlers), k)
	} else if !fromReal && e.ca.Reqs[0].KeyId != fmt.Sprintf("stub%d-key0-csr0", firstAccept) {
		c.Violation("C01:handlers:csr-from-wrong-handler", fmt.Sprintf("the signing request (KeyId %q) does not come from the first accepting handler %d of %v", e.ca.Reqs[0].KeyId, firstAccept, k.Handlers), k)
	}
}

func c01Sequence(c *ev.Ctx, k c01Case) {
	c.Eval()
	c.Crumb(k)
	k.KeyDir, k.LogName, k.Policy = "pub", "alice", "NONS"
	e := c01Env(k, "replay") // agent holds the key; behaviour is switched per run
	defer e.close()
	for i, b := range k.Seq {
		kk := k
		kk.Agent = b
		switch b {
		case "honest-with-key":
			e.adv.Behaviour = "honest"
		default:
			e.adv.Behaviour = b
		}
		addsBefore, caBefore, signBefore := len(e.ua.Ring.AddLog), len(e.ca.Reqs), len(e.adv.SignReqs)
		p := c01Params(kk)
		err, esc := e.run(p, []gensign.Handler{e.handler})
		c01Observe(c, kk, e, p, err, esc, addsBefore, caBefore, signBefore, fmt.Sprintf("seq%d/%d", i+1, len(k.Seq)))
	}
}

// c01Rotation: the registered key is replaced in place between runs of the same process; proof of possession must be
// demanded for the key registered NOW (a cached key file, key object or verification result would keep the old one).
func c01Rotation(c *ev.Ctx, k c01Case) {
	c.Eval()
	c.Crumb(k)
	k.LogName, k.Policy = "alice", "NONS"
	fileName := "alice.pub"
	if k.KeyDir == "bare" {
		fileName = "alice"
	} else {
		k.KeyDir = "pub"
	}
	e := c01Env(k, "honest-with-key") // file = key A, agent holds A
	defer e.close()
	step := func(kk c01Case, tag string) {
		addsBefore, caBefore, signBefore := len(e.ua.Ring.AddLog), len(e.ca.Reqs), len(e.adv.SignReqs)
		p := c01Params(kk)
		// a fresh handler per run (as cmd/gensign does) and the long-lived one are both exercised
		h := e.handler
		if kk.NilParams {
			h, _ = regular.NewHandler(e.conf, e.conn)
			kk.NilParams = false
			p = c01Params(kk)
		}
		err, esc := e.run(p, []gensign.Handler{h})
		c01Observe(c, kk, e, p, err, esc, addsBefore, caBefore, signBefore, tag)
	}
	kA := k
	kA.Agent = "honest-with-key"
	step(kA, "rotation/1-before")
	// the administrator replaces the registered key with key B, in place
	os.WriteFile(filepath.Join(e.dir, fileName), ssh.MarshalAuthorizedKey(fix.Pub(otherKey())), 0o644)
	kB := k
	kB.KeyDir, kB.Agent = "pub-otherkey", "honest-with-key" // registered key is now B; the agent still holds only A
	step(kB, "rotation/2-old-key-after-rotation")
	kBfresh := kB
	kBfresh.NilParams = true // marker: use a freshly constructed handler
	step(kBfresh, "rotation/3-old-key-fresh-handler")
	e.ua.Ring.Add(agentAdded(otherKey(), "new key"))
	step(kB, "rotation/4-new-key")
}

func checkC01(c *ev.Ctx) {
	defer cleanupScratch()
	c.Rule("real gensign.Run + regular.Handler (built by NewHandler from a JSON config) over a scripted forwarded agent and a recording CA, in a process whose own SSH_AUTH_SOCK leads to an honest agent holding every registered key (it must never be asked): single runs = full product login{alice,bob,ünï} x policy{NONS,NSOK} x hard-key x params{set,nil,without client attributes} x client claim{self,mallory} x key directory{none,.pub,bare,both,unparsable,other user,directory,another user's key; near-miss file names of other users (other case, prefix, suffix, stray dot/space) for 5 login names} x agent{honest with key, without, signs with another key, signs other data, garbage, empty, failure, close}; handler lists = every list of length 0..3 over {accepting stub, rejecting stub (typed error; in the first two positions also plain, wrapped and by-value errors), stub whose Authenticate crashes, real handler} x real handler ok/not, plus 9 lists whose first accepting handler then fails to generate (error / no keys) in front of other handlers, plus 7 lists with one or two handlers each of which answers only after 2.6 s of a 4 s request deadline (real time); run sequences of length 2 (thorough 3) over {honest, replay, other data, failure}, and key-rotation sequences (registered key file replaced in place between runs; old key must be refused by the long-lived and by a fresh handler, new key accepted). Oracle: independent proof-of-possession predicate; challenge = bytes drawn from the csprng seam in this run. non-trivial = run with a valid proof of possession or a handler list; distinct by case")
	// the PROCESS has an agent of its own behind SSH_AUTH_SOCK that holds every registered key and signs honestly (the RA's
	// own environment): proof of possession is what the FORWARDED agent of the request shows, nothing else; whatever lands
	// in this ambient agent was put there by mistake
	ambient := uagent.New()
	for _, rk := range []any{regKeyDefault(), fix.EC(384), fix.RSA(2048)} {
		ambient.Ring.Add(agentAdded(rk, "ambient copy of a registered key"))
	}
	ambient.Listen("/verif/ambient-agent-of-the-ra-process")
	defer vnet.Unregister("/verif/ambient-agent-of-the-ra-process")
	os.Setenv("SSH_AUTH_SOCK", "/verif/ambient-agent-of-the-ra-process")
	defer os.Unsetenv("SSH_AUTH_SOCK")
	ambientAdds := len(ambient.Ring.AddLog)
	defer func() {
		if n := len(ambient.Ring.AddLog) - ambientAdds; n > 0 || len(ambient.Log) > 0 {
			c.Violation("C01:ambient-agent-used", fmt.Sprintf("the agent behind the RA process's own SSH_AUTH_SOCK received %d requests (%d identities added) during the check: a request is authenticated against ITS forwarded agent only", len(ambient.Log), n), map[string]any{"ambient": true})
		}
	}()
	c.Assume("statistical quality of the OS CSPRNG is trusted; 'fresh' is decided as 'the 64 bytes drawn from crypto/rand during this Authenticate call'", "key files are looked up as '<name>.pub' then '<name>' (documented order)")
	if c.ReplayCase != nil {
		var k c01Case
		json.Unmarshal(c.ReplayCase, &k)
		switch k.Kind {
		case "handlers":
			c01Handlers(c, k)
		case "sequence":
			c01Sequence(c, k)
		case "rotation":
			c01Rotation(c, k)
		default:
			c01Single(c, k)
		}
		return
	}
	regTypes := []string{"ed25519"}
	logins := []string{"alice", "bob", "ünï"}
	if c.Thorough() {
		regTypes = []string{"ed25519", "ecdsa", "rsa"}
	}
	n := 0
	for _, rt := range regTypes {
		for _, ln := range logins {
			for _, pol := range []string{"NONS", "NSOK"} {
				for _, hk := range []bool{false, true} {
					for _, np := range []bool{false, true} {
						for _, claim := range []string{"", "mallory"} {
							for _, kd := range []string{"pub", "none", "bare", "both", "unparsable", "otheruser", "directory", "pub-otherkey"} {
								for _, ag := range []string{"honest-with-key", "honest-without", "sign-other-key", "sign-other-data", "garbage", "empty", "failure", "close"} {
									k := c01Case{Kind: "single", LogName: ln, Policy: pol, HardKey: hk, NilParams: np, ClaimUser: claim, KeyDir: kd, Agent: ag, RegType: rt}
									c01Single(c, k)
									n++
									if n%613 == 1 {
										c.Sample(k)
									}
								}
							}
						}
					}
				}
			}
		}
	}
	// request parameters without client attributes: no handler can have authenticated such a request
	for _, pol := range []string{"NONS", "NSOK"} {
		for _, ag := range []string{"honest-with-key", "honest-without", "sign-other-key", "failure"} {
			for _, kd := range []string{"pub", "none"} {
				c01Single(c, c01Case{Kind: "single", LogName: "alice", Policy: pol, NilAttrs: true, KeyDir: kd, Agent: ag, RegType: "ed25519"})
				n++
			}
		}
	}
	// every registered key type against every agent behaviour (the quick product above uses Ed25519 keys only)
	for _, rt := range []string{"rsa", "ecdsa"} {
		for _, ag := range []string{"honest-with-key", "honest-without", "sign-other-key", "sign-other-data", "garbage", "empty", "failure", "close"} {
			for _, kd := range []string{"pub", "bare"} {
				c01Single(c, c01Case{Kind: "single", LogName: "alice", Policy: "NONS", KeyDir: kd, Agent: ag, RegType: rt})
				n++
			}
		}
	}
	// login names in several cases, with only near-miss file names present in the key directory (the keys of OTHER users)
	for _, ln := range []string{"Alice", "alice", "ALICE", "bob.smith", "Ünï"} {
		for _, ag := range []string{"honest-with-key", "sign-other-key", "failure"} {
			for _, claim := range []string{"", "mallory"} {
				c01Single(c, c01Case{Kind: "single", LogName: ln, Policy: "NONS", ClaimUser: claim, KeyDir: "nearmiss-names", Agent: ag, RegType: "ed25519"})
				n++
			}
		}
	}
	c.Set("single_runs", n)
	// handler lists
	var lists [][]string
	var rec func(pre []string, d int)
	rec = func(pre []string, d int) {
		lists = append(lists, append([]string{}, pre...))
		if d == 3 {
			return
		}
		for _, h := range []string{"A", "R", "real", "Rplain", "Rvalue", "Rwrapped", "P"} {
			if d >= 2 && len(h) > 1 && h != "real" {
				continue // the untyped-rejection stubs in the first two positions only (keeps the list count at 172)
			}
			rec(append(pre, h), d+1)
		}
	}
	rec(nil, 0)
	for _, l := range lists {
		for _, ok := range []bool{true, false} {
			c01Handlers(c, c01Case{Kind: "handlers", Handlers: l, RealOK: ok})
		}
	}
	// slow handlers under a request deadline of 4 s (each answers after 2.6 s): the late answer of one handler is that
	// handler's answer
	slow := [][]string{{"S", "R"}, {"S", "SR"}, {"SR", "A"}, {"R", "S", "SR"}, {"S", "real"}, {"SR", "R"}, {"S", "SR", "A"}}
	for _, l := range slow {
		c01Handlers(c, c01Case{Kind: "handlers", Handlers: l, RealOK: false})
	}
	// the first accepting handler cannot generate (error / no keys), in front of rejecting, accepting and real handlers
	genfail := [][]string{{"Ag", "R"}, {"Ag", "A"}, {"R", "Ag", "R"}, {"Ag", "real"}, {"Age", "R"}, {"Age", "A"}, {"Ag", "Rplain", "A"}, {"Ag"}, {"R", "Age", "real"}}
	for _, l := range genfail {
		for _, ok := range []bool{true, false} {
			c01Handlers(c, c01Case{Kind: "handlers", Handlers: l, RealOK: ok})
		}
	}
	c.Set("handler_lists", len(lists)*2+len(slow)+2*len(genfail))
	c.Sample(c01Case{Kind: "handlers", Handlers: []string{"R", "real", "A"}, RealOK: true})
	// run sequences
	beh := []string{"honest-with-key", "replay", "sign-other-data", "failure"}
	L := 2
	if c.Thorough() {
		L = 3
	}
	var seqs [][]string
	var rs func(pre []string)
	rs = func(pre []string) {
		if len(pre) == L {
			seqs = append(seqs, append([]string{}, pre...))
			return
		}
		for _, b := range beh {
			rs(append(pre, b))
		}
	}
	rs(nil)
	for _, rt := range regTypes {
		for _, s := range seqs {
			c01Sequence(c, c01Case{Kind: "sequence", Seq: s, RegType: rt})
		}
	}
	for _, kd := range []string{"pub", "bare"} {
		c01Rotation(c, c01Case{Kind: "rotation", KeyDir: kd, RegType: "ed25519"})
	}
	c.Set("run_sequences", len(seqs)*len(regTypes)+2)
	c.Sample(c01Case{Kind: "sequence", Seq: []string{"replay", "replay"}, RegType: "ed25519"})
	if c.Counter("runs_issuing_a_certificate") == 0 {
		c.Violation("C01:harness:vacuous", "no run issued a certificate: the driver never reaches the interesting branch", nil)
	}
}
