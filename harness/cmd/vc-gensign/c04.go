//go:build verif

package main

import (
	"encoding/json"
	"fmt"
	"strings"
	"time"

	"golang.org/x/crypto/ssh"

	"github.com/theparanoids/ysshra/gensign"
	"github.com/theparanoids/ysshra/internal/zzverif/ev"
	"github.com/theparanoids/ysshra/internal/zzverif/fix"
	"github.com/theparanoids/ysshra/internal/zzverif/introspect"
	"github.com/theparanoids/ysshra/internal/zzverif/uagent"
)

// c04Case is one deviation vector from the all-succeeds default.
type c04Case struct {
	Handler    string            // real | stub
	NCerts     int               // certificates the CA returns per request
	OldCerts   int               // certificates of an earlier run already in the agent (real handler)
	NKeys      int               `json:",omitempty"` // stub: agent keys
	NCSRs      int               `json:",omitempty"` // stub: requests per key
	AgentFault map[string]string `json:",omitempty"` // request index -> kind
	CAFault    map[string]string `json:",omitempty"` // call index -> err | panic
	StubFault  map[string]string `json:",omitempty"` // method -> err | panic | empty | conferr
	NilAttrs   bool              `json:",omitempty"` // params.Attrs nil: the real handler dereferences it (panic inside a Handler method)
	NilHandler bool              `json:",omitempty"`
	Warm       bool              `json:",omitempty"` // real handler: a fault-free run on the SAME handler object precedes (fault indices count from the start of the second run)
	WarmAgent  string            `json:",omitempty"` // with Warm: how the agent answers EVERY signature request of the second run (failure | garbage | empty | sign-other-data): the run fails with AllAuthFailed
	Then       string            `json:",omitempty"` // stub: a further handler AFTER the scripted one that would accept the request: stub | real
}

// c04Expect maps the first fault that fired to the error kind the statement demands.
func c04Expect(first string) string {
	p := strings.Split(first, ":")
	switch p[0] {
	case "":
		return "nil"
	case "agent":
		if len(p) > 2 && p[2] == uagent.FaultWrongType {
			return "Panic" // the agent client panics on a reply of the wrong type; Run must turn that into a Panic error
		}
		switch p[1] {
		case "auth":
			return "AllAuthFailed"
		case "generate":
			return "HandlerGenCSRErr"
		}
		return "AgentOpCertErr"
	case "ca":
		if p[1] == "panic" {
			return "Panic"
		}
		return "SignerSignErr"
	case "stub":
		if p[2] == "panic" {
			return "Panic"
		}
		switch p[1] + ":" + p[2] {
		case "Generate:err", "Generate:empty":
			return "HandlerGenCSRErr"
		case "Generate:conferr":
			return "HandlerConfErr"
		case "AddCertsToAgent:err", "AddCertsToAgent:typederr", "AddCertsToAgent:typedauth":
			return "AgentOpCertErr" // the stage that failed names the kind, whatever type the cause has
		}
	case "params":
		return "Panic"
	}
	return "?"
}

func c04Run(c *ev.Ctx, k c04Case) {
	c.Eval()
	e := newEnv(envOpt{KeyDir: "pub", LogName: "alice", Validity: 43200, KeyIDs: map[string]string{"default": "slot"}, Behaviour: "honest", AgentHasKey: true})
	defer e.close()
	e.ca.NCerts = k.NCerts
	e.ca.Comments = []string{"comment-a"}
	for i := 0; i < k.OldCerts; i++ {
		old := fix.SSHCert(fix.Pub(fix.Ed(i)), "old", 0, 1<<40, nil, "alice")
		e.ua.Ring.Add(agentAddedKey{PrivateKey: fix.Ed(i), Certificate: old, Comment: "paranoids.regular-cert"})
	}
	preBlobs := map[string]bool{}
	for _, id := range e.ua.Ring.Keys {
		preBlobs[string(id.Blob)] = true
	}
	warmBase := 0
	if k.Warm {
		// a long-lived handler: it has already served one request successfully (whatever it remembers of that request must
		// not make it miss a fault in this one)
		if werr, wesc := e.run(defaultParams("alice"), []gensign.Handler{e.handler}); werr != nil || wesc != "" {
			c.Violation("C04:harness:warm-run", fmt.Sprint(werr, wesc), k)
			return
		}
		warmBase, e.caBase = len(e.ua.Log), len(e.ca.Reqs)
		e.events = nil
		if k.WarmAgent != "" {
			e.adv.Behaviour = k.WarmAgent
		}
		for _, id := range e.ua.Ring.Keys {
			preBlobs[string(id.Blob)] = true
		}
	}
	for is, kind := range k.AgentFault {
		var i int
		fmt.Sscanf(is, "%d", &i)
		e.ua.Plan[warmBase+i] = kind
	}
	for is, kind := range k.CAFault {
		var i int
		fmt.Sscanf(is, "%d", &i)
		e.ca.Script[i] = kind
	}
	var hs []gensign.Handler
	var stub *stubHandler
	if k.Handler == "stub" {
		stub = &stubHandler{name: "stub", accept: true, script: k.StubFault, nKeys: k.NKeys, nCSRs: k.NCSRs, log: &e.log, events: &e.events}
		if stub.script == nil {
			stub.script = map[string]string{}
		}
		hs = []gensign.Handler{stub}
		if k.Then != "" && k.StubFault["Name"] == "panic" {
			stub.accept = false // it rejects; the run names it in the log line of the rejection and crashes there
		}
		switch k.Then {
		case "stub":
			hs = append(hs, &stubHandler{name: "later-stub", accept: true, script: map[string]string{}, nKeys: 1, nCSRs: 1, log: &e.log, events: &e.events})
		case "real":
			hs = append(hs, e.handler)
		}
	} else {
		hs = []gensign.Handler{e.handler}
	}
	if k.NilHandler {
		hs = append([]gensign.Handler{nil}, hs...)
		e.events = append(e.events, "params:nil-handler")
	}
	p := defaultParams("alice")
	if k.NilAttrs {
		p.Attrs = nil
		e.events = append(e.events, "params:nil-attrs")
	}
	err, esc := e.run(p, hs)
	if esc != "" {
		c.Violation("C04:crash:"+ev.PanicSite(esc), "a panic escaped gensign.Run:\n"+esc, k)
		return
	}
	// "the process keeps running": the handler object must be usable afterwards - no lock of its own left held by the
	// failed run, and (real handler) a following fault-free run on the SAME handler completes and succeeds
	if k.Handler == "real" && !k.NilHandler && !k.NilAttrs && e.handler != nil {
		if held := introspect.LocksHeld(e.handler); len(held) > 0 {
			c.Violation("C04:lock-left-held", fmt.Sprintf("after the run (first fault %v) the handler still holds %v: a later run on the same handler would block for ever", e.events, held), k)
			return
		}
		if len(e.events) > 0 {
			saved := append([]string{}, e.events...)
			e.ua.Plan, e.ca.Script = map[int]string{}, map[int]string{}
			type res struct {
				err error
				esc string
			}
			done := make(chan res, 1)
			go func() { er, es := e.run(p, hs); done <- res{er, es} }()
			select {
			case r := <-done:
				if r.esc != "" || (r.err != nil && !strings.Contains(strings.Join(saved, " "), "close") && !strings.Contains(strings.Join(saved, " "), "oversized") && !strings.Contains(strings.Join(saved, " "), "huge")) {
					c.Violation("C04:run-after-failed-run-fails", fmt.Sprintf("after a run that failed (%v) a fault-free run on the same handler failed: %v %s", saved, r.err, r.esc), k)
				}
			case <-time.After(60 * time.Second):
				c.Violation("C04:run-after-failed-run-never-returns", fmt.Sprintf("after a run that failed (%v) a fault-free run on the same handler did not return within 60 s", saved), k)
				return
			}
			e.events = saved
		}
	}
	if k.WarmAgent != "" {
		// the agent proves nothing in this run, whatever it proved in an earlier one
		c.Outcome("warm/" + k.WarmAgent + "/" + errType(err))
		c.Nontrivial(ev.JSON(k))
		if errType(err) != "AllAuthFailed" {
			c.Violation("C04:wrong-kind:agent:auth:want=AllAuthFailed:got="+errType(err), fmt.Sprintf("second request on a long-lived handler, the agent answers every signature request with %q: the run returned %s (%v)", k.WarmAgent, errType(err), err), k)
		}
		if len(e.ca.Reqs) != e.caBase {
			c.Violation("C04:success-without-signing", "the failed run nevertheless sent a request to the CA", k)
		}
		return
	}
	first := ""
	if len(e.events) > 0 {
		first = e.events[0]
	}
	want := c04Expect(first)
	got := errType(err)
	c.Outcome(fmt.Sprintf("%s/first=%s/%s", k.Handler, first, got))
	if first != "" {
		c.Nontrivial(ev.JSON(k))
	}
	if got != want {
		c.Violation(fmt.Sprintf("C04:wrong-kind:%s:want=%s:got=%s", faultClass(first), want, got),
			fmt.Sprintf("first fault %q → run returned %s (%v), the statement demands %s", first, got, err, want), k)
	}
	if k.Then != "" && want == "Panic" && len(e.ca.Reqs) > 0 {
		c.Violation("C04:signed-after-handler-panic", fmt.Sprintf("a handler panicked (%s), yet the run went on to a later handler and the CA was asked to sign %d request(s)", first, len(e.ca.Reqs)), k)
	}
	if k.Then != "" {
		return // (the delivery oracles below are written for a single handler)
	}
	// certificates in the agent vs what the CA signed
	issued := map[string]bool{}
	nIssued := 0
	for _, certs := range e.ca.Issued[min(e.caBase, len(e.ca.Issued)):] { // (this run's: a warm-up run has its own)
		for _, ct := range certs {
			issued[string(ct.Marshal())] = true
			nIssued++
		}
	}
	if k.Handler == "real" {
		inAgent := 0
		for _, id := range e.ua.Ring.Keys {
			if preBlobs[string(id.Blob)] {
				continue
			}
			pk, perr := ssh.ParsePublicKey(id.Blob)
			if perr != nil {
				continue
			}
			if _, isCert := pk.(*ssh.Certificate); isCert {
				inAgent++
				if !issued[string(id.Blob)] {
					c.Violation("C04:unsigned-certificate-in-agent", "the agent holds a certificate the CA did not sign in this run", k)
				}
			}
		}
		if err == nil {
			if len(e.ca.Reqs)-e.caBase != 1 || nIssued != k.NCerts {
				c.Violation("C04:success-without-signing", fmt.Sprintf("success reported with %d CA calls and %d certificates issued (want 1 and %d)", len(e.ca.Reqs)-e.caBase, nIssued, k.NCerts), k)
			}
			if inAgent != nIssued {
				c.Violation("C04:success-but-certificate-missing", fmt.Sprintf("success reported, CA issued %d certificates, the agent holds %d of them", nIssued, inAgent), k)
			}
		}
	} else if stub != nil {
		totalCSRs := 0
		for ki, sk := range stub.Keys {
			totalCSRs += len(sk.csrs)
			handed := 0
			for _, a := range sk.Added {
				for _, ct := range a {
					handed++
					if !issued[string(ct.Marshal())] {
						c.Violation("C04:unsigned-certificate-in-agent", "a certificate the CA did not sign was handed to the agent", k)
					}
				}
			}
			// certificates of a key are added only after all its requests were signed
			if handed > 0 && handed != len(sk.csrs)*k.NCerts {
				c.Violation("C04:partial-key-added", fmt.Sprintf("key %d: %d certificates handed to the agent, expected all %d or none", ki, handed, len(sk.csrs)*k.NCerts), k)
			}
			if err == nil && handed != len(sk.csrs)*k.NCerts {
				c.Violation("C04:success-but-certificate-missing", fmt.Sprintf("success reported but key %d received %d of %d certificates", ki, handed, len(sk.csrs)*k.NCerts), k)
			}
		}
		if err == nil && len(e.ca.Reqs) != totalCSRs {
			c.Violation("C04:success-without-signing", fmt.Sprintf("success reported with %d CA calls for %d requests", len(e.ca.Reqs), totalCSRs), k)
		}
	}
}

func faultClass(first string) string {
	p := strings.Split(first, ":")
	if len(p) >= 2 {
		return p[0] + ":" + p[1]
	}
	return first
}

func checkC04(c *ev.Ctx) {
	defer cleanupScratch()
	c.Rule("deviation-bounded fault enumeration over the real gensign.Run: default = everything succeeds; deviations = {failure, close, empty, unknown type, truncated, oversized} at every forwarded-agent request index (challenge, private-key add, list, removes, certificate adds) for CA replies of 1..3 certificates and 0/2 certificates of an earlier run; CA error / panic / error that is itself a typed gensign error of another stage at every call (likewise for the stub's AddCertsToAgent); stub-handler faults in Name/Authenticate/Generate/CSRs/AddCertsToAgent for 1..2 keys x 1..2 requests, and a stub crashing in Name / Authenticate in front of a handler (stub, real) that would accept; nil attributes / nil handler (panic inside the handler loop); agent replies of the wrong message type (the agent client panics inside the handler); the same agent faults on a handler object that has already served one request; after every faulted run of the real handler: no lock of the handler left held and a fault-free run on the SAME handler completes; sequences of three runs that share ONE agent/ssh.AgentKey object (idempotent CA) with one agent fault (thorough: two) at every request index of the first or second run. quick: every single deviation; thorough: every pair. Oracle: error-kind table from the statement keyed by the first fault that fired. non-trivial = run in which a fault fired; distinct by deviation vector")
	c.Assume("well-formed agent replies of the wrong message type are excluded (x/crypto's client panics on them by design; gensign.Run's recover turns that into a Panic error, which is checked separately below)")
	if c.ReplayCase != nil {
		var rk c04ReuseCase
		if json.Unmarshal(c.ReplayCase, &rk) == nil && rk.Reuse {
			c04Reuse(c, rk)
			return
		}
		var k c04Case
		json.Unmarshal(c.ReplayCase, &k)
		c04Run(c, k)
		return
	}
	var cases []c04Case
	kinds := uagent.AllFaults
	type dev struct{ where, idx, kind string }
	for _, nc := range []int{1, 2, 3} {
		for _, old := range []int{0, 2} {
			nReq := 3 + old + nc // sign, add key, list, removes, certificate adds
			cases = append(cases, c04Case{Handler: "real", NCerts: nc, OldCerts: old})
			var devs []dev
			for i := 0; i < nReq+1; i++ {
				for _, kd := range kinds {
					devs = append(devs, dev{"agent", fmt.Sprint(i), kd})
				}
			}
			devs = append(devs, dev{"ca", "0", "err"}, dev{"ca", "0", "panic"})
			mk := func(ds ...dev) c04Case {
				k := c04Case{Handler: "real", NCerts: nc, OldCerts: old, AgentFault: map[string]string{}, CAFault: map[string]string{}}
				for _, d := range ds {
					if d.where == "agent" {
						k.AgentFault[d.idx] = d.kind
					} else {
						k.CAFault[d.idx] = d.kind
					}
				}
				return k
			}
			for i, d := range devs {
				cases = append(cases, mk(d))
				if c.Thorough() {
					for _, d2 := range devs[i+1:] {
						if d2.where == d.where && d2.idx == d.idx {
							continue
						}
						cases = append(cases, mk(d, d2))
					}
				}
			}
		}
	}
	for _, idx := range []string{"0", "2", "3"} { // the challenge, the listing of the refresh, a removal
		cases = append(cases, c04Case{Handler: "real", NCerts: 1, OldCerts: 2, AgentFault: map[string]string{idx: uagent.FaultWrongType}})
	}
	cases = append(cases, c04Case{Handler: "real", NCerts: 1, NilAttrs: true}, c04Case{Handler: "real", NCerts: 1, NilHandler: true}, c04Case{Handler: "stub", NCerts: 1, NKeys: 1, NCSRs: 1, NilHandler: true})
	for _, nk := range []int{1, 2} {
		for _, ncsr := range []int{1, 2} {
			for _, nc := range []int{1, 2} {
				cases = append(cases, c04Case{Handler: "stub", NCerts: nc, NKeys: nk, NCSRs: ncsr})
				for _, sf := range [][2]string{{"Name", "panic"}, {"Authenticate", "panic"}, {"Generate", "err"}, {"Generate", "conferr"}, {"Generate", "empty"}, {"Generate", "panic"},
					{"CSRs", "panic"}, {"AddCertsToAgent", "err"}, {"AddCertsToAgent", "panic"}, {"AddCertsToAgent", "typederr"}, {"AddCertsToAgent", "typedauth"}} {
					cases = append(cases, c04Case{Handler: "stub", NCerts: nc, NKeys: nk, NCSRs: ncsr, StubFault: map[string]string{sf[0]: sf[1]}})
				}
				for j := 0; j < nk*ncsr; j++ {
					for _, kd := range []string{"err", "panic", "typederr", "typedconferr"} {
						cases = append(cases, c04Case{Handler: "stub", NCerts: nc, NKeys: nk, NCSRs: ncsr, CAFault: map[string]string{fmt.Sprint(j): kd}})
						if c.Thorough() {
							cases = append(cases, c04Case{Handler: "stub", NCerts: nc, NKeys: nk, NCSRs: ncsr, CAFault: map[string]string{fmt.Sprint(j): kd}, StubFault: map[string]string{"AddCertsToAgent": "err"}})
						}
					}
				}
			}
		}
	}
	// the same fault vectors on a handler object that has already served one request (2 certificates of that run are in
	// the agent, so the request indices are those of OldCerts=nc)
	for _, nc := range []int{1, 2} {
		for i := 0; i < 3+nc+nc+1; i++ {
			for _, kd := range []string{uagent.FaultFailure, uagent.FaultClose, uagent.FaultEmpty} {
				cases = append(cases, c04Case{Handler: "real", NCerts: nc, Warm: true, AgentFault: map[string]string{fmt.Sprint(i): kd}})
			}
		}
		cases = append(cases, c04Case{Handler: "real", NCerts: nc, Warm: true, CAFault: map[string]string{"1": "err"}})
		for _, beh := range []string{"failure", "garbage", "empty", "sign-other-data"} {
			cases = append(cases, c04Case{Handler: "real", NCerts: nc, Warm: true, WarmAgent: beh})
		}
	}
	// a handler that crashes in Name / Authenticate in front of one that would accept: the crash ends the run
	for _, then := range []string{"stub", "real"} {
		for _, sf := range [][2]string{{"Name", "panic"}, {"Authenticate", "panic"}} {
			cases = append(cases, c04Case{Handler: "stub", NCerts: 1, NKeys: 1, NCSRs: 1, StubFault: map[string]string{sf[0]: sf[1]}, Then: then})
		}
	}
	// sequences of runs sharing one long-lived agent key object (a retrying front end), one fault per sequence
	rc := c04ReuseCases(c.Thorough())
	for _, k := range rc {
		c04Reuse(c, k)
	}
	c.Set("reuse_sequences", len(rc))
	c.Set("deviation_vectors", len(cases))
	// (main runs this check in a child process: a crash that gensign.Run cannot recover from - a panic on a goroutine it
	// started - kills that child and is reported as "the process does not keep running")
	for i, k := range cases {
		if c.Expired("deviation vectors") {
			break
		}
		c.Crumb(k)
		c04Run(c, k)
		if i%(len(cases)/5+1) == 2 {
			c.Sample(k)
		}
	}
}
