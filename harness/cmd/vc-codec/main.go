//go:build verif

// vc-codec: checks C05 (KeyID codec), C14 (request parameters), C15 (client messages), C19 (cert type function).
package main

import (
	"os"

	"github.com/theparanoids/ysshra/internal/zzverif/ev"
)

func main() {
	c := ev.Main(map[string]string{"C05": "exploration", "C14": "exploration", "C15": "exploration", "C19": "exploration"})
	switch c.Prop {
	case "C05":
		c.Isolated(func() { checkC05(c) }) // child process: an unrecoverable crash is a violation, not a dead check
	case "C14":
		c.Isolated(func() { checkC14(c) }) // child process: an unrecoverable crash is a violation, not a dead check
	case "C15":
		c.Isolated(func() { checkC15(c) }) // child process: an unrecoverable crash is a violation, not a dead check
	case "C19":
		c.Isolated(func() { checkC19(c) }) // child process: an unrecoverable crash is a violation, not a dead check
	}
	os.Exit(c.Finish())
}
