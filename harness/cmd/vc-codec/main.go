//go:build verif

// vc-codec: checks C05 (KeyID codec), C14 (request parameters), C15 (client messages), C19 (cert type function).
package main

import (
	"os"

	"github.com/theparanoids/ysshra/internal/zzverif/ev"
)

func main() {
	c := ev.Main(map[string]string{"C05": "exploration", "C14": "exploration", "C15": "exploration", "C19": "exploration"})
	switch c.Prop {
	case "C05":
		checkC05(c)
	case "C14":
		checkC14(c)
	case "C15":
		checkC15(c)
	case "C19":
		checkC19(c)
	}
	os.Exit(c.Finish())
}
