//go:build verif

package main

import (
	"encoding/json"
	"fmt"
	"reflect"
	"strings"

	"golang.org/x/crypto/ssh"

	"github.com/theparanoids/ysshra/internal/zzverif/ev"
	certutil "github.com/theparanoids/ysshra/sshutils/cert"
)

// c19Case is one point of the complete attribute space (or one catalogue entry when Raw is set).
type c19Case struct {
	FF, HW, HL, NC bool
	Touch          int
	Usage          int
	Ver            int
	Crit           string  // "absent", "nilmap", "empty", "set", "other"
	Raw            *string `json:",omitempty"` // undecodable catalogue text, used verbatim as KeyId
	NilCert        bool
	Prins          []string
	PrinsNil       bool
	TransID        string
	Ext            string   `json:",omitempty"` // certificate EXTENSIONS (not critical options): "" none | pty | hosts | hosts-empty - no input of the property
	Nulls          []string `json:",omitempty"` // KeyID members written as JSON null (present, so "required" holds; they decode as zero values)
}

var c19TypeNames = map[string]string{
	"touchsudo": "TouchSudo", "touchless": "Touchless", "touchlesssudo": "TouchlessSudo", "firefighter": "FireFighterSudo",
	"nonce": "Nonce", "inagent": "TouchlessInAgent", "sudoinagent": "TouchlessSudoInAgent",
}

// c19Expect is the decision table written from the property statement. It returns the expected type name ("" = unknown).
// c19Effective: what a KeyID text with null members decodes to (null leaves the zero value).
func c19Effective(k c19Case) c19Case {
	for _, f := range k.Nulls {
		switch f {
		case "isFirefighter":
			k.FF = false
		case "isHWKey":
			k.HW = false
		case "isHeadless":
			k.HL = false
		case "isNonce":
			k.NC = false
		case "touchPolicy":
			k.Touch = 0
		case "ver":
			k.Ver = 0
		case "transID":
			k.TransID = ""
		case "usage":
			k.Usage = 0
		}
	}
	return k
}

func c19Expect(k c19Case) string {
	if k.NilCert || k.Raw != nil {
		return ""
	}
	k = c19Effective(k)
	// decodes? version supported and attributes consistent (the C05 rules), all required fields present by construction
	if k.Ver != 1 {
		return ""
	}
	if k.HL && (k.HW || k.FF || k.Touch != 1) {
		return ""
	}
	if k.NC && (k.FF || k.HL || k.Touch != 1) {
		return ""
	}
	sudoHosts := k.Crit == "set"
	switch {
	case k.NC:
		return "nonce"
	case k.FF && k.HW:
		return "firefighter"
	case k.FF && !k.HW:
		if sudoHosts {
			return "sudoinagent"
		}
		return "inagent"
	case k.Touch == 3 || k.Touch == 2:
		return "touchsudo"
	case k.Touch == 1:
		if sudoHosts {
			return "touchlesssudo"
		}
		return "touchless"
	}
	return ""
}

func c19KeyIDText(k c19Case) string {
	if k.Raw != nil {
		return *k.Raw
	}
	m := map[string]any{
		"prins": []string{"alice"}, "transID": k.TransID, "reqUser": "u", "reqIP": "1.2.3.4", "reqHost": "h",
		"isFirefighter": k.FF, "isHWKey": k.HW, "isHeadless": k.HL, "isNonce": k.NC,
		"usage": k.Usage, "touchPolicy": k.Touch, "ver": k.Ver,
	}
	for _, f := range k.Nulls {
		m[f] = nil
	}
	b, _ := json.Marshal(m)
	return string(b)
}

func c19Cert(k c19Case) *ssh.Certificate {
	if k.NilCert {
		return nil
	}
	c := &ssh.Certificate{KeyId: c19KeyIDText(k)}
	switch k.Ext {
	case "pty":
		c.Extensions = map[string]string{"permit-pty": "", "permit-port-forwarding": ""}
	case "hosts":
		c.Extensions = map[string]string{certutil.CriticalOptionTouchlessSudoHosts: "host1,host2", "permit-pty": ""}
	case "hosts-empty":
		c.Extensions = map[string]string{certutil.CriticalOptionTouchlessSudoHosts: ""}
	}
	switch k.Crit {
	case "absent":
		c.CriticalOptions = map[string]string{}
	case "nilmap":
		c.CriticalOptions = nil
	case "empty":
		c.CriticalOptions = map[string]string{certutil.CriticalOptionTouchlessSudoHosts: ""}
	case "set":
		c.CriticalOptions = map[string]string{certutil.CriticalOptionTouchlessSudoHosts: "host1,host2"}
	case "other":
		c.CriticalOptions = map[string]string{"force-command": "x", "touchless-sudo-host": "near-miss"}
	}
	return c
}

func c19Run(c *ev.Ctx, k c19Case) {
	c.Eval()
	want := c19Expect(k)
	var got certutil.Type
	var label string
	var lerr error
	var prins []string
	if p := ev.Guard(func() {
		cert := c19Cert(k)
		got = certutil.GetType(cert)
		label, lerr = certutil.Label(cert)
		in := k.Prins // the caller's own long-lived list, reused across calls
		if k.PrinsNil {
			in = nil
		}
		prins = certutil.GetPrincipals(in, got)
	}); p != "" {
		c.Violation("C19:panic:"+ev.PanicSite(p), "panic: "+p, k)
		return
	}
	// the returned principals belong to the caller, and so does the input list: after both were overwritten, the same call
	// gives the same answer again
	if p := ev.Guard(func() {
		in := k.Prins
		if k.PrinsNil {
			in = nil
		}
		if len(prins) > 0 && len(in) > 0 && &prins[0] == &in[0] {
			return // the result IS the caller's list (handed back unchanged, or labelled in place): nothing of its own to overwrite
		}
		first := fmt.Sprintf("%q", prins)
		var inCopy []string
		if in != nil {
			inCopy = append([]string{}, in...)
		}
		for i := range prins {
			prins[i] = "scribbled-by-the-caller"
		}
		again := certutil.GetPrincipals(inCopy, got)
		if fmt.Sprintf("%q", again) != first {
			c.Violation("C19:prins:depends-on-what-the-caller-did-to-an-earlier-result", fmt.Sprintf("GetPrincipals(%q) gave %s, and after the caller overwrote that result it gives %q", in, first, again), k)
		}
		if fmt.Sprintf("%q", inCopy) != fmt.Sprintf("%q", in) {
			c.Count("calls_that_modified_their_input_list", 1) // not demanded by the statement
		}
		prins = again
	}); p != "" {
		c.Violation("C19:panic:"+ev.PanicSite(p), "panic: "+p, k)
		return
	}
	gotName := certutil.TypeLabel[got]
	wantName := c19TypeNames[want]
	c.Outcome(gotName + "/" + k.Crit)
	if want != "" {
		c.Nontrivial(fmt.Sprintf("%v%v%v%v/%d/%s", k.FF, k.HW, k.HL, k.NC, k.Touch, k.Crit))
	}
	if gotName != wantName {
		c.Violation(fmt.Sprintf("C19:type:want=%s:got=%s", orUnknown(wantName), orUnknown(gotName)),
			fmt.Sprintf("derived type %q, decision table says %q for %s", orUnknown(gotName), orUnknown(wantName), ev.JSON(k)), k)
		return
	}
	if want == "" {
		if got != certutil.UnknownCertType {
			c.Violation("C19:type:unknown-nonzero", "unknown type expected", k)
		}
		if lerr == nil || label != "" {
			c.Violation("C19:label:unknown-has-label", fmt.Sprintf("unknown type must have no label, got %q err=%v", label, lerr), k)
		}
		if prins != nil {
			c.Violation("C19:prins:unknown-not-withheld", fmt.Sprintf("unknown type must withhold principals, got %q", prins), k)
		}
		return
	}
	if wl := wantName + "SSH-" + c19Effective(k).TransID; lerr != nil || label != wl {
		c.Violation("C19:label:"+want, fmt.Sprintf("label %q err=%v, want %q", label, lerr, wl), k)
	}
	// suffix table
	suffix := ""
	switch want {
	case "touchsudo":
		suffix = ":touch"
	case "touchless", "touchlesssudo":
		suffix = ":notouch"
	}
	in := k.Prins
	if k.PrinsNil {
		in = nil
	}
	var wp []string
	for _, p := range in {
		wp = append(wp, p+suffix)
	}
	if suffix == "" {
		if !reflect.DeepEqual(prins, in) {
			c.Violation("C19:prins:changed:"+want, fmt.Sprintf("principals %q, want unchanged %q", prins, in), k)
		}
	} else if len(prins) != len(wp) || (len(wp) > 0 && !reflect.DeepEqual(prins, wp)) {
		c.Violation("C19:prins:suffix:"+want, fmt.Sprintf("principals %q, want %q", prins, wp), k)
	}
}

// c19Reused classifies one certificate object again and again while its critical options are changed in between.
func c19Reused(c *ev.Ctx, base c19Case, seq []string, inPlace bool) {
	c.Eval()
	base.Crit = seq[0]
	cert := c19Cert(base)
	for step, crit := range seq {
		k := base
		k.Crit = crit
		if step > 0 {
			fresh := c19Cert(k).CriticalOptions
			if inPlace && cert.CriticalOptions != nil && fresh != nil {
				for key := range cert.CriticalOptions {
					delete(cert.CriticalOptions, key)
				}
				for key, v := range fresh {
					cert.CriticalOptions[key] = v
				}
			} else {
				cert.CriticalOptions = fresh
			}
		}
		var got certutil.Type
		var label string
		var lerr error
		if p := ev.Guard(func() { got = certutil.GetType(cert); label, lerr = certutil.Label(cert) }); p != "" {
			c.Violation("C19:panic:"+ev.PanicSite(p), "panic: "+p, k)
			return
		}
		want := c19Expect(k)
		gotName, wantName := certutil.TypeLabel[got], c19TypeNames[want]
		rep := map[string]any{"base": base, "option_states_in_order": seq[:step+1], "edited_in_place": inPlace}
		if gotName != wantName {
			c.Violation(fmt.Sprintf("C19:reused-object:type:want=%s:got=%s", orUnknown(wantName), orUnknown(gotName)),
				fmt.Sprintf("one certificate object, critical options %v in this order: the last classification gives %q, the decision table says %q", seq[:step+1], orUnknown(gotName), orUnknown(wantName)), rep)
			return
		}
		if want != "" {
			if wl := wantName + "SSH-" + base.TransID; lerr != nil || label != wl {
				c.Violation("C19:reused-object:label:"+want, fmt.Sprintf("one certificate object, critical options %v in this order: label %q err=%v, want %q", seq[:step+1], label, lerr, wl), rep)
				return
			}
		}
	}
}

func orUnknown(s string) string {
	if s == "" {
		return "unknown"
	}
	return s
}

func checkC19(c *ev.Ctx) {
	c.Rule("complete product: 4 flags x touchPolicy{-1,0,1,2,3,4,7} x usage{0,1} x ver{0,1,2} x critical option{absent,nil map,empty,set,other keys} x principal lists{nil,[],[a],[a,b],[''], three with principals that already end in ':touch' / ':notouch'} x transID{'',hex,utf8}, plus undecodable KeyID catalogue (incl. every required member absent while another one is repeated), the nil certificate, 960 certificates whose EXTENSIONS carry a touchless-sudo-hosts entry or ordinary permits (no input of the decision), 960 sequences on ONE certificate object whose critical options change between calls (every ordered pair of option states, new map / edited in place), and KeyIDs with one or two null-valued members (36 null sets x 7 bases) each classified right after each of 8 predecessors; each compared with a decision table written from the statement; every type value (incl. unknown and out-of-range) is formatted with %v / %s / String() before the product (a caller's log line must not change later answers). non-trivial = decodable KeyID selecting a known type; distinct by (flags,touch,critical option)")
	c.Assume("KeyID texts are built by the harness with encoding/json from a map, so 'decodes' is known by construction", "cert types are compared through their public label table")
	if c.ReplayCase != nil {
		var ru struct {
			Base    c19Case  `json:"base"`
			Seq     []string `json:"option_states_in_order"`
			InPlace bool     `json:"edited_in_place"`
		}
		if json.Unmarshal(c.ReplayCase, &ru); len(ru.Seq) > 0 {
			c19Reused(c, ru.Base, ru.Seq, ru.InPlace)
			return
		}
		var k c19Case
		json.Unmarshal(c.ReplayCase, &k)
		c19Run(c, k)
		return
	}
	// a caller that formats certificate types for its logs (every value incl. unknown and out-of-range ones) before the
	// classifications: formatting a type is a pure function and must not change what later certificates get
	if p := ev.Guard(func() {
		for t := -2; t <= 12; t++ {
			ct := certutil.Type(t)
			_ = fmt.Sprintf("%v|%s|%d", ct, ct, ct)
			if st, ok := any(ct).(fmt.Stringer); ok {
				_ = st.String()
			}
		}
	}); p != "" {
		c.Violation("C19:panic:"+ev.PanicSite(p), "formatting a certificate type crashed: "+p, nil)
	}
	bools := []bool{false, true}
	// (the last three: principals that already end in a type label - the suffix is a function of the type alone)
	prinLists := [][]string{nil, {}, {"a"}, {"a", "b"}, {""}, {"svc:touch"}, {"ops:notouch", "x"}, {":touch", ":notouch", "a:touch:notouch"}}
	n := 0
	var all []c19Case
	for _, ff := range bools {
		for _, hw := range bools {
			for _, hl := range bools {
				for _, nc := range bools {
					for _, touch := range []int{-1, 0, 1, 2, 3, 4, 7} {
						for _, usage := range []int{0, 1} {
							for _, ver := range []int{1, 0, 2} {
								for _, crit := range []string{"absent", "nilmap", "empty", "set", "other"} {
									for pi, pl := range prinLists {
										for _, tid := range []string{"0a1b2c3d4e", "", "ü-\"x"} {
											k := c19Case{FF: ff, HW: hw, HL: hl, NC: nc, Touch: touch, Usage: usage, Ver: ver, Crit: crit, Prins: pl, PrinsNil: pi == 0, TransID: tid}
											c19Run(c, k)
											all = append(all, k)
											n++
											if n%9973 == 0 {
												c.Sample(k)
											}
										}
									}
								}
							}
						}
					}
				}
			}
		}
	}
	raws := []string{"", "null", "[]", "{}", "7", `"s"`, "true", "not json", `{"ver":1}`, `{"ver":"1"}`,
		`{"prins":["a"],"transID":"t","reqUser":"u","reqIP":"i","reqHost":"h","isFirefighter":false,"isHWKey":false,"isHeadless":false,"isNonce":false,"touchPolicy":1}`,
		`{"prins":["a"],"transID":"t","reqUser":"u","reqIP":"i","reqHost":"h","isFirefighter":false,"isHWKey":false,"isHeadless":false,"isNonce":false,"touchpolicy":1,"ver":1}`,
		`{"prins":["a"],"transID":"t","reqUser":"u","reqIP":"i","reqHost":"h","isFirefighter":false,"isHWKey":false,"isHeadless":false,"isNonce":false,"touchPolicy":1,"ver":1`,
		"\xff\xfe", `{"prins":"a","ver":1}`}
	// a required member absent while other required members are repeated (legal JSON; the count of required names is then
	// right although one name is missing): for every absent member x every repeated member, with a touch policy that would
	// select a rule
	{
		members := []string{"prins", "transID", "reqUser", "reqIP", "reqHost", "isFirefighter", "isHWKey", "isHeadless", "isNonce", "touchPolicy"}
		val := map[string]string{"prins": `["alice"]`, "transID": `"t1"`, "reqUser": `"u"`, "reqIP": `"1.2.3.4"`, "reqHost": `"h"`, "isFirefighter": "false", "isHWKey": "true",
			"isHeadless": "false", "isNonce": "false", "touchPolicy": "1", "ver": "1", "usage": "0"}
		for _, absent := range members {
			for _, rep := range members {
				if rep == absent {
					continue
				}
				var parts []string
				for _, m := range append(append([]string{}, members...), "usage", "ver") {
					if m == absent {
						continue
					}
					parts = append(parts, fmt.Sprintf("%q:%s", m, val[m]))
					if m == rep {
						parts = append(parts, fmt.Sprintf("%q:%s", m, val[m]))
					}
				}
				raws = append(raws, "{"+strings.Join(parts, ",")+"}")
			}
		}
	}
	for i := range raws {
		for _, crit := range []string{"absent", "set"} {
			k := c19Case{Raw: &raws[i], Crit: crit, Prins: []string{"a"}}
			c19Run(c, k)
			if i == 1 {
				c.Sample(k)
			}
		}
	}
	// certificate extensions are no input of the decision: the same product of flags x touch policies x critical-option
	// states with extensions that merely LOOK like the touchless-sudo option
	for _, ff := range bools {
		for _, hw := range bools {
			for _, hl := range bools {
				for _, nc := range bools {
					for _, touch := range []int{0, 1, 2, 3} {
						for _, crit := range []string{"absent", "nilmap", "empty", "set", "other"} {
							for _, ext := range []string{"pty", "hosts", "hosts-empty"} {
								c19Run(c, c19Case{FF: ff, HW: hw, HL: hl, NC: nc, Touch: touch, Ver: 1, Crit: crit, Ext: ext, Prins: []string{"a"}, TransID: "aa11"})
							}
						}
					}
				}
			}
		}
	}
	c19Run(c, c19Case{NilCert: true, Prins: []string{"a"}})
	// ONE certificate object whose critical options (and KeyID) change between calls, as a caller editing a certificate
	// before re-signing would do: every ordered pair of option states, by assigning a new map and by editing the map in
	// place; the answer is the one for what the object says NOW
	{
		states := []string{"absent", "set", "empty", "nilmap", "other"}
		nr := 0
		for _, ff := range bools {
			for _, hw := range bools {
				for _, nc := range bools {
					for _, touch := range []int{1, 2, 3} {
						for _, inPlace := range bools {
							for _, a := range states {
								for _, b := range states {
									if a == b {
										continue
									}
									c19Reused(c, c19Case{FF: ff, HW: hw, NC: nc, Touch: touch, Ver: 1, TransID: "aa11", Prins: []string{"a"}}, []string{a, b, a}, inPlace)
									nr++
								}
							}
						}
					}
				}
			}
		}
		c.Set("reused_object_sequences", nr)
	}
	// null-valued members (legal JSON, the member is present): every single null and every pair of nulls over a base of
	// each type, each one classified right after every predecessor of a representative set, so that a value inherited from
	// the previous certificate (pooled or cached decode state) changes the answer
	{
		preds := []c19Case{
			{Touch: 1, Ver: 1, Crit: "absent", TransID: "aaaa", Prins: []string{"a"}},                     // touchless
			{Touch: 3, Ver: 1, Crit: "absent", TransID: "bbbb", Prins: []string{"a"}},                     // touch sudo
			{Touch: 1, Ver: 1, Crit: "set", TransID: "cccc", Prins: []string{"a"}},                        // touchless sudo
			{FF: true, HW: true, Touch: 3, Ver: 1, Crit: "absent", TransID: "dddd", Prins: []string{"a"}}, // firefighter
			{FF: true, Touch: 1, Ver: 1, Crit: "set", TransID: "eeee", Prins: []string{"a"}},              // sudo in agent
			{NC: true, Touch: 1, Ver: 1, Crit: "absent", TransID: "ffff", Prins: []string{"a"}},           // nonce
			{HL: true, Touch: 1, Usage: 1, Ver: 1, Crit: "absent", TransID: "0000", Prins: []string{"a"}}, // headless touchless
			{Touch: 7, Ver: 2, Crit: "absent", TransID: "1111", Prins: []string{"a"}},                     // undecodable (version)
		}
		members := []string{"isFirefighter", "isHWKey", "isHeadless", "isNonce", "touchPolicy", "ver", "transID", "usage"}
		var nullSets [][]string
		for i, a := range members {
			nullSets = append(nullSets, []string{a})
			for _, b := range members[i+1:] {
				nullSets = append(nullSets, []string{a, b})
			}
		}
		nn := 0
		for _, base := range preds[:7] {
			for _, ns := range nullSets {
				for _, pred := range preds {
					k := base
					k.Nulls = ns
					c19Run(c, pred)
					c19Run(c, k)
					nn++
				}
			}
		}
		c.Set("null_member_cases_after_each_predecessor", nn)
		c.Sample(c19Case{Touch: 3, HW: true, Ver: 1, Crit: "absent", TransID: "t", Prins: []string{"a"}, Nulls: []string{"touchPolicy"}})
	}
	// second pass in a stride order: the function must not depend on what it was asked before (caches, pooled objects)
	for i := 0; i < len(all); i++ {
		c19Run(c, all[(i*7919)%len(all)])
	}
	c.Set("second_pass_in_stride_order", len(all))
}
