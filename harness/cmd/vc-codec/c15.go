//go:build verif

package main

import (
	"crypto/x509"
	"encoding/json"
	"fmt"
	"reflect"
	"strconv"
	"strings"
	"unicode"

	"github.com/theparanoids/ysshra/internal/zzverif/ev"
	"github.com/theparanoids/ysshra/message"
)

type c15Case struct {
	Kind  string              // "attrs" | "text"
	Attrs *message.Attributes `json:",omitempty"`
	Text  string              `json:",omitempty"`
	Note  string              `json:",omitempty"`
}

func c15Clean(s string) bool {
	for _, r := range s {
		if unicode.IsSpace(r) || r == '@' {
			return false
		}
	}
	return true
}

// c15NormExts applies the documented JSON normalisation (number typing, empty->nil) to an extension map.
func c15NormExts(m map[string]interface{}) map[string]interface{} {
	if len(m) == 0 {
		return nil
	}
	b, _ := json.Marshal(m)
	var out map[string]interface{}
	json.Unmarshal(b, &out)
	return out
}

func c15Attrs(c *ev.Ctx, a message.Attributes) {
	c.Eval()
	cas := c15Case{Kind: "attrs", Attrs: &a}
	var text string
	var err, derr error
	var back *message.Attributes
	if p := ev.Guard(func() {
		aa := a
		text, err = (&aa).Marshal()
		if err == nil {
			back, derr = message.Unmarshal(text)
		}
	}); p != "" {
		c.Violation("C15:panic:"+ev.PanicSite(p), p, cas)
		return
	}
	wantErr := a.SSHClientVersion == "" || a.Username == "" || a.Hostname == ""
	if (err != nil) != wantErr {
		c.Violation(fmt.Sprintf("C15:marshal:refused=%v:want=%v", err != nil, wantErr), fmt.Sprintf("Marshal err=%v for %s", err, ev.JSON(a)), cas)
		return
	}
	if err != nil {
		c.Outcome("encoder-refused")
		return
	}
	if a.IfVer >= 7 {
		c.Outcome("json")
		c.Nontrivial(text)
		if derr != nil {
			c.Violation("C15:json:decode-fails", fmt.Sprintf("Unmarshal(Marshal(a)) failed: %v; text=%s", derr, text), cas)
			return
		}
		want := a
		if want.TouchlessSudo == nil {
			want.TouchlessSudo = &message.TouchlessSudo{}
		}
		want.Exts = c15NormExts(a.Exts)
		if !reflect.DeepEqual(*back, want) {
			c.Violation("C15:json:roundtrip", fmt.Sprintf("got %s want %s (text %s)", ev.JSON(back), ev.JSON(want), text), cas)
		}
		return
	}
	// legacy format
	clean := c15Clean(a.SSHClientVersion) && c15Clean(a.Username) && c15Clean(a.Hostname) && (a.TouchlessSudo == nil || c15Clean(a.TouchlessSudo.Hosts))
	if !clean {
		c.Outcome("legacy-totality-only")
		return // statement promises nothing beyond not crashing
	}
	c.Outcome("legacy")
	c.Nontrivial(text)
	if derr != nil {
		c.Violation("C15:legacy:decode-fails", fmt.Sprintf("Unmarshal(Marshal(a)) failed: %v; text=%q", derr, text), cas)
		return
	}
	ts := message.TouchlessSudo{}
	if a.TouchlessSudo != nil {
		ts = *a.TouchlessSudo
	}
	var bts message.TouchlessSudo
	if back.TouchlessSudo != nil {
		bts = *back.TouchlessSudo
	}
	if back.SSHClientVersion != a.SSHClientVersion || back.Username != a.Username || back.Hostname != a.Hostname ||
		back.HardKey != a.HardKey || back.Touch2SSH != a.Touch2SSH || bts != ts {
		c.Violation("C15:legacy:roundtrip", fmt.Sprintf("got %s want fields of %s (text %q)", ev.JSON(back), ev.JSON(a), text), cas)
	}
	if back.IfVer != 6 {
		c.Violation("C15:legacy:ifver", fmt.Sprintf("interface version %d, want 6", back.IfVer), cas)
	}
	// raw tokens mirrored into the extension map
	for _, tok := range strings.Split(text, " ") {
		k, v := tok, ""
		if i := strings.Index(tok, "="); i >= 0 {
			k, v = tok[:i], tok[i+1:]
		}
		if got, ok := back.Exts[k]; !ok || got != v {
			c.Violation("C15:legacy:exts-mirror", fmt.Sprintf("token %q not mirrored in Exts %v", tok, back.Exts), cas)
			break
		}
	}
}

// c15Text checks an arbitrary input text of the decoder.
func c15Text(c *ev.Ctx, text, note string) {
	c.Eval()
	cas := c15Case{Kind: "text", Text: text, Note: note}
	var got *message.Attributes
	var err error
	if p := ev.Guard(func() { got, err = message.Unmarshal(text) }); p != "" {
		c.Violation("C15:panic:"+ev.PanicSite(p), p, cas)
		return
	}
	if err == nil && got != nil {
		// the result belongs to the caller: after it was modified in place, decoding the same text again gives an equal value
		want := ev.JSON(got)
		snapshot := *got
		if got.Exts != nil {
			got.Exts["scribbled-by-the-caller"] = "x"
			for k := range got.Exts {
				got.Exts[k] = "overwritten"
			}
		}
		if got.TouchlessSudo != nil {
			got.TouchlessSudo.Hosts, got.TouchlessSudo.Time, got.TouchlessSudo.IsFirefighter = "scribbled", 424242, !got.TouchlessSudo.IsFirefighter
		}
		got.Username, got.Hostname, got.SSHClientVersion, got.HardKey = "x", "x", "x", !got.HardKey
		var again *message.Attributes
		var aerr error
		if p := ev.Guard(func() { again, aerr = message.Unmarshal(text) }); p != "" {
			c.Violation("C15:panic:"+ev.PanicSite(p), p, cas)
			return
		}
		if aerr != nil || again == nil || ev.JSON(again) != want {
			c.Violation("C15:decode-depends-on-what-the-caller-did-to-an-earlier-result", fmt.Sprintf("second decode of the same text gives %s (err=%v), the first gave %s", ev.JSON(again), aerr, want), cas)
			return
		}
		// judge the fresh value below (the first one was scribbled on)
		got = again
		_ = snapshot
	}
	// independent decode: does the text decode as a (non-null) JSON attribute object?
	var probe map[string]json.RawMessage
	var ind message.Attributes
	isObj := json.Unmarshal([]byte(text), &probe) == nil && probe != nil && json.Unmarshal([]byte(text), &ind) == nil
	if isObj {
		c.Nontrivial("jsonobj:" + text)
		missing := ind.SSHClientVersion == "" || ind.Username == "" || ind.Hostname == ""
		if missing {
			c.Outcome("jsonobj-missing-field")
			if err == nil {
				c.Violation("C15:jsonobj:accepted-missing-required", fmt.Sprintf("JSON attribute object lacking a required field accepted as %s", ev.JSON(got)), cas)
			}
			return
		}
		c.Outcome("jsonobj-ok")
		if err != nil {
			c.Violation("C15:jsonobj:refused", fmt.Sprintf("complete JSON attribute object refused: %v", err), cas)
			return
		}
		if ind.TouchlessSudo == nil {
			ind.TouchlessSudo = &message.TouchlessSudo{}
		}
		if !reflect.DeepEqual(*got, ind) {
			c.Violation("C15:jsonobj:reinterpreted", fmt.Sprintf("got %s, JSON decode gives %s", ev.JSON(got), ev.JSON(ind)), cas)
		}
		return
	}
	if err != nil {
		c.Outcome("text-refused")
		return
	}
	c.Outcome("legacy-accepted")
	c.Nontrivial("legacy:" + text)
	// legacy success: reference parse (split on ' ', trim, skip empty, first '=', last duplicate wins)
	ref := map[string]string{}
	for _, tok := range strings.Split(text, " ") {
		tok = strings.TrimSpace(tok)
		if tok == "" {
			continue
		}
		k, v := tok, ""
		if i := strings.Index(tok, "="); i >= 0 {
			k, v = tok[:i], tok[i+1:]
		}
		ref[k] = v
	}
	req, ok := ref["req"]
	parts := strings.Split(req, "@")
	if !ok || len(parts) != 2 {
		c.Violation("C15:legacy:accepted-without-requester", fmt.Sprintf("legacy text without a well-formed req accepted: %s", ev.JSON(got)), cas)
		return
	}
	hk, _ := strconv.ParseBool(ref["HardKey"])
	t2, _ := strconv.ParseBool(ref["Touch2SSH"])
	if got.Username != parts[0] || got.Hostname != parts[1] || got.SSHClientVersion != ref["SSHClientVersion"] || got.HardKey != hk || got.Touch2SSH != t2 {
		c.Violation("C15:legacy:fields", fmt.Sprintf("got %s, reference tokens %v", ev.JSON(got), ref), cas)
	}
	if len(got.Exts) != len(ref) {
		c.Violation("C15:legacy:exts-mirror", fmt.Sprintf("Exts %v, reference tokens %v", got.Exts, ref), cas)
		return
	}
	for k, v := range ref {
		if gv, ok := got.Exts[k]; !ok || gv != v {
			c.Violation("C15:legacy:exts-mirror", fmt.Sprintf("Exts %v, reference tokens %v", got.Exts, ref), cas)
			return
		}
	}
}

func checkC15(c *ev.Ctx) {
	c.Rule("attribute sets: IfVer{7,8,0,6} x 3 booleans x TouchlessSudo{nil,zero,hosts,time,negative time,all} x CAPubKeyAlgo{0,1,3,99} x SignatureAlgo{0,4,16} x strings (quick: 7 joint rotations + one-field-at-a-time; thorough: full 7^3 cross product; + whitespace/@ values for totality; + 74 runes covering every UTF-8 continuation byte at the start/end of token-final values in both formats) x 9 extension maps, round-tripped through the real Marshal/Unmarshal; texts: all legacy token sequences up to length 3 (thorough 4) over an 18-token alphabet, plus ~1 100 texts spelling the documented attribute names in other letter cases; every accepted result is modified in place and the text decoded again and a catalogue of JSON texts, compared with an independent encoding/json decode and a reference token parser. non-trivial = round trip executed or text accepted/JSON object; distinct by encoded text")
	c.Assume("valid UTF-8 only", "legacy fields are promised only for values free of Unicode whitespace and '@'")
	if c.ReplayCase != nil {
		var k c15Case
		json.Unmarshal(c.ReplayCase, &k)
		if k.Kind == "attrs" && k.Attrs != nil {
			c15Attrs(c, *k.Attrs)
		} else {
			c15Text(c, k.Text, k.Note)
		}
		return
	}
	strs := []string{"a", "8.1", "ü", "a=b", "x\"y", "{", strings.Repeat("w", 300)}
	var triples [][3]string
	if c.Thorough() {
		all := append(append([]string{}, strs...), "")
		for _, x := range all {
			for _, y := range all {
				for _, z := range all {
					triples = append(triples, [3]string{x, y, z})
				}
			}
		}
	} else {
		for i := range strs {
			triples = append(triples, [3]string{strs[i], strs[(i+1)%7], strs[(i+2)%7]})
			triples = append(triples, [3]string{strs[i], "8.1", "h"}, [3]string{"u", strs[i], "h"}, [3]string{"u", "8.1", strs[i]})
		}
		triples = append(triples, [3]string{"", "8.1", "h"}, [3]string{"u", "", "h"}, [3]string{"u", "8.1", ""}, [3]string{"", "", ""})
	}
	for _, w := range []string{"a b", "a\tb", "a b", "a@b", " a", "a ", "\n"} {
		triples = append(triples, [3]string{w, "8.1", "h"}, [3]string{"u", w, "h"}, [3]string{"u", "8.1", w})
	}
	tsudos := []*message.TouchlessSudo{nil, {}, {Hosts: "h1,h2"}, {Time: 30}, {Time: -5}, {IsFirefighter: true, Hosts: "h=1", Time: 1 << 40}, {Hosts: "a b"}}
	exts := []map[string]interface{}{nil, {}, {"k": "v"}, {"n": map[string]interface{}{"m": map[string]interface{}{"x": 1}}}, {"arr": []interface{}{1, "a", nil}},
		{"num": 100}, {"b": true}, {"nul": nil}, {"req": "u@h", "IFVer": "6"}}
	bools := []bool{false, true}
	n := 0
	var cases []message.Attributes
	for _, ifv := range []int{7, 8, 0, 6} {
		for _, hk := range bools {
			for _, t2 := range bools {
				for _, ts := range tsudos {
					for _, ca := range []int{0, 1, 3, 99} {
						for _, sa := range []int{0, 4, 16} {
							for _, tr := range triples {
								for _, ex := range exts {
									if ifv < 7 && ex != nil && len(ex) > 0 && ex["k"] == nil {
										continue // extension maps are not carried by the legacy format; keep nil/{}/one map
									}
									var tsc *message.TouchlessSudo
									if ts != nil {
										cp := *ts
										tsc = &cp
									}
									cases = append(cases, message.Attributes{IfVer: ifv, Username: tr[0], SSHClientVersion: tr[1], Hostname: tr[2], HardKey: hk, Touch2SSH: t2,
										TouchlessSudo: tsc, CAPubKeyAlgo: x509.PublicKeyAlgorithm(ca), SignatureAlgo: x509.SignatureAlgorithm(sa), Exts: ex})
								}
							}
						}
					}
				}
			}
		}
	}
	c.ParMap(len(cases), func(i int) {
		c15Attrs(c, cases[i])
		if i%50021 == 7 {
			c.Sample(c15Case{Kind: "attrs", Attrs: &cases[i]})
		}
	})
	n = len(cases)
	c.Set("attribute_sets", n)

	// legacy token sequences
	toks := []string{"IFVer=6", "IFVer=x", "SSHClientVersion=8.1", "SSHClientVersion=", "req=u@h", "req=u@h2", "req=u", "req=a@b@c", "req=@", "req", "HardKey=true", "HardKey=maybe",
		"Touch2SSH=1", "TouchlessSudoTime=9x", "a=b=c", "=v", "", "\tIsFirefighter=true\t"}
	L := 3
	if c.Thorough() {
		L = 4
	}
	texts := []string{}
	var rec func(prefix []string, depth int)
	rec = func(prefix []string, depth int) {
		texts = append(texts, strings.Join(prefix, " "))
		if depth == L {
			return
		}
		for _, t := range toks {
			rec(append(append([]string{}, prefix...), t), depth+1)
		}
	}
	rec(nil, 0)
	// the same attribute names in other letter cases (unknown extension keys to the legacy parser, whatever was seen before):
	// every pair and triple of {req, HardKey, Touch2SSH, IFVer, SSHClientVersion} x {as documented, lower, UPPER} with a req
	{
		names := []string{"HardKey=true", "Touch2SSH=true", "IFVer=6", "SSHClientVersion=8.1", "TouchlessSudoHosts=h", "IsFirefighter=true"}
		var variants []string
		for _, n := range names {
			i := strings.Index(n, "=")
			variants = append(variants, n, strings.ToLower(n[:i])+n[i:], strings.ToUpper(n[:i])+n[i:])
		}
		for _, rq := range []string{"req=u@h", "REQ=u@h", "Req=u@h"} {
			for _, a := range variants {
				texts = append(texts, rq+" "+a, a+" "+rq)
				for _, b := range variants {
					texts = append(texts, "req=u@h "+a+" "+b)
				}
			}
		}
	}
	c.Set("legacy_token_sequences", len(texts))
	c.ParMap(len(texts), func(i int) {
		c15Text(c, texts[i], "legacy tokens")
		if i%3001 == 5 {
			c.Sample(c15Case{Kind: "text", Text: texts[i]})
		}
	})
	// history independence: a serial second pass over the texts in a stride order, interleaved with JSON round trips of
	// attribute sets that carry touchless-sudo blocks (decoders that keep state between calls show up here)
	for i := 0; i < len(texts) && i < 20000; i++ {
		c15Text(c, texts[(i*7919)%len(texts)], "stride pass")
		if i%5 == 0 {
			c15Attrs(c, cases[(i*104729)%len(cases)])
		}
	}
	// byte-level boundaries of legacy tokens: every value that ends (or starts) a token with a non-whitespace rune whose
	// first / last UTF-8 byte is any lead or continuation byte - all 64 two-byte runes U+00C0..U+00FF (last byte 0x80..0xBF)
	// and three- and four-byte runes ending in 0x85 / 0xA0 / 0x80 / 0xBF - in both formats
	{
		var runes []rune
		for r := rune(0xC0); r <= 0xFF; r++ {
			runes = append(runes, r)
		}
		runes = append(runes, 0x0445, 0x0460, 0x3045, 0x30A0, 0x4E00, 0x4E3F, 0x1F600, 0x1F63F, 0x0100, 0x07FF)
		nb := 0
		for _, r := range runes {
			if unicode.IsSpace(r) {
				continue
			}
			rs := string(r)
			for _, ifv := range []int{6, 7} {
				for _, shape := range []int{0, 1, 2} {
					v := map[int]string{0: "h" + rs, 1: rs + "h", 2: rs}[shape]
					c15Attrs(c, message.Attributes{IfVer: ifv, Username: "u" + rs, Hostname: v, SSHClientVersion: "8.1" + rs, HardKey: true,
						TouchlessSudo: &message.TouchlessSudo{IsFirefighter: true, Hosts: v, Time: 5}})
					nb++
				}
			}
		}
		c.Set("token_boundary_rune_cases", nb)
	}
	// host lists with empty elements and odd separators (no whitespace, no '@': inside the property's domain): the list is
	// carried verbatim in both formats
	{
		nh := 0
		for _, hosts := range []string{"host01,,host02", ",host01", "host01,", ",", ",,", "h1,h2,", "a,,", "h1,,h2,,h3", ";", "h1;h2", "h1,h1", "H1,h1", "h1,=", "=,="} {
			for _, ifv := range []int{6, 7, 0, 1} {
				for _, ff := range []bool{false, true} {
					for _, tm := range []int64{0, 5} {
						c15Attrs(c, message.Attributes{IfVer: ifv, Username: "u", Hostname: "h", SSHClientVersion: "8.1",
							TouchlessSudo: &message.TouchlessSudo{IsFirefighter: ff, Hosts: hosts, Time: tm}})
						nh++
					}
				}
			}
		}
		c.Set("host_list_shape_cases", nh)
	}
	// JSON catalogue: objects that also look like legacy text, missing fields, wrong types, non-objects
	full := `"username":"u","hostname":"h","sshClientVersion":"8.1"`
	cat := []string{"null", "[]", "[1]", "7", `"s"`, `"req=u@h"`, "true", "{}", "{" + full + "}", `{"username":"u","hostname":"h"}`, `{"username":"u","sshClientVersion":"8.1"}`,
		`{"hostname":"h","sshClientVersion":"8.1"}`, `{"username":"","hostname":"h","sshClientVersion":"8.1"}`,
		`{"x":"IFVer=6 SSHClientVersion=8.1 req=u@h y"}`, `{"x": "a", "req=u@h":1, "k":" req=u@h "}`, `{ "username":"u" , "x":" req=u@h " }`,
		"{" + full + `,"ifVer":7}`, "{" + full + `,"ifVer":"7"}`, "{" + full + `,"hardKey":"true"}`, "{" + full + `,"exts":[]}`, "{" + full + `,"exts":{"a":{"b":[1,2]}}}`,
		"{" + full + `,"touchlessSudo":null}`, "{" + full + `,"touchlessSudo":{"time":1.5}}`, "{" + full + `,"USERNAME":"other"}`, "{" + full + `,"username":"second"}`,
		"{" + full + "} req=u@h", "req=u@h {" + full + "}", "{" + full + "}{}", " {" + full + "} ", "{" + full, `{"username":"u@h","hostname":"h req=x@y","sshClientVersion":"8.1 "}`,
		"\xff\xfe", "", " ", "req=\xff@h",
		// JSON that fails only with a TYPE error (the decoder has filled the other members by then) and that the legacy
		// parser accepts because a string value holds a req= token: nothing of the rejected JSON may leak into the result
		`{"sshClientVersion":"9.9","signatureAlgo":4,"exts":{"note":" req=alice@laptop "},"hardKey":"yes"}`,
		`{"ifVer":7,"username":"mallory","hostname":"evil","sshClientVersion":"9.9","touch2SSH":true,"caPubKeyAlgo":3,"touchlessSudo":{"isFirefighter":true,"hosts":"*","time":9},"k":" req=u@h ","hardKey":1}`,
		`{"sshClientVersion":"9.9","k":" req=u@h SSHClientVersion=7.0 ","ifVer":"7"}`,
		// required fields present only inside a nested value; whitespace and BOM around an object
		`{"x":{` + full + `}}`, `{"username":"u","hostname":"h","x":{"sshClientVersion":"8.1"}}`, `{"username":"u","hostname":"h","x":[{"sshClientVersion":"8.1"}]}`,
		`{"username":"u","hostname":"h","x":"{\"sshClientVersion\":\"8.1\"}"}`, `{"touchlessSudo":{` + full + `}}`, "[{" + full + "}]",
		"\n{" + full + "}", "\t{" + full + "}\r\n", "\r\n {" + full + "}", "\ufeff{" + full + "}", "\u00a0{" + full + "}", "{\n" + full + "\n}"}
	for _, t := range cat {
		c15Text(c, t, "catalogue")
	}
	for _, t1 := range cat {
		for _, t2 := range cat {
			c15Text(c, t1, "catalogue pair/first")
			c15Text(c, t2, "catalogue pair/second")
		}
	}
	c.Sample(c15Case{Kind: "text", Text: cat[13]})
}
