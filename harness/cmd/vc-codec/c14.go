//go:build verif

package main

import (
	"encoding/hex"
	"encoding/json"
	"fmt"
	"net"
	"reflect"
	"regexp"
	"runtime"
	"strconv"
	"strings"
	"sync"
	"unicode/utf8"

	"github.com/theparanoids/ysshra/csr"
	"github.com/theparanoids/ysshra/internal/zzverif/ev"
	"github.com/theparanoids/ysshra/message"
	"github.com/theparanoids/ysshra/sshutils/version"
	"github.com/theparanoids/ysshra/zzverifrt/vrand"
)

type c14Case struct {
	Cmd, LogName, Conn string
	Args               []string
	CmdHex             string `json:",omitempty"`
}

var c14TransRE = regexp.MustCompile(`^[0-9a-f]{10}$`)
var c14VerRE = regexp.MustCompile(`^[0-9]+\.[0-9]+$`)

var (
	c14Seen   = map[string]struct{}{}
	c14SeenMu sync.Mutex
)

// c14Declared extracts what the client declared, with an independent decode (JSON object first, else legacy tokens).
func c14Declared(cmd string) (isJSONObj bool, user, host, ver string, legacyOK bool) {
	var probe map[string]json.RawMessage
	if json.Unmarshal([]byte(cmd), &probe) == nil && probe != nil {
		// "a JSON attribute object" = the whole object decodes into the attribute type (a mistyped member anywhere makes
		// it something else, which may still be legacy text)
		var f message.Attributes
		if json.Unmarshal([]byte(cmd), &f) == nil {
			return true, f.Username, f.Hostname, f.SSHClientVersion, false
		}
	}
	ref := map[string]string{}
	for _, tok := range strings.Split(cmd, " ") {
		tok = strings.TrimSpace(tok)
		if tok == "" {
			continue
		}
		k, v := tok, ""
		if i := strings.Index(tok, "="); i >= 0 {
			k, v = tok[:i], tok[i+1:]
		}
		ref[k] = v
	}
	req, ok := ref["req"]
	parts := strings.Split(req, "@")
	if !ok || len(parts) != 2 {
		return false, "", "", "", false
	}
	return false, parts[0], parts[1], ref["SSHClientVersion"], true
}

func c14Run(c *ev.Ctx, k c14Case, serial bool) {
	c.Eval()
	if k.CmdHex != "" {
		b, _ := hex.DecodeString(k.CmdHex)
		k.Cmd = string(b)
	} else if !utf8.ValidString(k.Cmd) {
		k.CmdHex = hex.EncodeToString([]byte(k.Cmd))
	}
	env := map[string]string{"SSH_ORIGINAL_COMMAND": k.Cmd, "LOGNAME": k.LogName, "SSH_CONNECTION": k.Conn}
	var p *csr.ReqParam
	var err error
	if serial {
		vrand.ResetLog()
	}
	passed := append([]string{}, k.Args...) // the function gets its own copy: the reference below uses the caller's vector
	if pm := ev.Guard(func() {
		p, err = csr.NewReqParam(func(s string) string { return env[s] }, func() []string { return passed })
	}); pm != "" {
		c.Violation("C14:panic:"+ev.PanicSite(pm), pm, k)
		return
	}
	if !reflect.DeepEqual(passed, k.Args) && !(len(passed) == 0 && len(k.Args) == 0) {
		c.Count("calls_that_modified_their_argument_vector", 1) // not demanded by the statement; the reference uses the caller's copy
	}
	// reference facts from the statement
	var toks []string
	for _, a := range k.Args {
		toks = append(toks, strings.Split(a, " ")...)
	}
	first := strings.Split(k.Conn, " ")[0]
	isObj, user, host, ver, legacyOK := c14Declared(k.Cmd)
	mustReject := ""
	switch {
	case k.LogName == "":
		mustReject = "empty-logname"
	case net.ParseIP(first) == nil:
		mustReject = "conn-not-ip"
	case len(toks) < 3 || len(toks) > 6:
		mustReject = "token-count"
	case toks[len(toks)-2] != "NONS" && toks[len(toks)-2] != "NSOK":
		mustReject = "bad-policy"
	case isObj && (user == "" || host == "" || ver == ""):
		mustReject = "json-missing-field"
	case (isObj || legacyOK) && ver != "" && !c14VersionOK(ver):
		mustReject = "bad-version"
	}
	if err != nil {
		if p != nil {
			c.Violation("C14:value-with-error", "NewReqParam returned both parameters and an error", k)
		}
		c.Outcome("refused:" + mustReject)
		return
	}
	if mustReject != "" {
		c.Violation("C14:accepted:"+mustReject, fmt.Sprintf("input that must be rejected (%s) produced %s", mustReject, c14Show(p)), k)
		return
	}
	c.Outcome("accepted")
	c.Nontrivial(ev.JSON(k))
	if p == nil {
		c.Violation("C14:nil-nil", "NewReqParam returned (nil, nil)", k)
		return
	}
	if p.LogName != k.LogName || p.LogName == "" {
		c.Violation("C14:logname", fmt.Sprintf("LogName %q, server-side LOGNAME %q", p.LogName, k.LogName), k)
	}
	if p.ClientIP != first || net.ParseIP(p.ClientIP) == nil {
		c.Violation("C14:clientip", fmt.Sprintf("ClientIP %q, first field %q", p.ClientIP, first), k)
	}
	if string(p.NamespacePolicy) != toks[len(toks)-2] {
		c.Violation("C14:policy", fmt.Sprintf("policy %q, forced-command token %q", p.NamespacePolicy, toks[len(toks)-2]), k)
	}
	if p.HandlerName != toks[len(toks)-1] {
		c.Violation("C14:handler", fmt.Sprintf("handler %q, last token %q", p.HandlerName, toks[len(toks)-1]), k)
	}
	if !isObj && !legacyOK {
		c.Violation("C14:accepted:undecodable-command", "command is neither a JSON attribute object nor legacy text with a requester, yet accepted: "+c14Show(p), k)
		return
	}
	if p.ReqUser != user || p.ReqHost != host {
		c.Violation("C14:requser-reqhost", fmt.Sprintf("ReqUser/ReqHost %q/%q, client declared %q/%q", p.ReqUser, p.ReqHost, user, host), k)
	}
	wantVer := version.NewDefaultVersion()
	if ver != "" {
		i := strings.Index(ver, ".")
		ma, _ := strconv.ParseUint(ver[:i], 10, 16)
		mi, _ := strconv.ParseUint(ver[i+1:], 10, 16)
		wantVer = version.New(uint16(ma), uint16(mi))
	}
	if p.SSHClientVersion != wantVer {
		c.Violation("C14:client-version", fmt.Sprintf("version %s, declared %q", p.SSHClientVersion.Marshal(), ver), k)
	}
	if !c14TransRE.MatchString(p.TransID) {
		c.Violation("C14:transid-format", fmt.Sprintf("TransID %q is not 10 hex digits", p.TransID), k)
	}
	c14SeenMu.Lock()
	_, dup := c14Seen[p.TransID]
	c14Seen[p.TransID] = struct{}{}
	c14SeenMu.Unlock()
	if dup {
		c.Violation("C14:transid-repeated", fmt.Sprintf("TransID %q already used by an earlier request", p.TransID), k)
	}
	if serial {
		found := false
		for _, r := range vrand.Log() {
			if len(r) == 5 && hex.EncodeToString(r) == p.TransID {
				found = true
			}
		}
		if !found {
			c.Violation("C14:transid-not-from-csprng", fmt.Sprintf("TransID %q is not the hex of five bytes drawn from the CSPRNG during this call (reads: %d)", p.TransID, len(vrand.Log())), k)
		}
		c.Count("csprng_identity_checked", 1)
	}
}

func c14VersionOK(v string) bool {
	if !c14VerRE.MatchString(v) {
		return false
	}
	i := strings.Index(v, ".")
	if _, err := strconv.ParseUint(v[:i], 10, 16); err != nil {
		return false
	}
	_, err := strconv.ParseUint(v[i+1:], 10, 16)
	return err == nil
}

func c14Show(p *csr.ReqParam) string {
	if p == nil {
		return "nil"
	}
	return fmt.Sprintf("{policy:%q handler:%q ip:%q log:%q user:%q host:%q trans:%q ver:%s}", p.NamespacePolicy, p.HandlerName, p.ClientIP, p.LogName, p.ReqUser, p.ReqHost, p.TransID, p.SSHClientVersion.Marshal())
}

func c14Commands() []string {
	full := func(u, h, v string) string {
		b, _ := json.Marshal(map[string]any{"username": u, "hostname": h, "sshClientVersion": v, "ifVer": 7, "hardKey": false})
		return string(b)
	}
	embedded := `{"username":"alice","hostname":"laptop.example.com","sshClientVersion":"8.1","ifVer":7,"exts":{"note":"ticket req=root@bastion SSHClientVersion=1.0 done"}}`
	cmds := []string{
		full("alice", "host.com", "8.1"), full("mallory", "h", "9.0"), full("ü\"{}", "h <&>", "0.0"), full("alice", "host.com", "65535.65535"),
		full("alice", "host.com", "65536.0"), full("alice", "host.com", "8"), full("alice", "host.com", "8.1.2"), full("alice", "host.com", "v8.1"), full("alice", "host.com", " 8.1"),
		full("", "h", "8.1"), full("u", "", "8.1"), full("u", "h", ""),
		"null", "[]", "[1]", "7", `"s"`, "true", "{}", `{"username":"u"}`, `{"username":1,"hostname":"h","sshClientVersion":"8.1"}`,
		`{"username":"u","hostname":"h","sshClientVersion":8.1}`, `{"username":"u","hostname":"h","sshClientVersion":"8.1","username":"second"}`,
		`{"username":"u","hostname":"h","sshClientVersion":"8.1","exts":{"a":{"b":[1,{"c":null}]}}}`, `{"username":"u","hostname":"h","sshClientVersion":"8.1","touchlessSudo":null}`,
		`{"username":"u","hostname":"h","sshClientVersion":"8.1","signatureAlgo":99,"caPubKeyAlgo":-1}`, `{"username":"u","hostname":"h","sshClientVersion":"8.1"} trailing`,
		`{"x":"IFVer=6 req=u@h y"}`, `{"username":"u","hostname":"h","sshClientVersion":"8.1"`,
		// JSON refused for a TYPE error only, accepted as legacy text through a req= token inside a string value: the
		// declared version is the legacy one (absent = 0.0), never a member of the refused JSON
		`{"sshClientVersion":"9.9","signatureAlgo":4,"exts":{"note":" req=alice@laptop "},"hardKey":"yes"}`,
		`{"username":"mallory","hostname":"evil","sshClientVersion":"9.9","k":" req=u@h ","hardKey":1}`,
		`{"sshClientVersion":"9.9","k":" req=u@h SSHClientVersion=7.0 ","ifVer":"7"}`,
		// JSON attribute objects surrounded by JSON whitespace (legal JSON), with legacy-looking tokens inside a string value:
		// what the client declared is the object's members, never text found inside one of its strings
		// JSON objects that declare an older interface version and no client version: a JSON attribute object without a
		// version is refused whatever interface version it claims (0.0 is reserved for legacy TEXT without the token)
		`{"username":"u","hostname":"h","ifVer":6}`, `{"username":"u","hostname":"h","ifVer":1,"sshClientVersion":""}`, `{"username":"u","hostname":"h","ifVer":6,"hardKey":true,"exts":{"k":"v"}}`,
		`{"username":"u","hostname":"h","ifVer":6,"sshClientVersion":"8.1"}`, `{"username":"u","hostname":"h","ifVer":-1}`, `{"username":"u","hostname":"h","ifVer":0}`,
		// declared users that equal a login name of the sweep (alice, ünï) up to letter case / Unicode case folding: copied
		// verbatim, in their own spelling
		full("Alice", "host.com", "8.1"), full("ALICE", "Host.Com", "8.1"), full("ÜNÏ", "h", "8.1"), "req=aLiCe@host.com SSHClientVersion=8.1", "req=Ünï@H",
		" " + embedded, "\n" + embedded, "\t\r\n " + embedded, embedded + " \n", " " + embedded + " ", embedded,
		"IFVer=6 SSHClientVersion=8.1 req=user@host.com HardKey=true", "IFVer=6 req=user@host.com", "req=user@host.com", "SSHClientVersion=8.1 req=user@host.com",
		"SSHClientVersion=x req=user@host.com", "SSHClientVersion=8 req=u@h", "SSHClientVersion=70000.1 req=u@h", "SSHClientVersion= req=u@h", "IFVer=6 SSHClientVersion=8.1",
		"req=user", "req=a@b@c", "req=@", "req=@h", "req=u@", "req", "req=u@h req=v@g", "  req=u@h  ", "\treq=u@h", "IFVer=six req=u@h", "a=b=c req=u@h =v", "", " ", "\x00", "\xff\xfe req=u@h",
		"req=\xff@h", "req=u@h HardKey=notbool TouchlessSudoTime=9x", strings.Repeat("x", 5000), strings.Repeat("req=u@h ", 500), strings.Repeat("[", 2000),
	}
	return cmds
}

func checkC14(c *ev.Ctx) {
	c.Rule("SSH_ORIGINAL_COMMAND from an 80-text catalogue (JSON objects with good/missing/mistyped fields and 8 version spellings, other JSON values, objects surrounded by JSON whitespace with legacy-looking tokens inside a string value, legacy k=v texts, empty, raw bytes) x LOGNAME{5} x SSH_CONNECTION{11} x argument vectors: part A (serial, CSPRNG identity checked) all commands x lognames x connections x 12 vectors (incl. handler keywords written with quote characters); every ordered pair of catalogue commands back to back on one pinned goroutine (twice); 300 distinct declared versions / users / hosts / addresses in one process, each revisited twice; part B all vectors of 0..4 arguments over a 9-token alphabet (incl. space-containing arguments that end in a policy token) (thorough: 0..8 over 4 tokens as well) x reduced command/logname/connection sets; each compared with a reference model written from the statement. non-trivial = accepted input; distinct by input")
	c.Assume("transid bytes come through the csprng seam (crypto/rand import of csr/transid redirected to a recording deterministic stream)")
	if c.ReplayCase != nil {
		var k c14Case
		json.Unmarshal(c.ReplayCase, &k)
		c14Run(c, k, true)
		return
	}
	cmds := c14Commands()
	lognames := []string{"alice", "", "a b", "ünï", "../x"}
	conns := []string{"1.2.3.4 36673 192.168.223.229 22", "", "2001:db8::1 1 ::1 22", "1.2.3.4", " 1.2.3.4 1 2 3", "1.2.3.4\t1\t2\t3", "999.1.1.1 1 2 3", "fe80::1%eth0 1 2 3", "1.2.3.4 ", "host.example 1 2 3", "01.2.3.4 1 2 3"}
	argvs := [][]string{{"/usr/bin/gensign", "NONS", "Regular"}, {"/usr/bin/gensign", "NSOK", "Regular"}, {"/usr/bin/gensign NONS Regular"}, {"/usr/bin/gensign", "nons", "Regular"},
		{"/usr/bin/gensign", "Regular"}, {}, {"a", "b", "c", "d", "NSOK", "e"}, {"a", "b", "c", "d", "e", "NSOK", "f"},
		// a handler keyword written with quote characters, as argv and in the login-shell form (the keyword is no subject
		// of the property; what else the request yields must not depend on how it is spelled)
		{"/usr/bin/gensign", "NSOK", `"Regular"`}, {"gensign", "-c", `/usr/bin/gensign NSOK "Regular"`}, {"/usr/bin/gensign", "NONS", `'Regular'`}, {"/usr/bin/gensign", "NSOK", "`Regular`"}}
	for _, cmd := range cmds {
		for _, ln := range lognames {
			for _, cn := range conns {
				for _, av := range argvs {
					c14Run(c, c14Case{Cmd: cmd, LogName: ln, Conn: cn, Args: av}, true)
				}
			}
		}
	}
	c.Sample(c14Case{Cmd: cmds[0], LogName: "alice", Conn: conns[0], Args: argvs[2]})
	c.Sample(c14Case{Cmd: "null", LogName: "alice", Conn: conns[0], Args: argvs[0]})
	// every ordered pair of catalogue commands back to back on one goroutine (same login name, connection and arguments):
	// what an earlier request - accepted or refused - left behind in the process must not reach the next one. Pooled
	// scratch objects are per processor and dropped by the collector, so each pair runs twice and on a pinned thread.
	func() {
		runtime.LockOSThread()
		defer runtime.UnlockOSThread()
		for rep := 0; rep < 2; rep++ {
			for _, a := range cmds {
				for _, b := range cmds {
					if len(a) > 2000 || len(b) > 2000 {
						continue
					}
					c14Run(c, c14Case{Cmd: a, LogName: "alice", Conn: conns[0], Args: argvs[2]}, true)
					c14Run(c, c14Case{Cmd: b, LogName: "alice", Conn: conns[0], Args: argvs[2]}, true)
				}
			}
		}
	}()
	// many distinct declared values in one process, then every one of them again (forwards, then in a stride order): an
	// answer remembered for an earlier request - a cache with eviction, an interning table - must not change what a later
	// request declares
	{
		var vs []string
		for maj := 0; maj < 12; maj++ {
			for min := 0; min < 25; min++ {
				vs = append(vs, fmt.Sprintf("%d.%d", maj*7%100, min*37+maj))
			}
		}
		run := func(v string, legacy bool, who int) {
			cmd := fmt.Sprintf(`{"username":"user%d","hostname":"host%d.example","sshClientVersion":%q,"ifVer":7}`, who, who, v)
			if legacy {
				cmd = fmt.Sprintf("IFVer=6 SSHClientVersion=%s req=user%d@host%d.example", v, who, who)
			}
			c14Run(c, c14Case{Cmd: cmd, LogName: fmt.Sprintf("login%d", who%7), Conn: fmt.Sprintf("10.0.%d.%d 5000 10.0.0.1 22", who%200, who%251), Args: argvs[2]}, true)
		}
		for i, v := range vs {
			run(v, i%2 == 1, i)
		}
		for i := range vs {
			j := (i * 7919) % len(vs)
			run(vs[j], i%3 == 0, j+1000)
		}
		for i := len(vs) - 1; i >= 0; i-- {
			run(vs[i], false, i)
		}
		c.Set("distinct_declared_versions_revisited", len(vs))
	}
	// part B: all argument vectors
	alpha := []string{"/usr/bin/gensign", "NONS", "NSOK", "nons", "Regular", "NONS Regular", "a b c", "", "g NSOK"}
	var vecs [][]string
	var rec func(pre []string, d, max int, al []string)
	rec = func(pre []string, d, max int, al []string) {
		vecs = append(vecs, append([]string{}, pre...))
		if d == max {
			return
		}
		for _, t := range al {
			rec(append(pre, t), d+1, max, al)
		}
	}
	rec(nil, 0, 4, alpha)
	if c.Thorough() {
		rec(nil, 0, 8, []string{"g", "NONS", "NSOK x", ""})
	}
	c.Set("argument_vectors", len(vecs))
	bc := []string{cmds[0], cmds[2], "IFVer=6 req=user@host.com", "null"}
	bl := []string{"alice", ""}
	bn := []string{conns[0], conns[2], "x"}
	c.ParMap(len(vecs), func(i int) {
		for _, cmd := range bc {
			for _, ln := range bl {
				for _, cn := range bn {
					c14Run(c, c14Case{Cmd: cmd, LogName: ln, Conn: cn, Args: vecs[i]}, false)
				}
			}
		}
		if i%1201 == 3 {
			c.Sample(c14Case{Cmd: bc[2], LogName: "alice", Conn: bn[0], Args: vecs[i]})
		}
	})
}
