//go:build verif

package main

import (
	"encoding/json"
	"fmt"
	"reflect"
	"runtime"
	"strings"
	"unicode/utf8"

	"github.com/theparanoids/ysshra/internal/zzverif/ev"
	"github.com/theparanoids/ysshra/keyid"
)

// c05Case: Kind "enc" carries a KeyID value; Kind "dec" carries a text.
type c05Case struct {
	Kind    string
	K       *keyid.KeyID `json:",omitempty"`
	Text    string       `json:",omitempty"`
	TextHex string       `json:",omitempty"` // used when Text is not valid UTF-8
	Note    string       `json:",omitempty"`
}

var c05Required = []string{"prins", "transID", "reqUser", "reqIP", "reqHost", "isFirefighter", "isHWKey", "isHeadless", "isNonce", "touchPolicy", "ver"}

// c05Consistent is the consistency rule of the statement.
func c05Consistent(ff, hw, hl, nc bool, touch int) bool {
	if hl && (hw || ff || touch != 1) {
		return false
	}
	if nc && (ff || hl || touch != 1) {
		return false
	}
	return true
}

func c05Enc(c *ev.Ctx, k keyid.KeyID) {
	c.Eval()
	cas := c05Case{Kind: "enc", K: &k}
	var text string
	var err error
	var back *keyid.KeyID
	var berr error
	if p := ev.Guard(func() {
		kk := k
		text, err = kk.Marshal()
		if err == nil {
			back, berr = keyid.Unmarshal(text)
		}
	}); p != "" {
		c.Violation("C05:panic:"+ev.PanicSite(p), p, cas)
		return
	}
	want := k.Version == 1 && c05Consistent(k.IsFirefighter, k.IsHWKey, k.IsHeadless, k.IsNonce, int(k.TouchPolicy))
	if (err == nil) != want {
		why := "inconsistent"
		if k.Version != 1 {
			why = "version"
		}
		c.Outcome("enc-mismatch")
		c.Violation(fmt.Sprintf("C05:marshal:accept=%v:want=%v:%s", err == nil, want, why),
			fmt.Sprintf("Marshal err=%v but statement says success=%v for %s", err, want, ev.JSON(k)), cas)
		return
	}
	if err != nil {
		c.Outcome("enc-refused")
		return
	}
	c.Outcome("enc-ok")
	c.Nontrivial("enc:" + text)
	if berr != nil {
		c.Violation("C05:roundtrip:decode-fails", fmt.Sprintf("Unmarshal(Marshal(k)) failed: %v; text=%s", berr, text), cas)
		return
	}
	if !reflect.DeepEqual(*back, k) {
		c.Violation("C05:roundtrip:unequal", fmt.Sprintf("Unmarshal(Marshal(k)) = %s, want %s", ev.JSON(back), ev.JSON(k)), cas)
	}
}

func c05Dec(c *ev.Ctx, text, note string) {
	c.Eval()
	cas := c05Case{Kind: "dec", Text: text, Note: note}
	if !utf8.ValidString(text) {
		cas.Text, cas.TextHex = "", fmt.Sprintf("%x", text)
	}
	var k *keyid.KeyID
	var err error
	if p := ev.Guard(func() { k, err = keyid.Unmarshal(text) }); p != "" {
		c.Violation("C05:panic:"+ev.PanicSite(p), p, cas)
		return
	}
	if err != nil {
		if k != nil {
			c.Violation("C05:decode:value-with-error", "Unmarshal returned both a value and an error", cas)
		}
		c.Outcome("dec-refused")
		return
	}
	c.Outcome("dec-accepted")
	c.Nontrivial("dec:" + text)
	if k == nil {
		c.Violation("C05:decode:nil-nil", "Unmarshal returned (nil, nil)", cas)
		return
	}
	if k.Version != 1 {
		c.Violation("C05:decode:unsupported-version", fmt.Sprintf("accepted version %d", k.Version), cas)
	}
	var m map[string]json.RawMessage
	if e := json.Unmarshal([]byte(text), &m); e != nil || m == nil {
		c.Violation("C05:decode:not-an-object", fmt.Sprintf("accepted text is not a JSON object (%v)", e), cas)
		return
	}
	for _, r := range c05Required {
		if _, ok := m[r]; !ok {
			c.Violation("C05:decode:missing:"+r, fmt.Sprintf("accepted text lacks required field %q: %s", r, text), cas)
		}
	}
	if !c05Consistent(k.IsFirefighter, k.IsHWKey, k.IsHeadless, k.IsNonce, int(k.TouchPolicy)) {
		c.Violation("C05:decode:inconsistent", fmt.Sprintf("accepted inconsistent KeyID %s", ev.JSON(k)), cas)
	}
	// a decoded value belongs to its caller: whatever the caller does to it, decoding the same text again gives the
	// value the text spells (a cache or pool that shares memory with earlier results shows here)
	want := ev.JSON(k)
	for i := range k.Principals {
		k.Principals[i] = "scribbled-by-the-caller"
	}
	if len(k.Principals) > 0 {
		k.Principals = append(k.Principals[:0], "root")
	}
	k.TransID, k.ReqUser, k.ReqHost, k.ReqIP, k.IsFirefighter, k.IsNonce, k.TouchPolicy = "x", "x", "x", "x", !k.IsFirefighter, !k.IsNonce, 7
	var k2 *keyid.KeyID
	var err2 error
	if p := ev.Guard(func() { k2, err2 = keyid.Unmarshal(text) }); p != "" {
		c.Violation("C05:panic:"+ev.PanicSite(p), p, cas)
		return
	}
	if err2 != nil || k2 == nil || ev.JSON(k2) != want {
		c.Violation("C05:decode:depends-on-what-the-caller-did-to-an-earlier-result", fmt.Sprintf("second decode of the same text gives %s (err=%v), the first gave %s; in between the caller modified the first result", ev.JSON(k2), err2, want), cas)
	}
}

type kv struct {
	k string
	v string // raw JSON
}

func c05Pairs(k keyid.KeyID) []kv {
	j := func(v any) string { b, _ := json.Marshal(v); return string(b) }
	return []kv{{"prins", j(k.Principals)}, {"transID", j(k.TransID)}, {"reqUser", j(k.ReqUser)}, {"reqIP", j(k.ReqIP)}, {"reqHost", j(k.ReqHost)},
		{"isFirefighter", j(k.IsFirefighter)}, {"isHWKey", j(k.IsHWKey)}, {"isHeadless", j(k.IsHeadless)}, {"isNonce", j(k.IsNonce)},
		{"usage", j(int(k.Usage))}, {"touchPolicy", j(int(k.TouchPolicy))}, {"ver", j(k.Version)}}
}

func c05Compose(p []kv) string {
	var sb strings.Builder
	sb.WriteByte('{')
	for i, e := range p {
		if i > 0 {
			sb.WriteByte(',')
		}
		kb, _ := json.Marshal(e.k)
		sb.Write(kb)
		sb.WriteByte(':')
		sb.WriteString(e.v)
	}
	sb.WriteByte('}')
	return sb.String()
}

func checkC05(c *ev.Ctx) {
	c.Rule("encoder: complete product 2^4 flags x touch{-1..4} x usage{0,1,2} x ver{0,1,2,65535} x 6 principal lists x jointly varied 5-value string alphabet, plus 6 literal-escape / control-character strings in each string field of the generating set; decoder: single-field surgeries (delete, 3 case renames, duplicate before/after, retype to null/number/string/array/object/bool-flip) and double surgeries (one field deleted/renamed AND another duplicated or an unknown key added; two members retyped at once, in encoder order and with the first moved to the front) and structural relocations (a field moved from the top level into a nested object / array / two levels / JSON-in-a-string under an unknown or known key, with and without a top-level copy; a field deleted while another field's string value spells its name) on every field of a generating set of encoder outputs, all flag/touch/ver combinations as texts, a JSON value catalogue, every ordered pair (and triples) of a 22-text set (incl. a valid object followed by garbage / by another valid object) decoded back to back on one pinned thread (history independence; an encoder output decoded after each of them yields the KeyID it spells), byte-substitution neighbourhood of an encoder output, and ALL strings up to length 5 (thorough 6) over a 13-symbol structural alphabet. non-trivial = Marshal succeeded (round-trip checked) or Unmarshal accepted (oracle checked, then the result is modified in place and the same text decoded again: results are values of their own); distinct by text")
	c.Assume("valid UTF-8 strings only (encoding/json replaces invalid UTF-8, which the property excludes)", "the independent decode uses encoding/json into map[string]RawMessage")
	if c.ReplayCase != nil {
		var k c05Case
		json.Unmarshal(c.ReplayCase, &k)
		if k.Kind == "enc" && k.K != nil {
			c05Enc(c, *k.K)
		} else {
			t := k.Text
			if k.TextHex != "" {
				fmt.Sscanf(k.TextHex, "%x", &t)
			}
			c05Dec(c, t, k.Note)
		}
		return
	}
	bools := []bool{false, true}
	prinLists := [][]string{nil, {}, {"a"}, {"a", "b"}, {""}, {"ü\"\\"}}
	strs := []string{"", "a", "ü\"\\{}[]:,", "<>& ", strings.Repeat("x", 200)}
	var generating []keyid.KeyID
	n := 0
	for _, ff := range bools {
		for _, hw := range bools {
			for _, hl := range bools {
				for _, nc := range bools {
					for _, touch := range []int{1, 0, 2, 3, -1, 4} {
						for _, usage := range []int{0, 1, 2} {
							for _, ver := range []uint16{1, 0, 2, 65535} {
								for _, pl := range prinLists {
									for si, s := range strs {
										k := keyid.KeyID{Principals: pl, TransID: s, ReqUser: strs[(si+1)%len(strs)], ReqIP: strs[(si+2)%len(strs)], ReqHost: strs[(si+3)%len(strs)],
											IsFirefighter: ff, IsHWKey: hw, IsHeadless: hl, IsNonce: nc, Usage: keyid.Usage(usage), TouchPolicy: keyid.TouchPolicy(touch), Version: ver}
										c05Enc(c, k)
										n++
										if n%20011 == 0 {
											c.Sample(c05Case{Kind: "enc", K: &k})
										}
										if ver == 1 && usage == 0 && si == 1 && len(pl) == 1 && pl[0] == "a" && c05Consistent(ff, hw, hl, nc, touch) && (touch == 1 || touch == 3) {
											generating = append(generating, k)
										}
									}
								}
							}
						}
					}
				}
			}
		}
	}
	// second encoder pass: literal escape texts (what a JSON/HTML encoder emits, as characters of the value) and the characters
	// they stand for, in every string field and as a principal, over the consistent attribute combinations
	escStrs := []string{"a\\u0026b\\u003c\\u003e", "\\\\u0026\\\\\\u003c", "&lt;&gt;&amp;&#34;", "\\n\\\"\\\\\\/\\ud83d", "\u2028\u2029\ufffd", "\x00\x01\x1f\n\r\t\x7f"}
	for _, g := range generating {
		for _, s := range escStrs {
			for f := 0; f < 5; f++ {
				k := g
				k.Principals = []string{"a"}
				switch f {
				case 0:
					k.Principals = []string{s, "b"}
				case 1:
					k.TransID = s
				case 2:
					k.ReqUser = s
				case 3:
					k.ReqIP = s
				case 4:
					k.ReqHost = s
				}
				c05Enc(c, k)
				n++
			}
		}
	}
	c.Set("encoder_values", n)
	c.Set("generating_set", len(generating))

	// decoder: all flag/touch/version combinations as texts (consistent and inconsistent)
	for _, ff := range bools {
		for _, hw := range bools {
			for _, hl := range bools {
				for _, nc := range bools {
					for _, touch := range []int{1, 0, 2, 3, -1, 4} {
						for _, ver := range []int{1, 0, 2, 65535, 65536, -1} {
							p := c05Pairs(keyid.KeyID{Principals: []string{"a"}, TransID: "t", IsFirefighter: ff, IsHWKey: hw, IsHeadless: hl, IsNonce: nc, TouchPolicy: keyid.TouchPolicy(touch)})
							p[11].v = fmt.Sprint(ver)
							c05Dec(c, c05Compose(p), "flag product")
						}
					}
				}
			}
		}
	}
	// surgeries
	retypes := []string{"null", "0", "1", `"x"`, `"1"`, "[]", "[1]", "{}", "true", "false", "1.0", "1e0", "1.5", "65537", `["a",1]`}
	surg := 0
	for gi, g := range generating {
		base := c05Pairs(g)
		if enc, _ := (&g).Marshal(); enc != c05Compose(base) {
			c.Violation("C05:harness:compose", "harness composition differs from encoder output: "+enc+" vs "+c05Compose(base), nil)
			return
		}
		for i := range base {
			mk := func(f func(p []kv) []kv, note string) {
				p := f(append([]kv{}, base...))
				t := c05Compose(p)
				c05Dec(c, t, note)
				surg++
				if gi == 0 && i == 9 && c.SampleN() < 6 {
					c.Sample(c05Case{Kind: "dec", Text: t, Note: note})
				}
			}
			key := base[i].k
			mk(func(p []kv) []kv { return append(p[:i], p[i+1:]...) }, "delete "+key)
			for _, nk := range []string{strings.ToUpper(key), strings.ToLower(key), strings.ToUpper(key[:1]) + key[1:], key + " ", " " + key} {
				if nk == key {
					continue
				}
				nk := nk
				mk(func(p []kv) []kv { p[i].k = nk; return p }, "rename "+key+"->"+nk)
				// renamed copy in addition to the original with a conflicting value (case-insensitive struct decoding)
				for _, rv := range []string{"true", "false", "2", "1", "0"} {
					rv := rv
					mk(func(p []kv) []kv { return append(p, kv{nk, rv}) }, "append case-variant "+nk+"="+rv)
				}
			}
			for _, rv := range retypes {
				rv := rv
				mk(func(p []kv) []kv { p[i].v = rv; return p }, "retype "+key+"="+rv)
				mk(func(p []kv) []kv { return append([]kv{{key, rv}}, p...) }, "duplicate-before "+key+"="+rv)
				mk(func(p []kv) []kv { return append(p, kv{key, rv}) }, "duplicate-after "+key+"="+rv)
			}
		}
	}
	// two members of the wrong JSON type at once, in encoder order and with the first one moved to the front of the text (a
	// decoder that reports only the first type error it meets must still refuse because of the second)
	dret := 0
	for gi, g := range generating {
		if gi > 3 {
			break
		}
		base := c05Pairs(g)
		for i := range base {
			for j := range base {
				if i == j {
					continue
				}
				for _, vi := range []string{"{}", `"1"`} {
					for _, vj := range []string{"{}", `"1"`, "[1]"} {
						p := append([]kv{}, base...)
						p[i].v, p[j].v = vi, vj
						c05Dec(c, c05Compose(p), fmt.Sprintf("double retype %s=%s %s=%s", base[i].k, vi, base[j].k, vj))
						front := append([]kv{p[i]}, append(append([]kv{}, p[:i]...), p[i+1:]...)...)
						c05Dec(c, c05Compose(front), fmt.Sprintf("double retype, %s=%s first, %s=%s", base[i].k, vi, base[j].k, vj))
						dret += 2
					}
				}
			}
		}
	}
	c.Set("double_retype_texts", dret)
	// double surgeries: one field deleted or case-renamed AND another one duplicated / retyped (a decoder that counts
	// names instead of checking each one is fooled only by two deviations at once)
	dbl := 0
	for gi, g := range generating {
		if gi > 3 {
			break
		}
		base := c05Pairs(g)
		for i := range base {
			for j := range base {
				if i == j {
					continue
				}
				for _, variant := range []int{0, 1, 2, 3} {
					p := append([]kv{}, base...)
					switch variant {
					case 0: // delete i, duplicate j
						p = append(p, kv{base[j].k, base[j].v})
					case 1: // delete i, duplicate j before
						p = append([]kv{{base[j].k, base[j].v}}, p...)
					case 2: // rename i in case, duplicate j
						p = append(p, kv{strings.ToUpper(base[i].k), base[i].v}, kv{base[j].k, base[j].v})
					case 3: // delete i, add an unknown key
						p = append(p, kv{"extra" + base[j].k, "1"})
					}
					// remove the original i
					var q []kv
					removed := false
					for _, e := range p {
						if !removed && e.k == base[i].k {
							removed = true
							continue
						}
						q = append(q, e)
					}
					c05Dec(c, c05Compose(q), fmt.Sprintf("double surgery %d: %s removed, %s duplicated", variant, base[i].k, base[j].k))
					dbl++
				}
			}
		}
	}
	// structural relocation: a field leaves the top level and reappears inside a nested value of an unknown (or known)
	// key - object, array of objects, two levels deep, or a string holding JSON text; also every field nested at once
	nest := 0
	for gi, g := range generating {
		if gi > 3 {
			break
		}
		base := c05Pairs(g)
		wraps := []func(k, v string) string{
			func(k, v string) string { kb, _ := json.Marshal(k); return "{" + string(kb) + ":" + v + "}" },
			func(k, v string) string { kb, _ := json.Marshal(k); return "[{" + string(kb) + ":" + v + "}]" },
			func(k, v string) string { kb, _ := json.Marshal(k); return `{"a":{` + string(kb) + ":" + v + `}}` },
			func(k, v string) string {
				kb, _ := json.Marshal(k)
				sb, _ := json.Marshal("{" + string(kb) + ":" + v + "}")
				return string(sb)
			},
		}
		for i := range base {
			for wi, wrap := range wraps {
				for _, host := range []string{"ext", "prins", base[(i+1)%len(base)].k} {
					for _, keepTop := range []bool{false, true} {
						var q []kv
						for j, e := range base {
							if j == i && !keepTop {
								continue
							}
							if e.k == host {
								continue // the host key carries the nested value instead of its own
							}
							q = append(q, e)
						}
						q = append(q, kv{host, wrap(base[i].k, base[i].v)})
						c05Dec(c, c05Compose(q), fmt.Sprintf("relocation %d: %s nested under %s (kept at top level: %v)", wi, base[i].k, host, keepTop))
						nest++
					}
				}
			}
		}
		// a field is deleted while a top-level STRING VALUE (or a principal) spells its name: member names and string
		// values must not be confused
		for i := range base {
			for j := range base {
				if i == j || !strings.HasPrefix(base[j].v, "\"") && base[j].k != "prins" {
					continue
				}
				var q []kv
				for x, e := range base {
					if x == i {
						continue
					}
					if x == j {
						nb, _ := json.Marshal(base[i].k)
						if e.k == "prins" {
							e.v = "[" + string(nb) + "]"
						} else {
							e.v = string(nb)
						}
					}
					q = append(q, e)
				}
				c05Dec(c, c05Compose(q), fmt.Sprintf("relocation: %s deleted, value of %s spells its name", base[i].k, base[j].k))
				nest++
			}
		}
		// everything but the version nested
		var inner []kv
		for _, e := range base {
			if e.k != "ver" {
				inner = append(inner, e)
			}
		}
		c05Dec(c, c05Compose([]kv{{"ver", "1"}, {"ext", c05Compose(inner)}}), "relocation: all fields but ver nested under ext")
		c05Dec(c, c05Compose([]kv{{"ext", c05Compose(base)}}), "relocation: whole KeyID nested under ext")
		c05Dec(c, "["+c05Compose(base)+"]", "relocation: whole KeyID inside an array")
		nest += 3
	}
	c.Set("relocations", nest)
	c.Set("double_surgeries", dbl)
	c.Set("surgeries", surg)
	// history independence: every ordered pair over {each required field deleted, valid, inconsistent, wrong version, not JSON}
	// is decoded back to back; the second decode is judged by the same oracle (a decoder that keeps state between calls —
	// a pooled scratch map, a cached result — shows up here and nowhere else)
	if len(generating) > 0 {
		base := c05Pairs(generating[0])
		var set []string
		for i := range base {
			p := append(append([]kv{}, base[:i]...), base[i+1:]...)
			set = append(set, c05Compose(p))
		}
		set = append(set, c05Compose(base))
		incons := append([]kv{}, base...)
		incons[7].v, incons[6].v = "true", "true" // headless + hardware key
		set = append(set, c05Compose(incons))
		v2 := append([]kv{}, base...)
		v2[11].v = "2"
		set = append(set, c05Compose(v2), "not json", `{"ver":1,"transID":"22dde224"}`, "{}")
		// a valid object followed by more bytes (refused as a whole): garbage, a closing brace, and ANOTHER valid object -
		// whatever a decoder read ahead must not reach the next call
		other := generating[len(generating)-1]
		other.Principals, other.TransID, other.ReqUser = []string{"intruder", "root"}, "ffffffffff", "mallory"
		otherText, _ := (&other).Marshal()
		set = append(set, c05Compose(base)+" trailing", c05Compose(base)+"}", c05Compose(base)+otherText, c05Compose(base)+"\n"+otherText+"\n", otherText)
		np := 0
		runtime.LockOSThread() // (pools are per processor: keep the back-to-back calls on one)
		defer runtime.UnlockOSThread()
		enc0, want0 := c05Compose(base), ev.JSON(generating[0])
		for _, t1 := range set {
			// an encoder output decoded right after t1 yields the KeyID it spells (not only "some consistent KeyID")
			c05Dec(c, t1, "pair/first")
			if k2, e2 := keyid.Unmarshal(enc0); e2 != nil || k2 == nil || ev.JSON(k2) != want0 {
				c.Violation("C05:decode:depends-on-the-previous-text", fmt.Sprintf("an encoder output decoded right after %q gives %s (err=%v), it spells %s", t1[:min(len(t1), 60)], ev.JSON(k2), e2, want0), c05Case{Kind: "dec", Text: t1, Note: "then the encoder output " + enc0})
			}
		}
		for _, t1 := range set {
			for _, t2 := range set {
				c05Dec(c, t1, "pair/first")
				c05Dec(c, t2, "pair/second after "+t1[:min(len(t1), 40)])
				np++
			}
			for _, t2 := range set {
				for _, t3 := range set[:4] {
					c05Dec(c, t1, "triple/first")
					c05Dec(c, t2, "triple/second")
					c05Dec(c, t3, "triple/third")
				}
			}
		}
		c.Set("decode_pairs", np)
	}
	// catalogue of JSON values
	for _, t := range []string{"", "null", "true", "false", "0", "1", `""`, `"{}"`, "[]", "[{}]", "[null]", "{}", `{"ver":1}`, `{"ver":null}`, `{"a":{"b":{"c":[1,2,{"d":null}]}}}`,
		"1e400", "-0", "123456789012345678901234567890", `{"ver":1.0}`, `{"ver":1e0}`, `{"ver":"1"}`, "{\"ver\":1}\x00", " {} ", "{}{}", `{"ver":1}}`, "\xef\xbb\xbf{}",
		strings.Repeat("[", 10000), strings.Repeat(`{"a":`, 5000)} {
		c05Dec(c, t, "catalogue")
	}
	// byte-substitution neighbourhood of one encoder output
	alpha := []byte("{}[]\":,\\1nt \xff")
	if len(generating) > 0 {
		base, _ := (&generating[0]).Marshal()
		for pos := 0; pos < len(base); pos++ {
			for _, b := range alpha {
				t := []byte(base)
				t[pos] = b
				c05Dec(c, string(t), "substitute")
			}
			c05Dec(c, base[:pos], "truncate")
			c05Dec(c, base[:pos]+base[pos+1:], "drop byte")
		}
	}
	// all strings up to length L over the structural alphabet
	L := 5
	if c.Thorough() {
		L = 6
	}
	total := 0
	for l := 1; l <= L; l++ {
		cnt := 1
		for i := 0; i < l; i++ {
			cnt *= len(alpha)
		}
		total += cnt
		ll := l
		c.ParMap(len(alpha), func(first int) {
			buf := make([]byte, ll)
			buf[0] = alpha[first]
			idx := make([]int, ll)
			for {
				for i := 1; i < ll; i++ {
					buf[i] = alpha[idx[i]]
				}
				c05Dec(c, string(buf), "short string")
				i := ll - 1
				for ; i >= 1; i-- {
					idx[i]++
					if idx[i] < len(alpha) {
						break
					}
					idx[i] = 0
				}
				if i < 1 {
					break
				}
			}
		})
	}
	c.Set("short_strings", total)
	c.Set("short_string_max_len", L)
}
