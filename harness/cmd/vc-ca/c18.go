//go:build verif

package main

import "github.com/theparanoids/ysshra/internal/zzverif/ev"

func checkC18(c *ev.Ctx) { c.Cap("not implemented") }
