//go:build verif

package main

import (
	"bytes"
	"context"
	"crypto/tls"
	"crypto/x509"
	"encoding/json"
	"fmt"
	"os"
	"path/filepath"
	"strings"
	"time"

	"github.com/theparanoids/crypki/proto"
	"golang.org/x/crypto/ssh"

	"github.com/theparanoids/ysshra/crypki"
	"github.com/theparanoids/ysshra/internal/zzverif/ev"
)

type c18Server struct {
	Identity   string // ca1 | ca2 | foreign | selfsigned | expired | notyet | othername
	Proto      string // 1.0-1.1 | 1.2 | 1.3 | 1.0-1.3
	ClientAuth string // require | request | ignore
}

type c18Case struct {
	Bundle  string // one | two | both | … | rotating:<ca2|ca1|both> (one file path whose content is rewritten before the signer is built)
	Servers []c18Server
	Then    [][]c18Server `json:",omitempty"` // further calls on the SAME signer, each after the servers took these personalities
	Before  []string      `json:",omitempty"` // rotating bundles: contents the SAME path held earlier, each used by a signer that signed once
}

func (k c18Case) genuineAt(i int) bool {
	s := k.Servers[i]
	if s.Identity == "firstname" {
		return i == 0 && s.Proto != "1.0-1.1" // it names 127.0.0.1: genuine only when it really is the first endpoint
	}
	return k.genuine(s)
}

func (k c18Case) genuine(s c18Server) bool {
	if s.Proto == "1.0-1.1" {
		return false
	}
	if s.ClientAuth == "verify-if-given-foreign-ca" {
		return false // the RA presents its certificate, this server verifies it against another CA and refuses the handshake
	}
	switch s.Identity {
	case "ca1b":
		return strings.HasPrefix(k.Bundle, "rotated-")
	case "ca1":
		return k.Bundle != "rotating:ca2"
	case "ca2":
		return k.Bundle != "one" && k.Bundle != "rotating:ca1" && !strings.HasPrefix(k.Bundle, "rotated-")
	}
	return false
}

func c18Why(k c18Case, s c18Server) string {
	switch {
	case s.Identity == "ca2" && (k.Bundle == "one" || k.Bundle == "rotating:ca1"), s.Identity == "ca1" && k.Bundle == "rotating:ca2":
		return "certificate issued by a CA that is not in the configured bundle (as the file reads now)"
	case s.Identity == "foreign":
		return "certificate issued by a foreign CA"
	case s.Identity == "selfsigned":
		return "self-signed certificate"
	case s.Identity == "expired":
		return "expired certificate"
	case s.Identity == "notyet":
		return "certificate not yet valid"
	case s.Identity == "firstname":
		return "certificate of a configured CA that names the first endpoint, presented by another endpoint"
	case s.Identity == "othername":
		return "certificate valid only for another name/address"
	case s.Proto == "1.0-1.1":
		return "server offering only TLS 1.0-1.1"
	case s.ClientAuth == "verify-if-given-foreign-ca":
		return "server that verifies a presented client certificate against another CA: the RA must present its certificate and be refused, not be served anonymously"
	}
	return "?"
}

func c18Run(c *ev.Ctx, k c18Case) {
	c.Eval()
	files := map[string][]string{"one": {c17PKI.CA1File}, "two": {c17PKI.CA1File, c17PKI.CA2File}, "both": {c17PKI.BothFile},
		// the same two CAs in other legal layouts (every one of them configures CA 1 and CA 2)
		"two-no-final-newline": {c17PKI.CA1NoNLFile, c17PKI.CA2File}, "two-unrelated-first-no-final-newline": {c17PKI.PadCA1NoNLFile, c17PKI.CA2File},
		"both-crlf-with-text": {c17PKI.BothCRLFFile}, "two-reversed": {c17PKI.CA2File, c17PKI.CA1NoNLFile},
		// CA one during a key rotation: two CA certificates with the same subject name (old and new key)
		"rotated-two-files": {c17PKI.CA1File, c17PKI.CA1bFile}, "rotated-one-file": {c17PKI.RotatedOneFile}, "rotated-new-first": {c17PKI.CA1bFile, c17PKI.CA1File}}[k.Bundle]
	if strings.HasPrefix(k.Bundle, "rotating:") {
		// one configured path; its content changes over the life of the process (a rotated CA bundle). Earlier contents were
		// each loaded by a signer that completed a call; the signer under test is built after the last rewrite.
		path := filepath.Join(c17PKI.dir, "rotating-bundle.pem")
		content := map[string]string{"ca1": c17PKI.CA1File, "ca2": c17PKI.CA2File, "both": c17PKI.BothFile}
		for _, b := range k.Before {
			data, _ := os.ReadFile(content[b])
			os.WriteFile(path, data, 0o600)
			c17Farm.servers[0].reset()
			id := map[string]string{"ca1": "ca1", "ca2": "ca2", "both": "ca1"}[b]
			c17Farm.servers[0].mu.Lock()
			c17Farm.servers[0].tls = c17PKI.serverTLS(id, c17Farm.servers[0].ip, tls.VersionTLS12, tls.VersionTLS13, tls.RequireAndVerifyClientCert, false)
			c17Farm.servers[0].ans = answer{Kind: "ok", Key: c17CertLines[0]}
			c17Farm.servers[0].mu.Unlock()
			if sg, e := crypki.NewSigner(crypki.SignerConfig{TLSClientKeyFile: c17PKI.ClientKeyFile, TLSClientCertFile: c17PKI.ClientCertFile, TLSCACertFiles: []string{path},
				CrypkiEndpoints: []string{"127.0.0.1"}, CrypkiPort: uint(c17Farm.port), Retries: 1, PerTryTimeout: 15 * time.Second}); e == nil {
				cx, cancel := context.WithTimeout(context.Background(), 60*time.Second)
				sg.Sign(cx, &proto.SSHCertificateSigningRequest{KeyMeta: &proto.KeyMeta{Identifier: "slot"}, Principals: []string{"alice"}, PublicKey: c17CertLines[0], Validity: 60})
				cancel()
			}
		}
		data, _ := os.ReadFile(content[strings.TrimPrefix(k.Bundle, "rotating:")])
		os.WriteFile(path, data, 0o600)
		files = []string{path}
	}
	c18Configure(k)
	var eps []string
	for i := range k.Servers {
		eps = append(eps, fmt.Sprintf("127.0.0.%d", i+1))
	}
	signer, err := crypki.NewSigner(crypki.SignerConfig{TLSClientKeyFile: c17PKI.ClientKeyFile, TLSClientCertFile: c17PKI.ClientCertFile, TLSCACertFiles: files,
		CrypkiEndpoints: eps, CrypkiPort: uint(c17Farm.port), Retries: 1, PerTryTimeout: 15 * time.Second})
	if err != nil {
		c.Violation("C18:newsigner-refuses-valid-config", err.Error(), k)
		return
	}
	if !c18CallAndJudge(c, k, signer) {
		return
	}
	for _, next := range k.Then {
		// the SAME signer, later: the servers behind the endpoints have changed (a restarted, re-provisioned or hijacked
		// endpoint); this call is judged by what the endpoints are now
		kk := k
		kk.Servers = next
		c18Configure(kk)
		if !c18CallAndJudge(c, kk, signer) {
			return
		}
	}
}

// c18Configure gives the farm's servers the personalities of k.Servers.
func c18Configure(k c18Case) {
	for i, s := range c17Farm.servers {
		s.reset()
		if i >= len(k.Servers) {
			continue
		}
		sv := k.Servers[i]
		minV, maxV := uint16(tls.VersionTLS10), uint16(tls.VersionTLS13)
		switch sv.Proto {
		case "1.0-1.1":
			maxV = tls.VersionTLS11
		case "1.2":
			minV, maxV = tls.VersionTLS12, tls.VersionTLS12
		case "1.3":
			minV = tls.VersionTLS13
		}
		ca := map[string]tls.ClientAuthType{"require": tls.RequireAndVerifyClientCert, "request": tls.RequestClientCert, "ignore": tls.NoClientCert,
			"request-foreign-ca": tls.RequestClientCert, "verify-if-given-foreign-ca": tls.VerifyClientCertIfGiven}[sv.ClientAuth]
		cfg := c17PKI.serverTLS(sv.Identity, s.ip, minV, maxV, ca, strings.HasSuffix(sv.ClientAuth, "foreign-ca"))
		s.mu.Lock()
		s.tls = cfg
		s.ans = answer{Kind: "ok", Key: c17CertLines[i%len(c17CertLines)]}
		s.mu.Unlock()
	}
}

// c18CallAndJudge makes one signing call and judges it against the current personalities (k.Servers); false = stop.
func c18CallAndJudge(c *ev.Ctx, k c18Case, signer *crypki.Signer) bool {
	req := &proto.SSHCertificateSigningRequest{KeyMeta: &proto.KeyMeta{Identifier: "slot"}, Principals: []string{"alice"}, PublicKey: c17CertLines[0], Validity: 60}
	ctx, cancel := context.WithTimeout(context.Background(), 90*time.Second)
	defer cancel()
	var certs []ssh.PublicKey
	var serr error
	if p := ev.Guard(func() { certs, _, serr = signer.Sign(ctx, req) }); p != "" {
		c.Violation("C18:crash:"+ev.PanicSite(p), p, k)
		return false
	}
	first := -1
	for i := range k.Servers {
		if k.genuineAt(i) {
			first = i
			break
		}
	}
	c.Outcome(fmt.Sprintf("bundle=%s/endpoints=%d/first-genuine=%d/err=%v", k.Bundle, len(k.Servers), first, serr != nil))
	c.Nontrivial(ev.JSON(k))
	for i, s := range c17Farm.servers {
		if i >= len(k.Servers) {
			break
		}
		s.mu.Lock()
		n, versions, peers, hs := len(s.Requests), append([]uint16{}, s.Versions...), s.PeerCerts, s.Handshakes
		s.mu.Unlock()
		sv := k.Servers[i]
		if !k.genuineAt(i) {
			if n > 0 {
				c.Violation("C18:impostor-served:"+sv.Identity+":"+sv.Proto, fmt.Sprintf("the RPC handler of endpoint %d ran although it is an impostor (%s)", i, c18Why(k, sv)), k)
			}
			if first < 0 || i < first {
				if hs == 0 {
					c.Count("impostors_not_even_dialled", 1)
				}
			}
			continue
		}
		if i == first {
			if n != 1 {
				c.Violation("C18:genuine-endpoint-not-used", fmt.Sprintf("genuine endpoint %d (identity %s, %s, client-auth %s, bundle %s) received %d requests", i, sv.Identity, sv.Proto, sv.ClientAuth, k.Bundle, n), k)
				continue
			}
			if versions[0] < tls.VersionTLS12 {
				c.Violation("C18:old-protocol-negotiated", fmt.Sprintf("negotiated TLS version %#x", versions[0]), k)
			}
			if sv.ClientAuth != "ignore" {
				if len(peers[0]) == 0 || !bytes.Equal(peers[0][0].Raw, c17PKI.clientLeaf.Raw) {
					c.Violation("C18:client-certificate-not-presented:"+sv.ClientAuth, "the server asked for a client certificate and did not receive the configured one", k)
				}
			}
		} else if n > 0 {
			c.Violation("C18:contacts-later-endpoint", fmt.Sprintf("endpoint %d was used although endpoint %d had already signed", i, first), k)
		}
	}
	if first < 0 {
		if serr == nil {
			c.Violation("C18:success-against-impostors-only", fmt.Sprintf("Sign succeeded with %d certificates although no endpoint is genuine", len(certs)), k)
		}
		return true
	}
	if serr != nil {
		c.Violation("C18:genuine-endpoint-fails:"+k.Servers[first].Identity+":"+k.Servers[first].Proto+":"+k.Servers[first].ClientAuth+":"+k.Bundle, fmt.Sprintf("endpoint %d is genuine but Sign failed: %v", first, serr), k)
		return false
	}
	want, _, _, _, _ := ssh.ParseAuthorizedKey([]byte(c17CertLines[first%len(c17CertLines)]))
	if len(certs) != 1 || !bytes.Equal(certs[0].Marshal(), want.Marshal()) {
		c.Violation("C18:reply-from-wrong-endpoint", fmt.Sprintf("Sign did not return the certificate of the first genuine endpoint %d", first), k)
	}
	return true
}

// c18Clock: a long-lived signer judges a server certificate by the time of the CALL: a certificate that expired since
// the signer was built is refused, one issued since then is accepted. Real time (about 14 s); if the machine is so slow
// that the first call does not finish within the certificate's 10 s of life, the scenario is abandoned (a cap, no alarm).
func c18Clock(c *ev.Ctx) {
	c.Eval()
	k := map[string]any{"clock": true, "scenario": "signer built, server certificate expires, server certificate re-issued"}
	s := c17Farm.servers[0]
	for _, o := range c17Farm.servers {
		o.reset()
	}
	set := func(identity string) time.Time {
		cfg := c17PKI.serverTLS(identity, s.ip, tls.VersionTLS12, tls.VersionTLS13, tls.RequireAndVerifyClientCert, false)
		s.reset()
		s.mu.Lock()
		s.tls = cfg
		s.ans = answer{Kind: "ok", Key: c17CertLines[0]}
		s.mu.Unlock()
		return cfg.Certificates[0].Leaf.NotAfter
	}
	notAfter := set("expiring")
	signer, err := crypki.NewSigner(crypki.SignerConfig{TLSClientKeyFile: c17PKI.ClientKeyFile, TLSClientCertFile: c17PKI.ClientCertFile, TLSCACertFiles: []string{c17PKI.CA1File},
		CrypkiEndpoints: []string{"127.0.0.1"}, CrypkiPort: uint(c17Farm.port), Retries: 1, PerTryTimeout: 15 * time.Second})
	if err != nil {
		c.Violation("C18:newsigner-refuses-valid-config", err.Error(), k)
		return
	}
	call := func() (error, int) {
		req := &proto.SSHCertificateSigningRequest{KeyMeta: &proto.KeyMeta{Identifier: "slot"}, Principals: []string{"alice"}, PublicKey: c17CertLines[0], Validity: 60}
		ctx, cancel := context.WithTimeout(context.Background(), 60*time.Second)
		defer cancel()
		var serr error
		if p := ev.Guard(func() { _, _, serr = signer.Sign(ctx, req) }); p != "" {
			serr = fmt.Errorf("panic: %s", p)
		}
		s.mu.Lock()
		n := len(s.Requests)
		s.mu.Unlock()
		return serr, n
	}
	e1, n1 := call()
	if time.Now().After(notAfter.Add(-2 * time.Second)) {
		c.Cap("clock scenario abandoned: the first call took most of the certificate's lifetime")
		return
	}
	if e1 != nil || n1 != 1 {
		c.Violation("C18:genuine-endpoint-fails:clock:first-call", fmt.Sprintf("the certificate is valid for several more seconds, yet the call failed (%v, %d requests served)", e1, n1), k)
		return
	}
	time.Sleep(time.Until(notAfter.Add(2 * time.Second)))
	s.reset()
	e2, n2 := call()
	c.Outcome(fmt.Sprintf("clock/after-expiry/err=%v/served=%d", e2 != nil, n2))
	c.Nontrivial("clock")
	if n2 > 0 || e2 == nil {
		c.Violation("C18:impostor-served:expired-since-the-signer-was-built", fmt.Sprintf("the server's certificate expired %v ago, after the signer was built; the same signer still used it (served %d requests, err=%v)", time.Since(notAfter).Round(time.Second), n2, e2), k)
	}
	set("fresh")
	e3, n3 := call()
	c.Outcome(fmt.Sprintf("clock/reissued/err=%v/served=%d", e3 != nil, n3))
	if e3 != nil || n3 != 1 {
		c.Violation("C18:genuine-endpoint-fails:clock:certificate-issued-after-the-signer-was-built", fmt.Sprintf("the server now presents a certificate of the configured CA issued a second ago; the long-lived signer refused it: %v", e3), k)
	}
}

// c18OverlapCase: two signers of one process use the same endpoint at overlapping times. Signer A's call is in flight (the
// server holds it) while signer B - the signer under test - makes its call; the gate is event-driven, no timing is involved.
type c18OverlapCase struct {
	Overlap    bool
	Server     string // identity of the one server: ca1 | ca2
	BundleA    string // what the signer with the call in flight trusts: ca1 | ca2 | both
	BundleB    string // what the signer under test trusts
	ClientAuth string
}

func c18Overlap(c *ev.Ctx, k c18OverlapCase) {
	c.Eval()
	k.Overlap = true
	content := map[string]string{"ca1": c17PKI.CA1File, "ca2": c17PKI.CA2File, "both": c17PKI.BothFile}
	trusts := func(bundle string) bool { return bundle == "both" || bundle == k.Server }
	s := c17Farm.servers[0]
	for _, o := range c17Farm.servers {
		o.reset()
	}
	ca := map[string]tls.ClientAuthType{"require": tls.RequireAndVerifyClientCert, "request": tls.RequestClientCert}[k.ClientAuth]
	s.mu.Lock()
	s.tls = c17PKI.serverTLS(k.Server, s.ip, tls.VersionTLS12, tls.VersionTLS13, ca, false)
	s.ans = answer{Kind: "hold", Key: c17CertLines[0]}
	s.arrived, s.gate = make(chan struct{}), make(chan struct{})
	arrived, gate := s.arrived, s.gate
	s.mu.Unlock()
	released := false
	release := func() {
		if !released {
			released = true
			close(gate)
		}
	}
	defer func() {
		release()
		s.mu.Lock()
		s.arrived, s.gate = nil, nil
		s.mu.Unlock()
	}()
	mk := func(bundle string) (*crypki.Signer, error) {
		return crypki.NewSigner(crypki.SignerConfig{TLSClientKeyFile: c17PKI.ClientKeyFile, TLSClientCertFile: c17PKI.ClientCertFile, TLSCACertFiles: []string{content[bundle]},
			CrypkiEndpoints: []string{"127.0.0.1"}, CrypkiPort: uint(c17Farm.port), Retries: 1, PerTryTimeout: 120 * time.Second})
	}
	sa, ea := mk(k.BundleA)
	sb, eb := mk(k.BundleB)
	if ea != nil || eb != nil {
		c.Violation("C18:newsigner-refuses-valid-config", fmt.Sprint(ea, eb), k)
		return
	}
	req := func(who string) *proto.SSHCertificateSigningRequest {
		return &proto.SSHCertificateSigningRequest{KeyMeta: &proto.KeyMeta{Identifier: "slot"}, Principals: []string{who}, PublicKey: c17CertLines[0], Validity: 60}
	}
	type res struct {
		certs []ssh.PublicKey
		err   error
		p     string
	}
	aDone := make(chan res, 1)
	go func() {
		var r res
		cx, cancel := context.WithTimeout(context.Background(), 150*time.Second)
		defer cancel()
		r.p = ev.Guard(func() { r.certs, _, r.err = sa.Sign(cx, req("signer-A")) })
		aDone <- r
	}()
	inFlight := false
	if trusts(k.BundleA) {
		select {
		case <-arrived:
			inFlight = true
		case r := <-aDone:
			c.Violation("C18:genuine-endpoint-fails:overlap-first-call", fmt.Sprintf("the first signer's call ended before reaching the handler: %v %s", r.err, r.p), k)
			return
		case <-time.After(100 * time.Second):
			c.Cap("overlap scenario: the first signer's request did not arrive within 100 s")
			return
		}
	} else {
		<-aDone // A is refused by its own configuration; nothing is in flight (control case)
	}
	var rb res
	cx, cancel := context.WithTimeout(context.Background(), 90*time.Second)
	bDone := make(chan struct{})
	go func() {
		rb.p = ev.Guard(func() { rb.certs, _, rb.err = sb.Sign(cx, req("signer-B")) })
		close(bDone)
	}()
	select {
	case <-bDone:
	case <-time.After(100 * time.Second):
		cancel()
		c.Violation("C18:overlap:second-signer-never-returns", "the second signer's call did not return within 100 s while the first signer's call was in flight", k)
		return
	}
	cancel()
	if rb.p != "" {
		c.Violation("C18:crash:"+ev.PanicSite(rb.p), rb.p, k)
		return
	}
	s.mu.Lock()
	var bServed bool
	var bPeers []*x509.Certificate
	for i, r := range s.Requests {
		if len(r.Principals) == 1 && r.Principals[0] == "signer-B" {
			bServed = true
			if i < len(s.PeerCerts) {
				bPeers = s.PeerCerts[i]
			}
		}
	}
	s.mu.Unlock()
	c.Outcome(fmt.Sprintf("overlap/in-flight=%v/B-trusts=%v/B-served=%v/err=%v", inFlight, trusts(k.BundleB), bServed, rb.err != nil))
	c.Nontrivial(ev.JSON(k))
	if !trusts(k.BundleB) {
		if bServed {
			c.Violation("C18:impostor-served:while-another-signer-call-in-flight", fmt.Sprintf("the signer trusts only %s, the server presents a certificate of %s, yet its request reached the RPC handler while another signer's call to the same endpoint was in flight", k.BundleB, k.Server), k)
		}
		if rb.err == nil {
			c.Violation("C18:success-against-impostors-only", "Sign succeeded against a server its configuration does not trust (another signer's call was in flight)", k)
		}
	} else {
		if rb.err != nil || !bServed {
			c.Violation("C18:genuine-endpoint-fails:overlap:"+k.Server+":"+k.BundleB, fmt.Sprintf("the endpoint is genuine for the second signer but its call failed while another call was in flight: %v", rb.err), k)
		} else if len(bPeers) == 0 || !bytes.Equal(bPeers[0].Raw, c17PKI.clientLeaf.Raw) {
			c.Violation("C18:client-certificate-not-presented:"+k.ClientAuth, "the second signer's request arrived without the configured client certificate", k)
		}
	}
	release()
	if inFlight {
		select {
		case r := <-aDone:
			if r.err != nil {
				c.Violation("C18:genuine-endpoint-fails:overlap-first-call", fmt.Sprintf("the call that was in flight failed after the other signer's call: %v", r.err), k)
			}
		case <-time.After(100 * time.Second):
			c.Violation("C18:overlap:first-signer-never-returns", "the held call did not return within 100 s of being released", k)
		}
	}
}

func checkC18(c *ev.Ctx) {
	c.Rule("real crypki.NewSigner / Sign over real TLS against harness gRPC servers on 127.0.0.1..3:port whose TLS personality is swapped per configuration: CA bundle {one file, two files, one file with two certificates; plus 4 other legal layouts of the two-CA bundle: no newline after the last END line, an unrelated CA in front, CRLF with text between blocks, reversed order; 3 layouts of a CA in key rotation (two certificates with the SAME subject name, old and new key); and a single path whose content is rewritten between signers (6 earlier-content histories x 3 current contents)} x server identity {configured CA 1, CA 2, foreign CA, self-signed, expired, not yet valid, other name} x protocol range {1.0-1.1, 1.2, 1.3, 1.0-1.3} x client-certificate policy {require+verify, request, ignore, request while naming only a foreign client CA, verify-if-given against a foreign client CA} (420 single-endpoint configurations), plus endpoint lists of length 2..3 with every placement of one genuine server among impostors of 3 kinds incl. a configured-CA certificate that names the first endpoint (thorough: 7 kinds, two genuine servers); plus 9 sequences of two or three calls on ONE long-lived signer with the servers behind the endpoints changing personality in between (genuine and impostor swapping places), plus one real-time scenario in which the server certificate expires, and is re-issued, during the life of one signer (14 s), plus 36 overlap scenarios: two signers with bundles {CA 1, CA 2, both} each, the first signer's call held in the server's handler (event-driven gate) while the second signer calls the same endpoint; servers record handshakes, negotiated version, peer certificates and whether the RPC handler ran. non-trivial = every configuration; distinct by configuration")
	c.Assume("TLS and gRPC libraries run with their own goroutines and real time; outcomes are deterministic functions of the configuration; handshake internals are trusted")
	c17PKI = newPKI()
	defer os.RemoveAll(c17PKI.dir)
	// make the process-wide "system" pool contain the foreign CA: a client that trusts system roots instead of (or in
	// addition to) the configured bundle then accepts the foreign-CA impostor, which the oracle reports
	os.Setenv("SSL_CERT_FILE", c17PKI.ForeignFile)
	os.Setenv("SSL_CERT_DIR", c17PKI.dir+"/no-such-dir")
	c17Farm = newFarm(c17PKI, 3)
	defer c17Farm.stop()
	if c.ReplayCase != nil {
		var ck struct {
			Clock bool `json:"clock"`
		}
		if json.Unmarshal(c.ReplayCase, &ck); ck.Clock {
			c18Clock(c)
			return
		}
		var ok c18OverlapCase
		if json.Unmarshal(c.ReplayCase, &ok); ok.Overlap {
			c18Overlap(c, ok)
			return
		}
		var k c18Case
		json.Unmarshal(c.ReplayCase, &k)
		c18Run(c, k)
		return
	}
	n := 0
	c18Clock(c)
	n++
	// two differently configured signers whose calls to one endpoint overlap
	for _, srv := range []string{"ca1", "ca2"} {
		for _, ba := range []string{"ca1", "ca2", "both"} {
			for _, bb := range []string{"ca1", "ca2", "both"} {
				for _, ca := range []string{"require", "request"} {
					c18Overlap(c, c18OverlapCase{Server: srv, BundleA: ba, BundleB: bb, ClientAuth: ca})
					n++
				}
			}
		}
	}
	for _, b := range []string{"one", "two", "both"} {
		for _, id := range []string{"ca1", "ca2", "foreign", "selfsigned", "expired", "notyet", "othername"} {
			for _, pr := range []string{"1.2", "1.0-1.1", "1.3", "1.0-1.3"} {
				for _, ca := range []string{"require", "request", "ignore", "request-foreign-ca", "verify-if-given-foreign-ca"} {
					k := c18Case{Bundle: b, Servers: []c18Server{{id, pr, ca}}}
					c18Run(c, k)
					n++
					if n%53 == 1 {
						c.Sample(k)
					}
				}
			}
		}
	}
	for _, b := range []string{"two-no-final-newline", "two-unrelated-first-no-final-newline", "both-crlf-with-text", "two-reversed"} {
		for _, id := range []string{"ca1", "ca2", "foreign", "selfsigned"} {
			for _, pr := range []string{"1.2", "1.3"} {
				c18Run(c, c18Case{Bundle: b, Servers: []c18Server{{id, pr, "require"}}})
				c18Run(c, c18Case{Bundle: b, Servers: []c18Server{{"foreign", "1.2", "require"}, {id, pr, "require"}}})
				n += 2
			}
		}
	}
	// a CA during a key rotation: the bundle holds two certificates with the same subject name; servers issued by either
	// are genuine, wherever they stand in the endpoint list
	for _, b := range []string{"rotated-two-files", "rotated-one-file", "rotated-new-first"} {
		for _, id := range []string{"ca1", "ca1b", "ca2", "foreign"} {
			for _, pr := range []string{"1.2", "1.3"} {
				c18Run(c, c18Case{Bundle: b, Servers: []c18Server{{id, pr, "require"}}})
				c18Run(c, c18Case{Bundle: b, Servers: []c18Server{{"foreign", "1.2", "require"}, {id, pr, "require"}}})
				n += 2
			}
		}
	}
	// a CA bundle file whose content is rewritten between signers (rotation): the signer built last trusts what the file
	// reads NOW, whatever earlier signers in the process loaded from the same path
	for _, now := range []string{"ca1", "ca2", "both"} {
		for _, before := range [][]string{nil, {"ca1"}, {"ca2"}, {"both"}, {"ca1", "ca2"}, {"ca2", "ca1"}} {
			for _, id := range []string{"ca1", "ca2", "foreign"} {
				c18Run(c, c18Case{Bundle: "rotating:" + now, Before: before, Servers: []c18Server{{id, "1.2", "require"}}})
				c18Run(c, c18Case{Bundle: "rotating:" + now, Before: before, Servers: []c18Server{{id, "1.3", "require"}, {"ca1", "1.2", "require"}, {"ca2", "1.3", "require"}}})
				n += 2
			}
		}
	}
	// one long-lived signer, two or three calls, the servers behind the endpoints changing in between (genuine and impostor
	// swap places, a genuine endpoint turns impostor and back)
	{
		g, g2 := c18Server{"ca1", "1.3", "require"}, c18Server{"ca2", "1.2", "request"}
		im, im2 := c18Server{"foreign", "1.2", "require"}, c18Server{"selfsigned", "1.3", "request"}
		for _, seq := range [][][]c18Server{
			{{im, g}, {g, im}}, {{g, im}, {im, g}}, {{im, g}, {g, im}, {im, g}}, {{im, im2, g}, {g, im2, im}}, {{im, g, im2}, {im, im2, g}, {g, im, im2}},
			{{im, g}, {im, im2}, {g, im}}, {{g2, g}, {im, g}, {g2, im}}, {{im, g2}, {g2, g2}}, {{g}, {im}, {g}},
		} {
			c18Run(c, c18Case{Bundle: "two", Servers: seq[0], Then: seq[1:]})
			n++
		}
	}
	impostors := []c18Server{{"foreign", "1.2", "require"}, {"ca1", "1.0-1.1", "ignore"}, {"firstname", "1.2", "request"}}
	if c.Thorough() {
		impostors = append(impostors, c18Server{"selfsigned", "1.3", "request"}, c18Server{"expired", "1.0-1.3", "require"}, c18Server{"othername", "1.2", "ignore"}, c18Server{"notyet", "1.3", "require"})
	}
	genuine := []c18Server{{"ca1", "1.3", "require"}, {"ca2", "1.2", "request"}}
	for _, b := range []string{"two", "one"} {
		for _, g := range genuine {
			for _, L := range []int{2, 3} {
				for pos := 0; pos < L; pos++ {
					var fill func(cur []c18Server)
					fill = func(cur []c18Server) {
						if len(cur) == L {
							k := c18Case{Bundle: b, Servers: append([]c18Server{}, cur...)}
							c18Run(c, k)
							n++
							if n%41 == 0 {
								c.Sample(k)
							}
							return
						}
						if len(cur) == pos {
							fill(append(cur, g))
							return
						}
						for _, im := range impostors {
							fill(append(cur, im))
						}
						if c.Thorough() && len(cur) > pos {
							fill(append(cur, genuine[0])) // a second genuine server later in the list must not be contacted
						}
					}
					fill(nil)
				}
			}
		}
	}
	c.Set("configurations", n)
	_ = strings.Join
}
