//go:build verif

package main

import (
	"bytes"
	"context"
	"crypto/rand"
	"encoding/json"
	"fmt"
	"math"
	"os"
	"reflect"
	"sort"
	"strings"
	"time"

	"github.com/theparanoids/crypki/proto"
	"golang.org/x/crypto/ssh"
	"google.golang.org/grpc/codes"
	gproto "google.golang.org/protobuf/proto"

	"github.com/theparanoids/ysshra/crypki"
	"github.com/theparanoids/ysshra/internal/backoff"
	"github.com/theparanoids/ysshra/internal/zzverif/ev"
	"github.com/theparanoids/ysshra/internal/zzverif/fix"
	"github.com/theparanoids/ysshra/zzverifrt/vmrand"
)

type c17Case struct {
	Kind      string   // signer | backoff
	Endpoints []string `json:",omitempty"` // answer names per endpoint, in configured order
	NilList   bool     `json:",omitempty"`
	Ctx       string   `json:",omitempty"` // "" live | cancelled (before the call) | expired (deadline already passed) | short (deadline 50 ms, for blocked handlers)
	// backoff
	Attempt    uint    `json:",omitempty"`
	Base, Max  int64   `json:",omitempty"`
	Multiplier float64 `json:",omitempty"`
	Jitter     float64 `json:",omitempty"`
	Rnd        float64 `json:",omitempty"`
}

var c17CertLines = func() []string {
	var out []string
	for i, cm := range []string{"", "word", "a b c", "ü 日本"} {
		c := &ssh.Certificate{Key: fix.Pub(fix.Ed(i % 4)), Serial: uint64(i), CertType: ssh.UserCert, KeyId: fmt.Sprint("id", i), ValidPrincipals: []string{"alice"}, ValidBefore: ssh.CertTimeInfinity}
		c.SignCert(rand.Reader, fix.SSHCA())
		line := strings.TrimSuffix(string(ssh.MarshalAuthorizedKey(c)), "\n")
		if cm != "" {
			line += " " + cm
		}
		out = append(out, line)
	}
	return out
}()

// c17Answers: the per-endpoint answer alphabet. The reference (expected keys/comments) is derived line by line.
func c17Answers() map[string]answer {
	l := c17CertLines
	m := map[string]answer{
		"ok1":         {Kind: "ok", Key: l[1] + "\n"},
		"ok2":         {Kind: "ok", Key: l[0] + "\n" + l[2] + "\n"},
		"ok3":         {Kind: "ok", Key: l[3] + "\n" + l[1] + "\n" + l[0]},
		"unavailable": {Kind: "status", Code: codes.Unavailable},
		"internal":    {Kind: "status", Code: codes.Internal},
		"invalidarg":  {Kind: "status", Code: codes.InvalidArgument},
		"permission":  {Kind: "status", Code: codes.PermissionDenied},
		"unknown":     {Kind: "status", Code: codes.Unknown},
		"exhausted":   {Kind: "status", Code: codes.ResourceExhausted},
		"empty-key":   {Kind: "ok", Key: ""},
		"bad-key":     {Kind: "ok", Key: "this is not key material\nneither is this\n"},
		"mixed":       {Kind: "ok", Key: "garbage line\n" + l[2] + "\n# comment\n" + l[1] + "\nmore garbage"},
		"block":       {Kind: "block", Block: 20 * time.Second},
		// unusually long but legal lines: a certificate line of about 100 KiB (long comment), alone, after and before
		// ordinary lines (readers with a per-line limit stop there)
		"long-only":    {Kind: "ok", Key: l[1] + " " + strings.Repeat("c", 100<<10) + "\n"},
		"long-last":    {Kind: "ok", Key: l[0] + "\n" + l[2] + " " + strings.Repeat("d", 70<<10) + "\n"},
		"long-first":   {Kind: "ok", Key: l[3] + " " + strings.Repeat("e", 1<<20) + "\n" + l[1] + "\n"},
		"long-garbage": {Kind: "ok", Key: strings.Repeat("g", 200<<10) + "\n" + l[2] + "\n"},
	}
	// every gRPC status code an endpoint can answer with
	for code := codes.Code(1); code <= codes.Unauthenticated; code++ {
		m[fmt.Sprintf("status-%d", int(code))] = answer{Kind: "status", Code: code}
	}
	return m
}

// c17Ref: independent reference for what an endpoint's key material yields (keys and comments parallel, in order).
func c17Ref(a answer) (blobs [][]byte, comments []string, ok bool) {
	if a.Kind != "ok" {
		return nil, nil, false
	}
	for _, line := range strings.Split(a.Key, "\n") {
		k, cm, _, _, err := ssh.ParseAuthorizedKey([]byte(line))
		if err != nil {
			continue
		}
		blobs = append(blobs, k.Marshal())
		comments = append(comments, cm)
	}
	return blobs, comments, len(blobs) > 0
}

var (
	c17Farm  *farm
	c17PKI   *pki
	c17Reuse = map[string]*crypki.Signer{}
)

func c17Signer(k c17Case) (*crypki.Signer, error) {
	var eps []string
	if !k.NilList {
		eps = []string{}
	}
	for i := range k.Endpoints {
		eps = append(eps, fmt.Sprintf("127.0.0.%d", i+1))
	}
	return crypki.NewSigner(crypki.SignerConfig{TLSClientKeyFile: c17PKI.ClientKeyFile, TLSClientCertFile: c17PKI.ClientCertFile, TLSCACertFiles: []string{c17PKI.CA1File},
		CrypkiEndpoints: eps, CrypkiPort: uint(c17Farm.port), Retries: 1, PerTryTimeout: c17PerTry(k)})
}

// c17PerTry: the per-try deadline only matters for vectors with a blocked handler; everywhere else it is generous, so
// that a loaded machine cannot turn a slow handshake into a spurious "endpoint not contacted" (no timing oracle).
func c17PerTry(k c17Case) time.Duration {
	for _, e := range k.Endpoints {
		if e == "block" {
			return 1500 * time.Millisecond
		}
	}
	return 15 * time.Second
}

func c17Run(c *ev.Ctx, k c17Case) {
	c.Eval()
	answers := c17Answers()
	for i, s := range c17Farm.servers {
		s.reset()
		s.mu.Lock()
		if i < len(k.Endpoints) {
			s.ans = answers[k.Endpoints[i]]
		} else {
			s.ans = answer{Kind: "ok", Key: c17CertLines[0]}
		}
		s.mu.Unlock()
	}
	var signer *crypki.Signer
	var err error
	reuseKey := fmt.Sprintf("%d/%v", len(k.Endpoints), k.NilList)
	if s0, ok := c17Reuse[reuseKey]; ok && k.Ctx == "" && c17PerTry(k) > 5*time.Second && len(k.Endpoints) > 0 {
		signer = s0 // the same long-lived Signer serves many requests while the CAs' answers change underneath it
	} else {
		signer, err = c17Signer(k)
		if err == nil && k.Ctx == "" && c17PerTry(k) > 5*time.Second {
			c17Reuse[reuseKey] = signer
		}
	}
	if err != nil {
		c.Outcome("newsigner-refuses/" + fmt.Sprint(len(k.Endpoints)))
		if len(k.Endpoints) > 0 {
			c.Violation("C17:newsigner-refuses-valid-config", err.Error(), k)
		}
		return // a configuration without endpoints may be refused at construction: that is an error, not an empty success
	}
	// (several principals, not in alphabetical order; critical options and extensions with several entries: an endpoint
	// receives exactly this, whatever happened at earlier endpoints)
	req := &proto.SSHCertificateSigningRequest{KeyMeta: &proto.KeyMeta{Identifier: "slot-x"}, Principals: []string{"zoe", "alice", "mid", "Alice"}, PublicKey: c17CertLines[0], Validity: 43200,
		KeyId: `{"prins":["alice"],"transID":"ü\"{}"}`, Extensions: map[string]string{"permit-pty": "", "x": "y"}, CriticalOptions: map[string]string{"source-address": "10.0.0.0/8", "force-command": "true"}}
	sent := gproto.Clone(req).(*proto.SSHCertificateSigningRequest)
	var certs []ssh.PublicKey
	var comments []string
	var serr error
	ctx, cancel := context.WithTimeout(context.Background(), 90*time.Second)
	defer cancel()
	switch k.Ctx {
	case "cancelled":
		cancel()
	case "expired":
		var c2 context.CancelFunc
		ctx, c2 = context.WithDeadline(context.Background(), time.Now().Add(-time.Second))
		defer c2()
	case "short":
		var c2 context.CancelFunc
		ctx, c2 = context.WithTimeout(context.Background(), 300*time.Millisecond)
		defer c2()
	case "deadline30":
		// a caller deadline far beyond what the vector needs (blocked endpoints are given up after the 1.5 s per-try
		// timeout): the deadline must not change which endpoint answers
		var c2 context.CancelFunc
		ctx, c2 = context.WithTimeout(context.Background(), 30*time.Second)
		defer c2()
	}
	if p := ev.Guard(func() { certs, comments, serr = signer.Sign(ctx, req) }); p != "" {
		c.Violation("C17:crash:"+ev.PanicSite(p), p, k)
		return
	}
	// reference: first endpoint (in configured order) whose answer yields key material
	first := -1
	for i, name := range k.Endpoints {
		if _, _, ok := c17Ref(answers[name]); ok {
			first = i
			break
		}
	}
	deadCtx := k.Ctx == "cancelled" || k.Ctx == "expired"
	if deadCtx {
		first = -1 // the caller's context is already done: every endpoint fails (or is not tried); the call must fail
	}
	if k.Ctx == "short" {
		// the deadline passes while an endpoint is blocked: whatever was reached, success needs certificates
		c.Outcome(fmt.Sprintf("ctx=short/endpoints=%d/err=%v", len(k.Endpoints), serr != nil))
		if serr == nil && len(certs) == 0 {
			c.Violation("C17:empty-success:deadline", "the deadline passed during the call and Sign returned an empty success", k)
		}
		return
	}
	c.Outcome(fmt.Sprintf("ctx=%s/endpoints=%d/first-ok=%d/err=%v", k.Ctx, len(k.Endpoints), first, serr != nil))
	if first > 0 {
		c.Nontrivial(strings.Join(k.Endpoints, ","))
		c.Count("vectors_that_failed_over", 1)
	} else if len(k.Endpoints) > 0 {
		c.Nontrivial(strings.Join(k.Endpoints, ","))
	}
	if first < 0 {
		if serr == nil {
			what := "every endpoint fails"
			if len(k.Endpoints) == 0 {
				what = "no endpoint is configured"
			}
			if deadCtx {
				what = "the caller's context is already " + k.Ctx + " so no endpoint can answer"
			}
			c.Violation(fmt.Sprintf("C17:empty-success:endpoints=%d:ctx=%s", min(len(k.Endpoints), 1), k.Ctx), fmt.Sprintf("%s, yet Sign returned (%d certificates, %d comments, nil error)", what, len(certs), len(comments)), k)
		}
		if deadCtx {
			return // which endpoints were dialled with a dead context is not specified
		}
	} else {
		if serr != nil {
			c.Violation("C17:failover-fails", fmt.Sprintf("endpoint %d answers successfully but Sign failed: %v", first, serr), k)
			return
		}
		wantBlobs, wantComments, _ := c17Ref(answers[k.Endpoints[first]])
		var got [][]byte
		for _, ct := range certs {
			got = append(got, ct.Marshal())
		}
		if !reflect.DeepEqual(got, wantBlobs) {
			c.Violation("C17:wrong-certificates", fmt.Sprintf("Sign returned %d certificates, endpoint %d (%s) sent %d; or order/content differs", len(got), first, k.Endpoints[first], len(wantBlobs)), k)
		}
		if !reflect.DeepEqual(comments, wantComments) {
			c.Violation("C17:comments-not-parallel", fmt.Sprintf("comments %q, want one per certificate in the CA's order %q", comments, wantComments), k)
		}
	}
	// contact order: strictly in list order, each failing endpoint contacted once, nothing after the first success
	lastSeq := 0
	for i, s := range c17Farm.servers {
		s.mu.Lock()
		n, order := len(s.Requests), append([]int{}, s.Order...)
		var got *proto.SSHCertificateSigningRequest
		if n > 0 {
			got = s.Requests[0]
		}
		s.mu.Unlock()
		shouldContact := i < len(k.Endpoints) && (first < 0 || i <= first)
		if !shouldContact && n > 0 {
			c.Violation("C17:contacts-later-endpoint", fmt.Sprintf("endpoint %d was contacted although endpoint %d had already answered successfully (or it is not configured)", i, first), k)
		}
		if shouldContact && n != 1 {
			c.Violation("C17:endpoint-contact-count", fmt.Sprintf("endpoint %d received %d requests, want exactly 1 (Retries=1)", i, n), k)
		}
		if n > 0 {
			if order[0] < lastSeq {
				c.Violation("C17:out-of-order", fmt.Sprintf("endpoint %d was contacted before an earlier endpoint", i), k)
			}
			lastSeq = order[0]
			if !gproto.Equal(got, sent) {
				c.Violation("C17:request-modified", fmt.Sprintf("endpoint %d received %v, sent %v", i, got, sent), k)
			}
		}
	}
	if !gproto.Equal(req, sent) {
		c.Violation("C17:request-modified:callers-object", fmt.Sprintf("after Sign the caller's request object reads %v, it was %v", req, sent), k)
	}
}

func c17Backoff(c *ev.Ctx, k c17Case) {
	c.Eval()
	cfg := backoff.Config{BaseDelay: time.Duration(k.Base), MaxDelay: time.Duration(k.Max), Multiplier: k.Multiplier, Jitter: k.Jitter}
	vmrand.SetFloat64(k.Rnd)
	var d time.Duration
	if p := ev.Guard(func() { d = cfg.Backoff(k.Attempt) }); p != "" {
		c.Violation("C17:backoff-crash", p, k)
		return
	}
	hi := float64(k.Max) * (1 + k.Jitter)
	if k.Attempt > 0 {
		c.Nontrivial(ev.JSON(k))
	}
	if d < 0 || float64(d) > hi+1 {
		cls := "above-max"
		if d < 0 {
			cls = "negative"
		}
		c.Violation(fmt.Sprintf("C17:backoff-out-of-range:%s:base0=%v", cls, k.Base == 0), fmt.Sprintf("Backoff(%d) = %v with base=%v max=%v multiplier=%g jitter=%g (rnd=%g); must lie in [0, %v]", k.Attempt, d, cfg.BaseDelay, cfg.MaxDelay, k.Multiplier, k.Jitter, k.Rnd, time.Duration(hi)), k)
	}
}

// c17RepCase: an endpoint list in which an address appears more than once (legal: "try A, then B, then A again"); every
// server is scripted per request it receives.
type c17RepCase struct {
	Repeated bool
	List     []int      // server index per configured position
	Script   [][]string // per server: answer names for its 1st, 2nd, ... request
}

func c17Repeated(c *ev.Ctx, k c17RepCase) {
	c.Eval()
	k.Repeated = true
	answers := c17Answers()
	for i, s := range c17Farm.servers {
		s.reset()
		s.mu.Lock()
		s.ans = answer{Kind: "ok", Key: c17CertLines[0]}
		if i < len(k.Script) {
			for _, name := range k.Script[i] {
				s.seqAns = append(s.seqAns, answers[name])
			}
		}
		s.mu.Unlock()
	}
	var eps []string
	for _, si := range k.List {
		eps = append(eps, fmt.Sprintf("127.0.0.%d", si+1))
	}
	signer, err := crypki.NewSigner(crypki.SignerConfig{TLSClientKeyFile: c17PKI.ClientKeyFile, TLSClientCertFile: c17PKI.ClientCertFile, TLSCACertFiles: []string{c17PKI.CA1File},
		CrypkiEndpoints: eps, CrypkiPort: uint(c17Farm.port), Retries: 1, PerTryTimeout: 15 * time.Second})
	if err != nil {
		c.Violation("C17:newsigner-refuses-valid-config", fmt.Sprintf("an endpoint list that names an address twice was refused: %v", err), k)
		return
	}
	req := &proto.SSHCertificateSigningRequest{KeyMeta: &proto.KeyMeta{Identifier: "slot"}, Principals: []string{"alice"}, PublicKey: c17CertLines[0], Validity: 60}
	ctx, cancel := context.WithTimeout(context.Background(), 120*time.Second)
	defer cancel()
	var certs []ssh.PublicKey
	var serr error
	if p := ev.Guard(func() { certs, _, serr = signer.Sign(ctx, req) }); p != "" {
		c.Violation("C17:crash:"+ev.PanicSite(p), p, k)
		return
	}
	// expected trace: positions in configured order until the first whose scripted answer yields certificates
	seen := make([]int, len(c17Farm.servers))
	var wantTrace []int
	var wantBlobs [][]byte
	for _, si := range k.List {
		name := k.Script[si][min(seen[si], len(k.Script[si])-1)]
		seen[si]++
		wantTrace = append(wantTrace, si)
		if blobs, _, ok := c17Ref(answers[name]); ok {
			wantBlobs = blobs
			break
		}
	}
	type hit struct{ order, server int }
	var hits []hit
	for i, s := range c17Farm.servers {
		s.mu.Lock()
		for _, o := range s.Order {
			hits = append(hits, hit{o, i})
		}
		s.mu.Unlock()
	}
	sort.Slice(hits, func(a, b int) bool { return hits[a].order < hits[b].order })
	var gotTrace []int
	for _, h := range hits {
		gotTrace = append(gotTrace, h.server)
	}
	c.Outcome(fmt.Sprintf("repeated/list=%v/ok=%v", k.List, wantBlobs != nil))
	c.Nontrivial(ev.JSON(k))
	if fmt.Sprint(gotTrace) != fmt.Sprint(wantTrace) {
		c.Violation("C17:repeated-endpoint:contact-order", fmt.Sprintf("configured positions %v (server per position): servers were contacted in the order %v, want %v", k.List, gotTrace, wantTrace), k)
		return
	}
	if wantBlobs == nil {
		if serr == nil {
			c.Violation("C17:empty-success:endpoints=1:ctx=", "no position yields certificates, yet Sign succeeded", k)
		}
		return
	}
	if serr != nil {
		c.Violation("C17:failover-fails", fmt.Sprintf("position %d of %v would have signed, Sign failed: %v", len(wantTrace)-1, k.List, serr), k)
		return
	}
	if len(certs) != len(wantBlobs) {
		c.Violation("C17:wrong-certificates", fmt.Sprintf("Sign returned %d certificates, the signing position sent %d", len(certs), len(wantBlobs)), k)
		return
	}
	for i := range certs {
		if !bytes.Equal(certs[i].Marshal(), wantBlobs[i]) {
			c.Violation("C17:wrong-certificates", "Sign returned other certificates than the signing position sent", k)
			return
		}
	}
}

func checkC17(c *ev.Ctx) {
	c.Rule("real crypki.NewSigner / Sign (Retries=1; per-try deadline 15 s, 1.5 s for vectors with a blocked handler) against harness gRPC Signing servers over real TLS on 127.0.0.1..4:port, one scripted answer each: every answer vector (with a live context; lists up to length 2 also with an already cancelled / already expired context, blocked handlers with a 50 ms deadline, and blocked endpoints before a healthy one under a 30 s caller deadline) over endpoint lists of length 0..3 (quick; 6-answer alphabet {1/3 certificates with comments, Unavailable, Internal, empty key, one good line among bad}) and 0..4 (thorough; 13 answers incl. all status codes, 2 certificates, unparsable key, blocked handler in one position), nil and empty lists; 96 vectors over 6 endpoint lists that name an address more than once (servers scripted per request they receive; oracle: the global contact trace); one long-lived Signer per list length serves all vectors of that length (answers change between its calls); oracle from per-endpoint request logs (strict order, stop at first success, request proto-equal, certificates/comments parallel, never an empty success). Back-off: complete grid attempts {0..64, 2^k-1, 2^k, 2^k+1 (k<=32)} x base {0,1ns,1ms,2s,=max} x max {0,1ms,15s,1h,2^53ns} x multiplier {1,1+2^-52,1.5,3,10,1e9,MaxFloat64} x jitter {0,0.2,1} x jitter-seam answers {0,0.5,1-2^-53}. non-trivial = vector with at least one endpoint / grid point with attempt>0; distinct by vector")
	c.Assume("configurations whose MaxDelay x (1+Jitter) is not representable as a time.Duration are outside the grid", "TLS/gRPC internals run with their own goroutines and real time; no timing oracle is used")
	if c.ReplayCase != nil {
		var k c17Case
		json.Unmarshal(c.ReplayCase, &k)
		if k.Kind == "backoff" {
			c17Backoff(c, k)
			return
		}
	}
	repReplay := c17RepCase{}
	if c.ReplayCase != nil {
		json.Unmarshal(c.ReplayCase, &repReplay)
	}
	// back-off grid (no servers needed)
	if c.ReplayCase == nil {
		attempts := map[uint]bool{}
		for a := uint(0); a <= 64; a++ {
			attempts[a] = true
		}
		for kk := 0; kk <= 32; kk++ {
			p := uint(1) << kk
			attempts[p-1], attempts[p], attempts[p+1] = true, true, true
		}
		attempts[647], attempts[math.MaxUint32] = true, true
		n := 0
		for a := range attempts {
			for _, mx := range []int64{0, int64(time.Millisecond), int64(15 * time.Second), int64(time.Hour), 1 << 53} {
				for _, base := range []int64{0, 1, int64(time.Millisecond), int64(2 * time.Second), mx} {
					if base > mx {
						continue
					}
					for _, mult := range []float64{1, 1 + math.Pow(2, -52), 1.5, 3, 10, 1e9, math.MaxFloat64} {
						for _, jit := range []float64{0, 0.2, 1} {
							for _, rnd := range []float64{0, 0.5, 1 - math.Pow(2, -53)} {
								k := c17Case{Kind: "backoff", Attempt: a, Base: base, Max: mx, Multiplier: mult, Jitter: jit, Rnd: rnd}
								c17Backoff(c, k)
								n++
								if n%40009 == 0 {
									c.Sample(k)
								}
							}
						}
					}
				}
			}
		}
		vmrand.SetFloat64(-1)
		c.Set("backoff_grid_points", n)
		if vmrand.Calls() == 0 {
			c.Violation("C17:harness:jitter-seam-unused", "the jitter seam was never consulted", nil)
		}
	}
	c17PKI = newPKI()
	defer os.RemoveAll(c17PKI.dir)
	c17Farm = newFarm(c17PKI, 4)
	defer c17Farm.stop()
	if c.ReplayCase != nil {
		if repReplay.Repeated {
			c17Repeated(c, repReplay)
			return
		}
		var k c17Case
		json.Unmarshal(c.ReplayCase, &k)
		c17Run(c, k)
		return
	}
	// endpoint lists that name an address more than once: every position is a contact of its own
	{
		fails := []string{"unavailable", "internal", "empty-key", "bad-key"}
		nrep := 0
		for _, list := range [][]int{{0, 1, 0}, {0, 0}, {0, 1, 1, 0}, {1, 0, 1}, {0, 0, 0}, {0, 1, 0, 1}} {
			for _, f := range fails {
				// every server fails its first request and signs its second / everything fails / the first contact signs
				c17Repeated(c, c17RepCase{List: list, Script: [][]string{{f, "ok1"}, {f, f, "ok3"}}})
				c17Repeated(c, c17RepCase{List: list, Script: [][]string{{f}, {f}}})
				c17Repeated(c, c17RepCase{List: list, Script: [][]string{{"ok2"}, {f}}})
				c17Repeated(c, c17RepCase{List: list, Script: [][]string{{f, f, "mixed"}, {f, "ok1"}}})
				nrep += 4
			}
		}
		c.Set("repeated_endpoint_vectors", nrep)
	}
	alpha := []string{"ok1", "unavailable", "internal", "empty-key", "mixed", "ok3"}
	maxLen := 3
	if c.Thorough() {
		alpha = []string{"ok1", "unavailable", "internal", "empty-key", "mixed", "ok3", "ok2", "invalidarg", "permission", "unknown", "exhausted", "bad-key"}
		maxLen = 4
	}
	var vecs [][]string
	var rec func(pre []string)
	rec = func(pre []string) {
		vecs = append(vecs, append([]string{}, pre...))
		if len(pre) == maxLen {
			return
		}
		for _, a := range alpha {
			rec(append(pre, a))
		}
	}
	rec(nil)
	// every status code in the first or second position, followed by an endpoint that signs: failing over does not depend
	// on WHY an endpoint failed
	for code := 1; code <= 16; code++ {
		st := fmt.Sprintf("status-%d", code)
		vecs = append(vecs, []string{st}, []string{st, "ok1"}, []string{"unavailable", st, "ok3"}, []string{st, st})
	}
	for _, lk := range []string{"long-only", "long-last", "long-first", "long-garbage"} {
		vecs = append(vecs, []string{lk}, []string{lk, "ok1"}, []string{"unavailable", lk, "ok3"})
	}
	// deadline answers in one position per vector
	for pos := 0; pos < 3; pos++ {
		v := []string{"unavailable", "unavailable", "ok1"}
		v[pos] = "block"
		vecs = append(vecs, v)
	}
	vecs = append(vecs, []string{"block"})
	c.Set("answer_vectors", len(vecs))
	c17Run(c, c17Case{Kind: "signer", NilList: true})
	// the caller's context: already cancelled / already past its deadline / expiring while a handler blocks
	for _, v := range vecs {
		if len(v) > 2 {
			continue
		}
		for _, cx := range []string{"cancelled", "expired"} {
			c17Run(c, c17Case{Kind: "signer", Endpoints: v, Ctx: cx})
		}
	}
	for _, v := range [][]string{{"block"}, {"block", "ok1"}, {"unavailable", "block"}, {"block", "block"}} {
		c17Run(c, c17Case{Kind: "signer", Endpoints: v, Ctx: "short"})
	}
	// endpoints that hang until the per-try timeout, under a generous caller deadline: the later endpoint still answers
	for _, v := range [][]string{{"block", "ok1"}, {"block", "block", "ok3"}, {"block", "block", "block", "ok1"}, {"unavailable", "block", "ok2"}, {"ok1"}, {"internal", "ok1"}} {
		c17Run(c, c17Case{Kind: "signer", Endpoints: v, Ctx: "deadline30"})
	}
	for i, v := range vecs {
		if c.Expired("answer vectors") {
			break
		}
		c17Run(c, c17Case{Kind: "signer", Endpoints: v})
		if i%(len(vecs)/4+1) == 7 {
			c.Sample(c17Case{Kind: "signer", Endpoints: v})
		}
	}
}
