//go:build verif

package main

import (
	"bytes"
	"context"
	"crypto"
	"crypto/tls"
	"crypto/x509"
	"encoding/pem"
	"fmt"
	"net"
	"os"
	"path/filepath"
	"strings"
	"sync"
	"time"

	"github.com/theparanoids/crypki/proto"
	"google.golang.org/grpc"
	"google.golang.org/grpc/codes"
	"google.golang.org/grpc/credentials"
	"google.golang.org/grpc/peer"
	"google.golang.org/grpc/status"

	"github.com/theparanoids/ysshra/internal/zzverif/fix"
)

// answer scripts what one CA endpoint does with a signing request.
type answer struct {
	Kind  string // ok | status | empty-key | bad-key | mixed | block
	Code  codes.Code
	Key   string // key material returned (authorized_keys lines)
	Block time.Duration
}

// caServer is one loopback CA endpoint (gRPC Signing service over TLS).
type caServer struct {
	proto.UnimplementedSigningServer
	ip  string
	mu  sync.Mutex
	ans answer
	tls *tls.Config // current TLS personality (swapped per scenario)
	// observations
	Requests   []*proto.SSHCertificateSigningRequest
	Handshakes int
	Versions   []uint16
	PeerCerts  [][]*x509.Certificate
	seq        *int
	Order      []int // global sequence numbers of handler runs
	// answer kind "hold": the request of "signer-A" announces itself on arrived and waits for gate (or its own deadline)
	arrived, gate chan struct{}
	// seqAns, when set, scripts the server per request: the n-th request it receives gets seqAns[n] (the last one repeats)
	seqAns []answer
}

func (s *caServer) PostUserSSHCertificate(ctx context.Context, req *proto.SSHCertificateSigningRequest) (*proto.SSHKey, error) {
	s.mu.Lock()
	s.Requests = append(s.Requests, req)
	*s.seq++
	s.Order = append(s.Order, *s.seq)
	if p, ok := peer.FromContext(ctx); ok {
		if ti, ok := p.AuthInfo.(credentials.TLSInfo); ok {
			s.Versions = append(s.Versions, ti.State.Version)
			s.PeerCerts = append(s.PeerCerts, ti.State.PeerCertificates)
		}
	}
	a := s.ans
	if len(s.seqAns) > 0 {
		a = s.seqAns[min(len(s.Requests)-1, len(s.seqAns)-1)]
	}
	arrived, gate := s.arrived, s.gate
	s.mu.Unlock()
	if a.Kind == "hold" && gate != nil && len(req.Principals) == 1 && req.Principals[0] == "signer-A" {
		close(arrived)
		select {
		case <-gate:
		case <-ctx.Done():
			return nil, status.Error(codes.DeadlineExceeded, "held until the deadline")
		}
	}
	switch a.Kind {
	case "status":
		return nil, status.Error(a.Code, "scripted status")
	case "block":
		select {
		case <-ctx.Done():
			return nil, status.Error(codes.DeadlineExceeded, "blocked until the deadline")
		case <-time.After(a.Block):
			return nil, status.Error(codes.DeadlineExceeded, "blocked")
		}
	}
	return &proto.SSHKey{Key: a.Key}, nil
}

func (s *caServer) reset() {
	s.mu.Lock()
	s.Requests, s.Versions, s.PeerCerts, s.Order, s.Handshakes, s.seqAns = nil, nil, nil, nil, 0, nil
	s.mu.Unlock()
}

// pki holds the X.509 material of the farm.
type pki struct {
	dir                                     string
	ca1, ca2, foreign, cca                  *x509.Certificate
	ca1k, ca2k, foreignk                    crypto.Signer
	ccak                                    crypto.Signer
	clientCert                              tls.Certificate
	clientLeaf                              *x509.Certificate
	ClientCertFile, ClientKeyFile           string
	CA1File, CA2File, BothFile, ForeignFile string
	// the same CA certificates in other legal file layouts
	CA1NoNLFile, PadCA1NoNLFile, BothCRLFFile string
	// CA one after a key rotation: the SAME subject name, another key
	ca1b                     *x509.Certificate
	ca1bk                    crypto.Signer
	CA1bFile, RotatedOneFile string
}

func pemFile(path, typ string, der []byte) {
	os.WriteFile(path, pem.EncodeToMemory(&pem.Block{Type: typ, Bytes: der}), 0o600)
}

func newPKI() *pki {
	d, err := os.MkdirTemp("", "verif-ca-")
	if err != nil {
		panic(err)
	}
	now := time.Now()
	y := 365 * 24 * time.Hour
	p := &pki{dir: d}
	mkca := func(cn string, serial int64, key crypto.Signer) *x509.Certificate {
		t := fix.X509Template(cn, serial, now.Add(-y), now.Add(5*y), true)
		return fix.X509Issue(t, t, key.Public(), key)
	}
	p.ca1k, p.ca2k, p.foreignk, p.ccak = fix.EC(256), fix.EC(384), fix.EC(521), fix.RSA(2048)
	p.ca1, p.ca2, p.foreign, p.cca = mkca("verif CA one", 1, p.ca1k), mkca("verif CA two", 2, p.ca2k), mkca("foreign CA", 3, p.foreignk), mkca("client CA", 4, p.ccak)
	p.CA1File, p.CA2File, p.BothFile, p.ForeignFile = filepath.Join(d, "ca1.pem"), filepath.Join(d, "ca2.pem"), filepath.Join(d, "both.pem"), filepath.Join(d, "foreign.pem")
	pemFile(p.CA1File, "CERTIFICATE", p.ca1.Raw)
	pemFile(p.CA2File, "CERTIFICATE", p.ca2.Raw)
	pemFile(p.ForeignFile, "CERTIFICATE", p.foreign.Raw)
	os.WriteFile(p.BothFile, append(pem.EncodeToMemory(&pem.Block{Type: "CERTIFICATE", Bytes: p.ca1.Raw}), pem.EncodeToMemory(&pem.Block{Type: "CERTIFICATE", Bytes: p.ca2.Raw})...), 0o600)
	{
		// layouts: no newline after the last END line; an unrelated CA in front; CRLF line ends with text between blocks
		pem1 := pem.EncodeToMemory(&pem.Block{Type: "CERTIFICATE", Bytes: p.ca1.Raw})
		pem2 := pem.EncodeToMemory(&pem.Block{Type: "CERTIFICATE", Bytes: p.ca2.Raw})
		pad := mkca("unrelated CA kept in the bundle", 9, fix.Ed(3))
		padPEM := pem.EncodeToMemory(&pem.Block{Type: "CERTIFICATE", Bytes: pad.Raw})
		p.CA1NoNLFile, p.PadCA1NoNLFile, p.BothCRLFFile = filepath.Join(d, "ca1-nonl.pem"), filepath.Join(d, "pad-ca1-nonl.pem"), filepath.Join(d, "both-crlf.pem")
		os.WriteFile(p.CA1NoNLFile, bytes.TrimRight(pem1, "\n"), 0o600)
		os.WriteFile(p.PadCA1NoNLFile, bytes.TrimRight(append(append([]byte{}, padPEM...), pem1...), "\n"), 0o600)
		crlf := "# CA bundle\r\nsubject=verif CA one\r\n" + strings.ReplaceAll(string(pem1), "\n", "\r\n") + "\r\nBag Attributes: none\r\n" + strings.ReplaceAll(string(pem2), "\n", "\r\n")
		os.WriteFile(p.BothCRLFFile, []byte(crlf), 0o600)
	}
	// key rotation of CA one: a second CA certificate with the identical subject and a new key, alone and in one file
	// with the old one
	p.ca1bk = fix.EC(384)
	p.ca1b = mkca("verif CA one", 11, p.ca1bk)
	p.CA1bFile, p.RotatedOneFile = filepath.Join(d, "ca1b.pem"), filepath.Join(d, "ca1-rotated.pem")
	pemFile(p.CA1bFile, "CERTIFICATE", p.ca1b.Raw)
	os.WriteFile(p.RotatedOneFile, append(pem.EncodeToMemory(&pem.Block{Type: "CERTIFICATE", Bytes: p.ca1.Raw}), pem.EncodeToMemory(&pem.Block{Type: "CERTIFICATE", Bytes: p.ca1b.Raw})...), 0o600)
	// client certificate
	ck := fix.EC(256)
	ct := fix.X509Template("ysshra client", 10, now.Add(-time.Hour), now.Add(y), false)
	ct.ExtKeyUsage = []x509.ExtKeyUsage{x509.ExtKeyUsageClientAuth}
	p.clientLeaf = fix.X509Issue(ct, p.cca, ck.Public(), p.ccak)
	p.ClientCertFile, p.ClientKeyFile = filepath.Join(d, "client.crt"), filepath.Join(d, "client.key")
	pemFile(p.ClientCertFile, "CERTIFICATE", p.clientLeaf.Raw)
	kb, _ := x509.MarshalECPrivateKey(ck)
	pemFile(p.ClientKeyFile, "EC PRIVATE KEY", kb)
	return p
}

// serverCert issues a server certificate of the given identity for ip.
func (p *pki) serverCert(identity, ip string) tls.Certificate {
	now := time.Now()
	y := 365 * 24 * time.Hour
	key := fix.EC(256)
	t := fix.X509Template("ca endpoint "+ip, 100, now.Add(-time.Hour), now.Add(y), false)
	t.IPAddresses = []net.IP{net.ParseIP(ip)}
	t.ExtKeyUsage = []x509.ExtKeyUsage{x509.ExtKeyUsageServerAuth}
	parent, pk := p.ca1, p.ca1k
	switch identity {
	case "ca2":
		parent, pk = p.ca2, p.ca2k
	case "ca1b":
		parent, pk = p.ca1b, p.ca1bk
	case "foreign":
		parent, pk = p.foreign, p.foreignk
	case "selfsigned":
		parent, pk = t, key
	case "expired":
		t.NotBefore, t.NotAfter = now.Add(-2*y), now.Add(-y)
	case "notyet":
		t.NotBefore, t.NotAfter = now.Add(y), now.Add(2*y)
	case "expiring": // genuine now, expires 10 s from now
		t.NotBefore, t.NotAfter = now.Add(-time.Hour), now.Add(10*time.Second)
	case "fresh": // genuine, issued a moment ago (after any signer that already exists was built)
		t.NotBefore, t.NotAfter = now.Add(-time.Second), now.Add(y)
	case "firstname": // a genuine certificate of a configured CA, but naming the FIRST endpoint's address
		t.IPAddresses = []net.IP{net.ParseIP("127.0.0.1")}
	case "othername":
		t.IPAddresses = []net.IP{net.ParseIP("127.0.0.99")}
		t.DNSNames = []string{"ca.example"}
	}
	leaf := fix.X509Issue(t, parent, key.Public(), pk)
	return tls.Certificate{Certificate: [][]byte{leaf.Raw}, PrivateKey: key, Leaf: leaf}
}

// farm is a set of loopback CA endpoints on one port.
type farm struct {
	pki     *pki
	port    int
	servers []*caServer
	grpcs   []*grpc.Server
	seq     int
}

func (p *pki) serverTLS(identity, ip string, minV, maxV uint16, clientAuth tls.ClientAuthType, foreignClientCA ...bool) *tls.Config {
	pool := x509.NewCertPool()
	if len(foreignClientCA) > 0 && foreignClientCA[0] {
		pool.AddCert(p.foreign) // the server names (and trusts) only a CA that did NOT issue the RA's client certificate
	} else {
		pool.AddCert(p.cca)
	}
	return &tls.Config{Certificates: []tls.Certificate{p.serverCert(identity, ip)}, MinVersion: minV, MaxVersion: maxV, ClientAuth: clientAuth, ClientCAs: pool, NextProtos: []string{"h2"}}
}

func newFarm(p *pki, n int) *farm {
	for attempt := 0; attempt < 20; attempt++ {
		f := &farm{pki: p}
		l0, err := net.Listen("tcp", "127.0.0.1:0")
		if err != nil {
			panic(err)
		}
		f.port = l0.Addr().(*net.TCPAddr).Port
		ls := []net.Listener{l0}
		ok := true
		for i := 1; i < n; i++ {
			l, err := net.Listen("tcp", fmt.Sprintf("127.0.0.%d:%d", i+1, f.port))
			if err != nil {
				ok = false
				break
			}
			ls = append(ls, l)
		}
		if !ok {
			for _, l := range ls {
				l.Close()
			}
			continue
		}
		for i, l := range ls {
			ip := fmt.Sprintf("127.0.0.%d", i+1)
			s := &caServer{ip: ip, seq: &f.seq}
			s.tls = p.serverTLS("ca1", ip, tls.VersionTLS12, tls.VersionTLS13, tls.RequireAndVerifyClientCert)
			base := &tls.Config{GetConfigForClient: func(*tls.ClientHelloInfo) (*tls.Config, error) {
				s.mu.Lock()
				defer s.mu.Unlock()
				s.Handshakes++
				return s.tls, nil
			}, MinVersion: tls.VersionTLS10}
			g := grpc.NewServer(grpc.Creds(credentials.NewTLS(base)))
			proto.RegisterSigningServer(g, s)
			go g.Serve(l)
			f.servers = append(f.servers, s)
			f.grpcs = append(f.grpcs, g)
		}
		return f
	}
	panic("cannot bind loopback CA endpoints")
}

func (f *farm) stop() {
	for _, g := range f.grpcs {
		g.Stop()
	}
}
