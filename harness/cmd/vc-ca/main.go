//go:build verif

// vc-ca: checks C17 (ordered CA fail-over, bounded back-off) and C18 (TLS authentication of CA servers).
package main

import (
	"os"

	"github.com/theparanoids/ysshra/internal/zzverif/ev"
)

func main() {
	c := ev.Main(map[string]string{"C17": "fault_enumeration", "C18": "exploration"})
	switch c.Prop {
	case "C17":
		checkC17(c)
	case "C18":
		checkC18(c)
	}
	os.Exit(c.Finish())
}
