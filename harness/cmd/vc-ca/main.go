//go:build verif

// vc-ca: checks C17 (ordered CA fail-over, bounded back-off) and C18 (TLS authentication of CA servers).
package main

import (
	"os"

	"github.com/theparanoids/ysshra/internal/zzverif/ev"
)

func main() {
	c := ev.Main(map[string]string{"C17": "fault_enumeration", "C18": "exploration"})
	switch c.Prop {
	case "C17":
		c.Isolated(func() { checkC17(c) }) // child process: an unrecoverable crash is a violation, not a dead check
	case "C18":
		c.Isolated(func() { checkC18(c) }) // child process: an unrecoverable crash is a violation, not a dead check
	}
	os.Exit(c.Finish())
}
