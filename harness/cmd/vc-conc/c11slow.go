//go:build verif

package main

import (
	"bytes"
	"encoding/binary"
	"fmt"
	"io"
	"net"
	"sync"
	"time"

	"golang.org/x/crypto/ssh"
	"golang.org/x/crypto/ssh/agent"

	"github.com/theparanoids/ysshra/agent/shimagent"
	"github.com/theparanoids/ysshra/internal/zzverif/ev"
	"github.com/theparanoids/ysshra/internal/zzverif/uagent"
	"github.com/theparanoids/ysshra/zzverifrt/vnet"
	"github.com/theparanoids/ysshra/zzverifrt/vsync"
	"github.com/theparanoids/ysshra/zzverifrt/vtime"
)

// c11SlowUpstream is a declared real-time side check (like the free-running -race pass, it is not the deciding step): the
// scheduler cannot own timers and goroutines that the code under test might start on its own, so "one exchange at a time on
// the connection to the underlying agent" is also observed with an upstream that takes 6.5 s to answer ONE raw request while
// a second client issues its request 5.5 s into that wait. The upstream notes every request that arrives while an earlier
// one is still unanswered. On a correct shim the second request simply waits for the first (the big lock is held). A second phase makes the upstream slow for one identities request and then uses the same shim sequentially: every reply must still pair with its request.
func c11SlowUpstream(c *ev.Ctx) {
	c.Eval()
	vsync.Sequential.Store(false) // real goroutines from here on: blocking on a lock is contention, not a leak
	defer vsync.Sequential.Store(true)
	vtime.Unset() // real connections, real time: a deadline the code under test puts on the connection must mean what it says
	defer vtime.Set(c11T0)
	ua := uagent.New()
	ua.Raw = c11Echo
	var wmu sync.Mutex
	var overlaps []string
	var outstanding int
	c11Seq++
	addr := fmt.Sprintf("/verif/c11-slow-%d", c11Seq)
	slowCode := byte(0xc9) // which request the upstream takes 6.5 s to answer (the first one with this code only)
	slowUsed := false
	vnet.Register(addr, func() (net.Conn, error) {
		ce, se := net.Pipe() // deadline-capable, like the unix socket of a real agent
		go func() {
			var hdr [4]byte
			for {
				if _, err := io.ReadFull(se, hdr[:]); err != nil {
					return
				}
				body := make([]byte, binary.BigEndian.Uint32(hdr[:]))
				if _, err := io.ReadFull(se, body); err != nil {
					return
				}
				wmu.Lock()
				if outstanding > 0 {
					overlaps = append(overlaps, fmt.Sprintf("request with code %d arrived while %d earlier request(s) were still unanswered", body[0], outstanding))
				}
				outstanding++
				wmu.Unlock()
				answer := func() {
					rep := ua.Handle(body)
					wmu.Lock()
					outstanding--
					se.Write(rep.Raw)
					wmu.Unlock()
				}
				wmu.Lock()
				slow := len(body) > 0 && body[0] == slowCode && !slowUsed
				if slow {
					slowUsed = true
				}
				wmu.Unlock()
				if slow {
					go func() { time.Sleep(6500 * time.Millisecond); answer() }()
				} else {
					go answer() // net.Pipe is unbuffered: never write from the reading goroutine
				}
			}
		}()
		return ce, nil
	})
	defer vnet.Unregister(addr)
	sh, err := shimagent.New(shimagent.Option{Address: addr})
	if err != nil {
		c.Violation("C11:harness:slow-upstream-new", err.Error(), nil)
		return
	}
	type res struct {
		who  string
		resp []byte
		err  error
		pan  string
	}
	out := make(chan res, 2)
	rawReq := []byte{0xc9, 's', 'l', 'o', 'w'}
	go func() {
		var r res
		r.who = "A"
		r.pan = ev.Guard(func() { r.resp, r.err = sh.Forward(rawReq) })
		out <- r
	}()
	go func() {
		time.Sleep(5500 * time.Millisecond)
		var r res
		r.who = "B"
		r.pan = ev.Guard(func() { r.resp, r.err = sh.Extension("x@verif", []byte("second client")) })
		out <- r
	}()
	got := map[string]res{}
	deadline := time.After(120 * time.Second)
	for len(got) < 2 {
		select {
		case r := <-out:
			got[r.who] = r
		case <-deadline:
			c.Violation("C11:operations-never-complete:slow-upstream", fmt.Sprintf("with an upstream that answers one raw request after 6.5 s, %d of 2 client operations did not complete within 120 s", 2-len(got)), nil)
			return
		}
	}
	c.Outcome(fmt.Sprintf("slow-upstream/A-err=%v/B-err=%v/overlaps=%d", got["A"].err != nil, got["B"].err != nil, len(overlaps)))
	c.Nontrivial("slow-upstream")
	for _, r := range got {
		if r.pan != "" {
			c.Violation("C11:crash:slow-upstream", "client "+r.who+" crashed: "+r.pan, nil)
		}
	}
	wmu.Lock()
	ov := append([]string{}, overlaps...)
	wmu.Unlock()
	if len(ov) > 0 {
		c.Violation("C11:connection-without-mutual-exclusion:slow-upstream", "two request/reply exchanges were in flight on the single connection to the underlying agent: "+ov[0], map[string]any{"slow_upstream": true})
	}
	wantB, _ := c11Echo(ssh.Marshal(struct {
		T string `sshtype:"27"`
		C []byte `ssh:"rest"`
	}{"x@verif", []byte("second client")}))
	if b := got["B"]; b.err == nil && !bytes.Equal(b.resp, wantB) {
		c.Violation("C11:foreign-reply:slow-upstream", fmt.Sprintf("the second client received %d bytes that are not the reply to its own request", len(b.resp)), map[string]any{"slow_upstream": true})
	} else if b.err != nil && len(ov) == 0 {
		c.Violation("C11:operation-fails:slow-upstream", fmt.Sprintf("the second client's request failed although the upstream answered every request: %v", b.err), map[string]any{"slow_upstream": true})
	}
	wantA, _ := c11Echo(rawReq)
	if a := got["A"]; a.err == nil && !bytes.Equal(a.resp, wantA) {
		c.Violation("C11:foreign-reply:slow-upstream", "the first client received a reply that is not the reply to its own raw request", map[string]any{"slow_upstream": true})
	}
	// phase 2: the upstream is slow to answer ONE identities request; afterwards the same long-lived shim is used
	// sequentially and every reply must still belong to its own request (a reader that gave up on the slow reply and left
	// it in the stream would put every later exchange one reply out of step)
	wmu.Lock()
	slowCode, slowUsed = 11, false
	wmu.Unlock()
	t0 := time.Now()
	done := make(chan error, 1)
	go func() {
		var e error
		if p := ev.Guard(func() { _, e = sh.List() }); p != "" {
			e = fmt.Errorf("panic: %s", p)
		}
		done <- e
	}()
	select {
	case <-done:
	case <-time.After(120 * time.Second):
		c.Violation("C11:operations-never-complete:slow-upstream", "List did not return within 120 s of an upstream that answers after 6.5 s", nil)
		return
	}
	if d := 8*time.Second - time.Since(t0); d > 0 {
		time.Sleep(d) // the late reply has been written by now
	}
	step := func(what string, ok bool) {
		if !ok {
			c.Violation("C11:reply-stream-out-of-step:slow-upstream", "after one slow identities reply the long-lived shim no longer pairs replies with requests: "+what, map[string]any{"slow_upstream": true})
		}
	}
	stepsDone := make(chan struct{})
	go func() {
		defer close(stepsDone)
		if p := ev.Guard(func() { c11SlowSteps(c, sh, ua, step) }); p != "" {
			c.Violation("C11:crash:slow-upstream", "after one slow reply a sequential operation on the same shim crashed (a reply of the wrong type reached the agent client):\n"+p, map[string]any{"slow_upstream": true})
		}
	}()
	select {
	case <-stepsDone:
	case <-time.After(120 * time.Second):
		c.Violation("C11:operations-never-complete:slow-upstream", "after one slow reply, sequential operations on the same shim did not complete within 120 s", map[string]any{"slow_upstream": true})
	}
	c.Outcome("slow-upstream/phase2")
}

func c11SlowSteps(c *ev.Ctx, sh shimagent.ShimAgent, ua *uagent.Agent, step func(string, bool)) {
	k3 := c11Ids["K2"]
	errAdd := sh.Add(agent.AddedKey{PrivateKey: k3.priv, Comment: "added after the slow listing"})
	step(fmt.Sprintf("Add returned %v, the underlying agent holds the key: %v", errAdd, ua.Ring.Has(k3.pub.Marshal())), (errAdd == nil) == ua.Ring.Has(k3.pub.Marshal()) && errAdd == nil)
	keys, errList := sh.List()
	step(fmt.Sprintf("List returned %d identities (err=%v), the underlying agent holds %d", len(keys), errList, len(ua.Ring.Keys)), errList == nil && len(keys) == len(ua.Ring.Keys))
	errLock := sh.Lock([]byte("p"))
	step(fmt.Sprintf("Lock returned %v, underlying agent locked: %v", errLock, ua.Ring.Locked), errLock == nil && ua.Ring.Locked)
	errWrong := sh.Unlock([]byte("wrong"))
	step(fmt.Sprintf("Unlock with a wrong passphrase returned %v", errWrong), errWrong != nil && ua.Ring.Locked)
	errRight := sh.Unlock([]byte("p"))
	step(fmt.Sprintf("Unlock with the right passphrase returned %v, underlying agent locked: %v", errRight, ua.Ring.Locked), errRight == nil && !ua.Ring.Locked)
}
