//go:build verif

// vc-conc: checks C11 and C20 with engine E2 (cooperative scheduler DFS with preemption bounding over real goroutines).
package main

import (
	"fmt"
	"github.com/theparanoids/ysshra/zzverifrt/vsync"
	"os"

	"github.com/theparanoids/ysshra/internal/zzverif/ev"
	"github.com/theparanoids/ysshra/zzverifrt/sched"
	"github.com/theparanoids/ysshra/zzverifrt/vnet"
)

func installHooks() {
	vnet.Hook = func(r *vnet.Reactor, op string, ready func() bool) {
		if s := sched.Active(); s != nil && s.Current() >= 0 {
			if !s.Own() {
				s.Foreign("connection " + op + " on " + r.Name)
			}
			if connMonitor != nil {
				connMonitor(r, op, s.Current(), true)
			}
			s.Point("conn-"+op, r.Name, ready)
			if connMonitor != nil {
				connMonitor(r, op, s.Current(), false)
			}
		}
	}
	vnet.PipeHook = func(p *vnet.PipeEnd, op string, ready func() bool) {
		if s := sched.Active(); s != nil && s.Current() >= 0 {
			if !s.Own() {
				s.Foreign("pipe " + op + " on " + p.Name())
			}
			s.Point("pipe-"+op, p.Name(), ready)
		}
	}
}

// connMonitor observes reactor-connection use (before=true: about to reach the scheduling point).
var connMonitor func(r *vnet.Reactor, op string, thread int, before bool)

func main() {
	if len(os.Args) > 1 && os.Args[1] == "-racepass" {
		os.Exit(racePassMain(os.Args[2:])) // free-running goroutines on the real sync types: blocking there is contention
	}
	vsync.Sequential.Store(true) // everything outside a scheduler is single-threaded here: a blocked lock is a leaked lock
	c := ev.Main(map[string]string{"C11": "model_checking", "C20": "model_checking"})
	installHooks()
	if msg := litmus(); msg != "" {
		fmt.Fprintln(os.Stderr, "scheduler litmus self-test failed:", msg)
		c.Violation(c.Prop+":harness:litmus", "scheduler/vsync litmus self-test failed: "+msg, nil)
		os.Exit(c.Finish())
	}
	switch c.Prop {
	case "C11":
		checkC11(c)
	case "C20":
		c.Isolated(func() { checkC20(c) }) // child process: an unrecoverable crash is a violation, not a dead check
	}
	os.Exit(c.Finish())
}
