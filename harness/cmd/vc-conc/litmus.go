//go:build verif

package main

import (
	"fmt"
	"sort"

	"github.com/theparanoids/ysshra/zzverifrt/sched"
	"github.com/theparanoids/ysshra/zzverifrt/vsync"
)

// litmus explores small programs with known outcome sets; the scheduler and the vsync semantics are believed only if
// every known outcome (and no other) is produced.
func litmus() string {
	outcomes := func(bound int, mk func() (bodies []func(), result func(s *sched.Scheduler) string)) (map[string]int, int) {
		out := map[string]int{}
		n, _ := sched.Explore(bound, func(prefix []int) *sched.Scheduler {
			bodies, result := mk()
			s := sched.New(prefix)
			s.Run(bodies...)
			out[result(s)]++
			return s
		}, func(*sched.Scheduler) bool { return true }, nil)
		return out, n
	}
	keys := func(m map[string]int) string {
		var k []string
		for x := range m {
			k = append(k, x)
		}
		sort.Strings(k)
		return fmt.Sprint(k)
	}
	// 1. lost update: unsynchronised read-modify-write around a scheduling point loses an update in some interleaving;
	//    with a mutex it never does.
	{
		o, _ := outcomes(-1, func() ([]func(), func(*sched.Scheduler) string) {
			x := 0
			var a, b vsync.Mutex
			inc := func(m *vsync.Mutex) func() {
				return func() { t := x; m.Lock(); m.Unlock(); x = t + 1 }
			}
			return []func(){inc(&a), inc(&b)}, func(*sched.Scheduler) string { return fmt.Sprint(x) }
		})
		if keys(o) != "[1 2]" {
			return "lost-update litmus: outcomes " + keys(o) + ", want [1 2]"
		}
		o, _ = outcomes(-1, func() ([]func(), func(*sched.Scheduler) string) {
			x := 0
			var m vsync.Mutex
			inc := func() { m.Lock(); t := x; x = t + 1; m.Unlock() }
			return []func(){inc, inc, inc}, func(*sched.Scheduler) string { return fmt.Sprint(x) }
		})
		if keys(o) != "[3]" {
			return "mutex litmus: outcomes " + keys(o) + ", want [3]"
		}
	}
	// 2. reader/writer exclusion: two readers may overlap, a writer never overlaps anyone.
	{
		o, _ := outcomes(-1, func() ([]func(), func(*sched.Scheduler) string) {
			var m vsync.RWMutex
			var probe vsync.Mutex
			readers, writers, maxR, bad := 0, 0, 0, false
			rd := func() {
				m.RLock()
				readers++
				if writers > 0 {
					bad = true
				}
				if readers > maxR {
					maxR = readers
				}
				probe.Lock()
				probe.Unlock()
				readers--
				m.RUnlock()
			}
			wr := func() {
				m.Lock()
				writers++
				if readers > 0 || writers > 1 {
					bad = true
				}
				probe.Lock()
				probe.Unlock()
				writers--
				m.Unlock()
			}
			return []func(){rd, rd, wr}, func(*sched.Scheduler) string { return fmt.Sprintf("maxR=%d bad=%v", maxR, bad) }
		})
		if keys(o) != "[maxR=1 bad=false maxR=2 bad=false]" {
			return "rwmutex litmus: outcomes " + keys(o)
		}
	}
	// 3. cond hand-off: waiter registered before the broadcast wakes, after it stays blocked; broadcast wakes all.
	{
		o, _ := outcomes(-1, func() ([]func(), func(*sched.Scheduler) string) {
			c := vsync.NewCond(&vsync.Mutex{})
			w := func() { c.L.Lock(); c.Wait(); c.L.Unlock() }
			b := func() { c.L.Lock(); c.Broadcast(); c.L.Unlock() }
			return []func(){w, w, b}, func(s *sched.Scheduler) string { return fmt.Sprint(len(s.Deadlocked)) }
		})
		if keys(o) != "[0 1 2]" {
			return "cond litmus: blocked-waiter counts " + keys(o) + ", want [0 1 2]"
		}
		o, _ = outcomes(-1, func() ([]func(), func(*sched.Scheduler) string) {
			c := vsync.NewCond(&vsync.Mutex{})
			w := func() { c.L.Lock(); c.Wait(); c.L.Unlock() }
			sg := func() { c.L.Lock(); c.Signal(); c.L.Unlock() }
			return []func(){w, w, sg}, func(s *sched.Scheduler) string { return fmt.Sprint(len(s.Deadlocked)) }
		})
		if keys(o) != "[1 2]" {
			return "cond signal litmus: blocked-waiter counts " + keys(o) + ", want [1 2]"
		}
	}
	// 4. lock-order deadlock is found.
	{
		o, _ := outcomes(-1, func() ([]func(), func(*sched.Scheduler) string) {
			var a, b vsync.Mutex
			t1 := func() { a.Lock(); b.Lock(); b.Unlock(); a.Unlock() }
			t2 := func() { b.Lock(); a.Lock(); a.Unlock(); b.Unlock() }
			return []func(){t1, t2}, func(s *sched.Scheduler) string { return fmt.Sprint(len(s.Deadlocked)) }
		})
		if keys(o) != "[0 2]" {
			return "deadlock litmus: outcomes " + keys(o) + ", want [0 2]"
		}
	}
	// 5. preemption bounding: with bound 0 the lost update is not reachable, with bound 1 it is.
	{
		mk := func() ([]func(), func(*sched.Scheduler) string) {
			x := 0
			var a, b vsync.Mutex
			inc := func(m *vsync.Mutex) func() {
				return func() { t := x; m.Lock(); m.Unlock(); x = t + 1 }
			}
			return []func(){inc(&a), inc(&b)}, func(*sched.Scheduler) string { return fmt.Sprint(x) }
		}
		o0, _ := outcomes(0, mk)
		o1, _ := outcomes(1, mk)
		if keys(o0) != "[2]" || keys(o1) != "[1 2]" {
			return "preemption-bound litmus: bound0 " + keys(o0) + " bound1 " + keys(o1)
		}
	}
	// 6. replay determinism: the same prefix twice gives the same trace.
	{
		run := func(prefix []int) string {
			vsync.ResetIDs()
			var m vsync.Mutex
			x := ""
			s := sched.New(prefix)
			s.Run(func() {
				m.Lock()
				x += "a"
				m.Unlock()
				m.Lock()
				x += "A"
				m.Unlock()
			}, func() { m.Lock(); x += "b"; m.Unlock() })
			return x + fmt.Sprint(s.Trace)
		}
		if run([]int{1, 0}) != run([]int{1, 0}) {
			return "replay litmus: same schedule, different observations"
		}
	}
	return ""
}
