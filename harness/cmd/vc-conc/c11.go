//go:build verif

package main

import (
	"bytes"
	"crypto/sha256"
	"encoding/json"
	"fmt"
	"math"
	"os"
	"os/exec"
	"sort"
	"strings"
	"sync"
	"time"

	"golang.org/x/crypto/ssh"
	"golang.org/x/crypto/ssh/agent"

	"github.com/theparanoids/ysshra/agent/shimagent"
	"github.com/theparanoids/ysshra/internal/zzverif/ev"
	"github.com/theparanoids/ysshra/internal/zzverif/fix"
	"github.com/theparanoids/ysshra/internal/zzverif/introspect"
	"github.com/theparanoids/ysshra/internal/zzverif/uagent"
	"github.com/theparanoids/ysshra/keyid"
	"github.com/theparanoids/ysshra/zzverifrt/sched"
	"github.com/theparanoids/ysshra/zzverifrt/vnet"
	"github.com/theparanoids/ysshra/zzverifrt/vsync"
	"github.com/theparanoids/ysshra/zzverifrt/vtime"
)

var c11T0 = time.Date(2030, 1, 1, 0, 0, 0, 0, time.UTC)

type c11Ident struct {
	name string
	priv any
	pub  ssh.PublicKey
	cert *ssh.Certificate
}

var (
	c11Ids  = map[string]*c11Ident{}
	c11Blob = map[string]string{}
	c11Once sync.Once
)

func c11Setup() {
	c11Once.Do(func() {
		t := uint64(c11T0.Unix())
		reg := func(name string, priv any, keyID string, va, vb uint64) {
			id := &c11Ident{name: name, priv: priv, pub: fix.Pub(priv)}
			if keyID != "" {
				id.cert = fix.SSHCert(fix.Pub(priv), keyID, va, vb, nil, "alice")
				id.pub = id.cert
			}
			c11Ids[name] = id
			c11Blob[string(id.pub.Marshal())] = name
		}
		y := func(trans string, touch keyid.TouchPolicy) string {
			k := keyid.KeyID{Principals: []string{"alice"}, TransID: trans, ReqUser: "a", ReqIP: "1.2.3.4", ReqHost: "h", IsHWKey: true, TouchPolicy: touch, Version: 1}
			s, _ := k.Marshal()
			return s
		}
		reg("K1", fix.Ed(0), "", 0, 0)
		reg("K2", fix.EC(256), "", 0, 0)
		reg("c.cur", fix.Ed(0), "plain cur", t-3600, t+3600)
		reg("c.past", fix.Ed(0), "plain past", t-7200, t-3600)
		reg("c2.cur", fix.EC(256), "plain k2", t-3600, t+3600)
		reg("y.touch", fix.Ed(0), y("a1", keyid.CachedTouch), t-3600, t+3600)
		reg("y.nonce", fix.EC(256), y("a2", keyid.NeverTouch), t-3600, t+3600)
		reg("h1", fix.Ed(0), y("b1", keyid.CachedTouch), t-3600, t+3600)
		reg("h1past", fix.Ed(0), y("b2", keyid.CachedTouch), t-7200, t-3600)
		reg("h1free", fix.Ed(0), "plain hw", 0, math.MaxUint64)
	})
}

func c11Name(blob []byte) string {
	if n, ok := c11Blob[string(blob)]; ok {
		return n
	}
	return "?"
}

type c11World struct {
	ua   *uagent.Agent
	shim shimagent.ShimAgent
	addr string
}

var c11Seq int

func c11Echo(frame []byte) ([]byte, bool) {
	if len(frame) > 0 && (frame[0] >= 0xc8 || frame[0] == 27) {
		h := sha256.Sum256(frame)
		return append([]byte{0xee}, h[:]...), true
	}
	return nil, false
}

// c11Comp, when set, is the embedder-supplied compare function of the shims built next (nil = the default).
var c11Comp func(x, y ssh.PublicKey) bool

func newC11World(noUp, locked bool) *c11World {
	vsync.ResetIDs()
	vtime.Set(c11T0)
	w := &c11World{ua: uagent.New()}
	w.ua.Raw = c11Echo
	for _, n := range []string{"K1", "K2", "c.cur", "c.past", "y.touch"} {
		id := c11Ids[n]
		w.ua.Ring.Add(agent.AddedKey{PrivateKey: id.priv, Certificate: id.cert, Comment: n})
	}
	c11Seq++
	w.addr = fmt.Sprintf("/verif/c11-ua-%d", c11Seq)
	w.ua.Listen(w.addr)
	var err error
	w.shim, err = shimagent.New(shimagent.Option{Address: w.addr, NoUpstream: noUp, PubKeyComp: c11Comp})
	if err != nil {
		panic(err)
	}
	// an uncached YSSHCA certificate appears behind the shim's back; one valid and one expired hardware certificate in memory
	id := c11Ids["y.nonce"]
	w.ua.Ring.Add(agent.AddedKey{PrivateKey: id.priv, Certificate: id.cert, Comment: "y.nonce"})
	w.shim.AddHardCert(c11Ids["h1"].pub, "hw")
	w.shim.AddHardCert(c11Ids["h1past"].pub, "hw")
	if locked {
		w.shim.Lock([]byte("p"))
	}
	return w
}

func (w *c11World) close() { vnet.Unregister(w.addr) }

// final renders the state after the execution (scheduler inactive): sequential List, reflected tables, ground truth.
func (w *c11World) final() string {
	// unlock first if locked, so that the listing is comparable
	lockNote := ""
	if err := w.shim.Unlock([]byte("p")); err == nil {
		lockNote = "was-locked;"
	}
	keys, err := w.shim.List()
	var s []string
	for _, k := range keys {
		s = append(s, c11Name(k.Blob))
	}
	sort.Strings(s)
	return fmt.Sprintf("%slist=%v,%v|shim=%s|ua=%s", lockNote, s, err != nil, introspect.Dump(w.shim), w.ua.Ring.Canon(c11Name))
}

// c11Op executes one operation and returns its result class. tag makes raw/extension payloads unique per thread.
func c11Op(w *c11World, op string, tag int) (res string) {
	defer func() {
		if r := recover(); r != nil {
			res = fmt.Sprintf("PANIC:%v", r)
		}
	}()
	sh := w.shim
	names := func(blobs [][]byte) string {
		var s []string
		for _, b := range blobs {
			s = append(s, c11Name(b))
		}
		sort.Strings(s)
		return strings.Join(s, ",")
	}
	e := func(err error) string {
		if err == nil {
			return "ok"
		}
		return "err"
	}
	switch op {
	case "List":
		keys, err := sh.List()
		if err != nil {
			return "err"
		}
		var bl [][]byte
		for _, k := range keys {
			bl = append(bl, k.Blob)
		}
		return "ok:" + names(bl)
	case "Signers":
		ss, err := sh.Signers()
		if err != nil {
			return "err"
		}
		var bl [][]byte
		for _, s := range ss {
			bl = append(bl, s.PublicKey().Marshal())
		}
		return "ok:" + names(bl)
	case "Sign(K1)", "Sign(h1)", "Sign(c.cur)":
		id := c11Ids[op[5:len(op)-1]]
		data := []byte(fmt.Sprintf("data of thread %d", tag))
		sig, err := sh.Sign(id.pub, data)
		if err != nil {
			return "err"
		}
		if id.pub.Verify(data, sig) != nil {
			return "ok:FOREIGN-OR-BAD-SIGNATURE"
		}
		return "ok"
	case "SignViaSigners(h1)", "SignViaSigners(K1)":
		// obtain the signer objects first, then sign through the object (what ssh.PublicKeysCallback(agent.Signers) does)
		id := c11Ids[op[15:len(op)-1]]
		ss, err := sh.Signers()
		if err != nil {
			return "err"
		}
		for _, sg := range ss {
			if bytes.Equal(sg.PublicKey().Marshal(), id.pub.Marshal()) {
				data := []byte(fmt.Sprintf("signer data of thread %d", tag))
				sig, err := sg.Sign(nil, data)
				if err != nil {
					return "err"
				}
				if id.pub.Verify(data, sig) != nil {
					return "ok:FOREIGN-OR-BAD-SIGNATURE"
				}
				return "ok"
			}
		}
		return "err"
	case "Add(c2.cur)":
		id := c11Ids["c2.cur"]
		return e(sh.Add(agent.AddedKey{PrivateKey: id.priv, Certificate: id.cert, Comment: "c2.cur"}))
	case "Add(c2.cur);List", "Remove(c.cur);List", "Add(c2.cur);Signers":
		// one client doing two operations in a row: the second one sees the first (read-your-writes); as a unit its
		// results equal those of one of the sequential orders whatever the other thread does in between
		parts := strings.SplitN(op, ";", 2)
		return c11Op(w, parts[0], tag) + ";" + c11Op(w, parts[1], tag)
	case "Remove(c.cur)":
		return e(sh.Remove(c11Ids["c.cur"].pub))
	case "Remove(h1)":
		return e(sh.Remove(c11Ids["h1"].pub))
	case "RemoveAll":
		return e(sh.RemoveAll())
	case "AddHardCert(h1free)":
		return e(sh.AddHardCert(c11Ids["h1free"].pub, "hw"))
	case "Lock(p)":
		return e(sh.Lock([]byte("p")))
	case "Unlock(p)":
		return e(sh.Unlock([]byte("p")))
	case "Close":
		return e(sh.Close())
	case "Extension":
		contents := []byte(fmt.Sprintf("ext-payload-%d", tag))
		resp, err := sh.Extension("x@verif", contents)
		if err != nil {
			return "err"
		}
		want, _ := c11Echo(ssh.Marshal(struct {
			T string `sshtype:"27"`
			C []byte `ssh:"rest"`
		}{"x@verif", contents}))
		if !bytes.Equal(resp, want) {
			return "ok:FOREIGN-REPLY"
		}
		return "ok"
	case "Forward":
		req := append([]byte{0xc9}, []byte(fmt.Sprintf("raw-request-%d", tag))...)
		resp, err := sh.Forward(req)
		if err != nil {
			return "err"
		}
		want, _ := c11Echo(req)
		if !bytes.Equal(resp, want) {
			return "ok:FOREIGN-REPLY"
		}
		return "ok"
	}
	panic("harness: unknown op " + op)
}

type c11Case struct {
	NoUp     bool
	Locked   bool
	Ops      []string
	Schedule []int `json:",omitempty"`
	Bound    int   `json:",omitempty"`
	Dev      int   `json:",omitempty"`
}

// c11Sequential computes the outcomes of every sequential order of the operations (brute-force linearizability reference).
func c11Sequential(k c11Case) map[string]bool {
	out := map[string]bool{}
	n := len(k.Ops)
	perm := make([]int, n)
	for i := range perm {
		perm[i] = i
	}
	var rec func(i int)
	rec = func(i int) {
		if i == n {
			w := newC11World(k.NoUp, k.Locked)
			res := make([]string, n)
			for _, idx := range perm {
				res[idx] = c11Op(w, k.Ops[idx], idx)
			}
			out[strings.Join(res, " | ")+" || "+w.final()] = true
			w.close()
			return
		}
		for j := i; j < n; j++ {
			perm[i], perm[j] = perm[j], perm[i]
			rec(i + 1)
			perm[i], perm[j] = perm[j], perm[i]
		}
	}
	rec(0)
	return out
}

type connUse struct {
	owner int
	viol  string
}

func c11Run(k c11Case, prefix []int) (*sched.Scheduler, []string, string, string) {
	w := newC11World(k.NoUp, k.Locked)
	defer w.close()
	res := make([]string, len(k.Ops))
	use := &connUse{owner: -1}
	connMonitor = func(r *vnet.Reactor, op string, thread int, before bool) {
		if before {
			return
		}
		// the operation is about to take effect (the thread holds the baton)
		if r.Idle() {
			use.owner = -1
		}
		if use.owner != -1 && use.owner != thread && use.viol == "" {
			use.viol = fmt.Sprintf("thread %d does a %s on the connection to the underlying agent while thread %d's request/reply exchange is in flight", thread, op, use.owner)
		}
		use.owner = thread
	}
	defer func() { connMonitor = nil }()
	var bodies []func()
	for i, op := range k.Ops {
		i, op := i, op
		bodies = append(bodies, func() { res[i] = c11Op(w, op, i) })
	}
	s := sched.New(prefix)
	s.Run(bodies...)
	connMonitor = nil
	final := ""
	if len(s.Deadlocked) == 0 {
		if n := vsync.HeldModel(); n > 0 && use.viol == "" {
			// every operation returned, yet a lock of the code under test is still held: the next caller would block forever
			use.viol = fmt.Sprintf("LOCK-LEFT-HELD: all operations completed but %d lock(s) are still held", n)
			return s, res, "", use.viol
		}
		final = w.final()
	}
	return s, res, final, use.viol
}

func c11Check(c *ev.Ctx, k c11Case, seq map[string]bool, s *sched.Scheduler, res []string, final, connViol string) {
	kk := k
	kk.Schedule = sched.Choices(s.Branches)
	report := func(key, desc string) {
		c.Violation(key, desc+"\n  scenario: "+ev.JSON(k)+"\n  schedule: "+fmt.Sprint(kk.Schedule)+"\n  results: "+strings.Join(res, " | ")+"\n  trace: "+traceString(s, 70), kk)
	}
	pair := strings.Join(sortedCopy(k.Ops), "+")
	for id, pv := range s.Panics() {
		report("C11:crash:"+pair, fmt.Sprintf("thread %d crashed: %v", id, pv))
		return
	}
	for i, r := range res {
		if strings.HasPrefix(r, "PANIC") {
			report("C11:crash:"+pair, fmt.Sprintf("operation %s crashed: %s", k.Ops[i], r))
			return
		}
	}
	if len(s.Deadlocked) > 0 {
		report("C11:deadlock:"+pair, fmt.Sprintf("threads %v never complete", s.Deadlocked))
		return
	}
	if strings.HasPrefix(connViol, "LOCK-LEFT-HELD") {
		report("C11:lock-left-held:"+pair, connViol+": a later operation can never complete")
		return
	}
	if connViol != "" {
		report("C11:connection-without-mutual-exclusion:"+pair, connViol)
		return
	}
	for i, r := range res {
		if strings.Contains(r, "FOREIGN") {
			report("C11:foreign-reply:"+pair, fmt.Sprintf("operation %s received the reply to another caller's request (%s)", k.Ops[i], r))
			return
		}
	}
	got := strings.Join(res, " | ") + " || " + final
	if !seq[got] {
		var alts []string
		for a := range seq {
			alts = append(alts, a[:min(len(a), 160)])
		}
		report("C11:not-linearizable:"+pair, "results and final state match no sequential order of the operations\n  got: "+got[:min(len(got), 400)]+"\n  sequential outcomes: "+strings.Join(alts, "\n                       "))
	}
}

func sortedCopy(a []string) []string {
	b := append([]string{}, a...)
	sort.Strings(b)
	return b
}

func c11Explore(c *ev.Ctx, k c11Case, bound, dev int) {
	k.Bound, k.Dev = bound, dev
	seq := c11Sequential(k)
	for o := range seq {
		if strings.Contains(o, vsync.LeakMessage) {
			// already in a plain sequential order one operation leaves a lock held and the next one can never complete
			c.Violation("C11:lock-left-held:"+strings.Join(sortedCopy(k.Ops), "+"), "in a sequential order of the operations a lock is left held by one call and the next call blocks forever: "+o[:min(len(o), 300)], k)
			return
		}
	}
	nOut := map[string]bool{}
	execs, complete := sched.ExploreDev(bound, dev, func(prefix []int) *sched.Scheduler {
		s, res, final, cv := c11Run(k, prefix)
		c.Eval()
		c.AddCov("transitions", int64(len(s.Trace)))
		c11Check(c, k, seq, s, res, final, cv)
		nOut[strings.Join(res, "|")] = true
		if len(s.Branches) > 0 {
			c.Nontrivial(fmt.Sprintf("%v|%v|%v|%v", k.NoUp, k.Locked, k.Ops, sched.Choices(s.Branches)))
		}
		return s
	}, func(*sched.Scheduler) bool { return c.Violations() < 40 }, func() bool { return c.Expired("C11 exploration") })
	c.AddCov("states", int64(execs))
	c.AddCov("traces_validated_against_impl", int64(execs))
	c.Outcome(fmt.Sprintf("threads=%d/distinct-result-vectors=%d/sequential-outcomes=%d", len(k.Ops), len(nOut), len(seq)))
	c.ShardInfo(map[string]any{"scenario": fmt.Sprintf("noup=%v locked=%v %v", k.NoUp, k.Locked, k.Ops), "preemption_bound": bound, "deviation_bound": dev, "executions": execs, "complete": complete, "result_vectors": len(nOut)})
	if !complete {
		c.Cap(fmt.Sprintf("scenario %v cut short", k.Ops))
	}
}

var c11Ops = []string{"List", "Signers", "Sign(K1)", "Sign(h1)", "Add(c2.cur)", "Remove(c.cur)", "RemoveAll", "AddHardCert(h1free)", "Lock(p)", "Unlock(p)", "Extension", "Forward", "SignViaSigners(h1)", "SignViaSigners(K1)", "Close"}

func c11Scenarios(thorough bool) []c11Case {
	var out []c11Case
	for _, noUp := range []bool{false, true} {
		for i := 0; i < len(c11Ops); i++ {
			for j := i; j < len(c11Ops); j++ {
				if (c11Ops[i] == "Close" || c11Ops[j] == "Close") && (strings.HasPrefix(c11Ops[i], "SignViaSigners") || strings.HasPrefix(c11Ops[j], "SignViaSigners")) {
					// SignViaSigners is two shim calls (Signers, then the signer object's Sign); a Close between them makes
					// the second fail after the first took effect, which is no single-operation outcome and no defect
					continue
				}
				out = append(out, c11Case{NoUp: noUp, Ops: []string{c11Ops[i], c11Ops[j]}})
			}
		}
		// starting locked: unlock racing with everything else
		for _, o := range c11Ops {
			out = append(out, c11Case{NoUp: noUp, Locked: true, Ops: []string{"Unlock(p)", o}})
		}
		// starting locked: the owner closes the server object while a request that does not check the lock is in flight
		for _, o := range []string{"Extension", "Forward", "List", "Close"} {
			out = append(out, c11Case{NoUp: noUp, Locked: true, Ops: []string{"Close", o}})
		}
	}
	// a client that reads right after its own write, against a reader on another connection
	for _, noUp := range []bool{false, true} {
		for _, pair := range [][]string{{"List", "Add(c2.cur);List"}, {"List", "Remove(c.cur);List"}, {"Signers", "Add(c2.cur);Signers"}, {"List", "Add(c2.cur);Signers"}, {"Signers", "Remove(c.cur);List"}} {
			out = append(out, c11Case{NoUp: noUp, Ops: pair})
		}
	}
	triples := [][]string{{"Signers", "Signers", "RemoveAll"}, {"Forward", "Extension", "List"}, {"Lock(p)", "Add(c2.cur)", "Sign(K1)"}, {"List", "Signers", "Sign(h1)"},
		{"Extension", "Extension", "Forward"}, {"Remove(c.cur)", "List", "Signers"}, {"AddHardCert(h1free)", "RemoveAll", "Signers"}, {"Forward", "Forward", "Sign(K1)"},
		{"Lock(p)", "Unlock(p)", "List"}, {"Signers", "Sign(h1)", "Remove(h1)"}, {"Extension", "Sign(K1)", "List"}, {"Add(c2.cur)", "Remove(c.cur)", "Signers"}}
	for i, t := range triples {
		out = append(out, c11Case{NoUp: i%2 == 1, Ops: t})
	}
	return out
}

func checkC11(c *ev.Ctx) {
	c11Setup()
	c.Rule("engine E2 over real goroutines calling one real shimagent.Server (built by shimagent.New through the dial seam; sync of shimagent, yubiagent and x/crypto's agent client replaced by scheduler-visible primitives; every Write/Read on the upstream connection is a scheduling point): every unordered pair (incl. equal pairs) of {List, Signers, Sign(K1), Sign(h1), Add, Remove, RemoveAll, AddHardCert, Lock, Unlock, Extension, Forward, Close} on two threads x both upstream modes, Unlock racing with every operation from a locked start, Close racing with Extension / Forward / List / Close from a locked start, a client that reads right after its own write (Add;List, Remove;List, Add;Signers as one thread) against a reader on another connection, 12 three-thread scenarios, and 8 server-level scenarios (one yubiagent.ServeAgent thread per client connection on scheduler-visible pipes in front of one shared server/shim, preemption bound 2 and at most 3 departures from the canonical order); initial state with an expired certificate in the underlying agent AND one in memory (purging happens inside the operations) and an uncached YSSHCA certificate; two-thread scenarios: ALL interleavings (unbounded; the shim's big lock leaves at most ~130 complete schedules per pair, 6 952 in total); three-thread and server-level scenarios: preemption bound 2 (thorough 3) and at most 3 (4) departures from the canonical order. Oracles on every complete execution: all threads finish, connection-exclusion monitor, own-reply check (digest echo), brute-force linearizability against all n! sequential orders computed with the same real code. states = executions, transitions = scheduling events. Declared side passes (not deciding; the third also serves implementations whose waiting the scheduler cannot drive): a client that reads right after its own write against a reader on another connection, free-running with an embedder-supplied compare function of 2 ms per comparison (24 runs); the same bodies free-running under -race with 2..16 goroutines; one real-time run with an upstream that answers a raw request after 6.5 s while a second client sends its request 5.5 s into the wait (timers and goroutines started by the code under test are outside the scheduler). non-trivial = execution with at least one branch point; distinct by (scenario, schedule)")
	c.Assume("scheduling points at synchronisation and connection operations suffice provided there is no data race; data races are looked for by the separate free-running -race pass", "2-3 threads with one operation each; 4-16 goroutines only in the race pass")
	if c.ReplayCase != nil && strings.Contains(string(c.ReplayCase), "\"read_your_writes\"") {
		c11ReadYourWrites(c) // (the whole side pass: 24 runs)
		return
	}
	if c.ReplayCase != nil {
		var sk c11SrvCase
		json.Unmarshal(c.ReplayCase, &sk)
		if sk.Server {
			s, verdict, cv := c11SrvRun(sk, sk.Schedule)
			if len(s.Deadlocked) > 0 || cv != "" || len(s.Panics()) > 0 {
				c.Violation("C11:server:replayed", fmt.Sprintf("deadlocked=%v conn=%q panics=%v", s.Deadlocked, cv, s.Panics()), sk)
			}
			for i, v := range verdict {
				if v != "" {
					c.Violation("C11:server:wrong-reply", fmt.Sprintf("client %d: %s", i, v), sk)
				}
			}
			return
		}
		var k c11Case
		json.Unmarshal(c.ReplayCase, &k)
		seq := c11Sequential(k)
		s, res, final, cv := c11Run(k, k.Schedule)
		c11Check(c, k, seq, s, res, final, cv)
		return
	}
	scen := c11Scenarios(c.Thorough())
	bound := 2
	if c.Thorough() {
		bound = 3
	}
	// determinism self-check
	nondet := false
	if st := stallGuard(func() {
		k := c11Case{Ops: []string{"List", "Forward"}}
		_, r1, f1, _ := c11Run(k, []int{1})
		_, r2, f2, _ := c11Run(k, []int{1})
		nondet = fmt.Sprint(r1, f1) != fmt.Sprint(r2, f2)
	}); st != nil {
		// the scheduler cannot drive this implementation at all (it starts goroutines of its own, or blocks outside the
		// hooked operations): no exploration, the result is not exhaustive, the free-running side passes still run
		c.Cap("scheduler stalled in the self-check, exploration abandoned: " + st.Error())
		c.Set("scheduler_stall", st.Error())
		if !c.IsChild() {
			racePass(c)
			c11SlowUpstream(c)
		}
		return
	}
	if nondet {
		c.Violation("C11:harness:nondeterministic-replay", "the same schedule produced different observations", nil)
		return
	}
	c.Sharded(8, 8, func(shard int) {
		if st := stallGuard(func() {
			for i, reqs := range c11SrvScenarios {
				if i%8 != shard {
					continue
				}
				dev := bound + 1
				if len(reqs) > 2 {
					dev = bound
				}
				c11SrvExplore(c, c11SrvCase{Requests: reqs}, bound, dev)
			}
			for i, k := range scen {
				if i%8 != shard {
					continue
				}
				dev := -1
				b := bound
				if len(k.Ops) > 2 {
					dev = bound + 1
				} else if os.Getenv("VERIF_C11_BOUND2") == "" {
					b = -1 // two threads: ALL interleavings (the shim's big lock keeps the number of real choices small)
				}
				c11Explore(c, k, b, dev)
				if i%29 == 0 {
					c.Sample(k)
				}
			}
		}); st != nil {
			// the scheduler cannot drive this implementation (a thread blocks outside the hooked operations): this shard stops
			// here, the result is not exhaustive, and the free-running side passes still run
			c.Cap("scheduler stalled, exploration abandoned in shard " + fmt.Sprint(shard) + ": " + st.Error())
		}
	})
	c.Set("scenarios", len(scen)+len(c11SrvScenarios))
	if !c.IsChild() {
		racePass(c)
		c11SlowUpstream(c)
		c11ReadYourWrites(c)
	}
}

// c11ReadYourWrites is a declared free-running side pass (real goroutines, real time): a client that reads right after its
// own write against a reader on another connection, with an embedder-supplied compare function that takes 2 ms per
// comparison (a legal configuration: whatever the shim does outside its lock then lasts tens of milliseconds). The result
// vector must be one of the sequential outcomes. It also covers implementations whose waiting the scheduler cannot drive.
func c11ReadYourWrites(c *ev.Ctx) {
	vsync.Sequential.Store(false)
	defer vsync.Sequential.Store(true)
	slow := func(x, y ssh.PublicKey) bool {
		time.Sleep(2 * time.Millisecond)
		return bytes.Compare(x.Marshal(), y.Marshal()) < 0
	}
	n := 0
	for _, noUp := range []bool{false, true} {
		for _, pair := range [][]string{{"List", "Add(c2.cur);List"}, {"List", "Remove(c.cur);List"}, {"Signers", "Add(c2.cur);Signers"}, {"List", "Add(c2.cur);Signers"}} {
			k := c11Case{NoUp: noUp, Ops: pair}
			c11Comp = slow
			seq := c11Sequential(k)
			for rep := 0; rep < 3; rep++ {
				c.Eval()
				n++
				w := newC11World(k.NoUp, false)
				res := make([]string, 2)
				done := make(chan int, 2)
				for i := range pair {
					i := i
					go func() {
						if i == 1 {
							time.Sleep(time.Duration(3+4*rep) * time.Millisecond) // the writer arrives while the reader is at work
						}
						if p := ev.Guard(func() { res[i] = c11Op(w, pair[i], i) }); p != "" {
							res[i] = "PANIC " + p
						}
						done <- i
					}()
				}
				stuck := false
				for i := 0; i < 2 && !stuck; i++ {
					select {
					case <-done:
					case <-time.After(120 * time.Second):
						stuck = true
					}
				}
				if stuck {
					c.Violation("C11:operations-never-complete:"+strings.Join(sortedCopy(pair), "+"), "free-running pass with a slow compare function: an operation did not return within 120 s", map[string]any{"read_your_writes": true, "case": k})
					c11Comp = nil
					return
				}
				got := strings.Join(res, " | ") + " || " + w.final()
				w.close()
				if !seq[got] {
					var exp []string
					for o := range seq {
						exp = append(exp, o)
					}
					sort.Strings(exp)
					c.Violation("C11:not-linearizable:"+strings.Join(sortedCopy(pair), "+"), fmt.Sprintf("free-running pass with a slow compare function (2 ms per comparison): results\n    %s\n  equal no sequential order; sequential outcomes:\n    %s", got, strings.Join(exp, "\n    ")), map[string]any{"read_your_writes": true, "case": k})
					c11Comp = nil
					return
				}
			}
			c11Comp = nil
		}
	}
	c.Set("read_your_writes_free_running_runs", n)
}

// ---- declared side pass: free-running -race ----

func racePass(c *ev.Ctx) {
	bin := os.Getenv("VERIF_RACE_BIN")
	if bin == "" {
		c.Set("race_pass", "skipped: no -race binary (VERIF_NO_RACE=1)")
		return
	}
	t0 := time.Now()
	cmd := exec.Command(bin, "-racepass")
	cmd.Env = append(os.Environ(), "GORACE=halt_on_error=0 exitcode=0")
	var stderr bytes.Buffer
	cmd.Stderr = &stderr
	cmd.Stdout = &stderr
	err := cmd.Run()
	out := stderr.String()
	if i := strings.Index(out, "RACE-PASS-STUCK"); i >= 0 {
		c.Violation("C11:operations-never-complete:free-running-pass", "in the free-running pass operations of concurrent clients never completed: "+strings.SplitN(out[i:], "\n", 2)[0], map[string]any{"race_pass": true})
	}
	reports := strings.Split(out, "WARNING: DATA RACE")
	n := 0
	seen := map[string]bool{}
	for _, r := range reports[1:] {
		if !strings.Contains(r, "ysshra/agent/shimagent") && !strings.Contains(r, "ysshra/agent/yubiagent") {
			continue
		}
		n++
		// structural key: the two ysshra functions involved
		var fns []string
		for _, ln := range strings.Split(r, "\n") {
			ln = strings.TrimSpace(ln)
			if strings.Contains(ln, "ysshra/agent/shimagent.") || strings.Contains(ln, "ysshra/agent/yubiagent.") {
				f := ln[strings.LastIndex(ln, "/")+1:]
				if i := strings.Index(f, "("); i > 0 && !strings.HasPrefix(f, "shimagent.(") && !strings.HasPrefix(f, "yubiagent.(") {
					f = f[:i]
				} else if i := strings.LastIndex(f, "("); i > 0 {
					f = f[:i]
				}
				fns = append(fns, f)
				if len(fns) == 2 {
					break
				}
			}
		}
		key := "C11:data-race:" + strings.Join(fns, "+")
		if !seen[key] {
			seen[key] = true
			c.Violation(key, "the free-running -race pass reports a data race on shim state:\n"+r[:min(len(r), 1800)], map[string]any{"race_pass": true})
		}
	}
	c.Set("race_pass", map[string]any{"reports_on_shim_code": n, "distinct": len(seen), "wall_s": time.Since(t0).Seconds(), "exit": fmt.Sprint(err),
		"note": "sampling side pass, not the deciding step: scenario bodies run free under the race detector with 2,4,8,16 goroutines"})
}

func racePassMain(args []string) int {
	c11Setup()
	for rep := 0; rep < 6; rep++ {
		for _, noUp := range []bool{false, true} {
			for _, n := range []int{2, 4, 8, 16} {
				w := newC11World(noUp, false)
				var wg sync.WaitGroup
				start := make(chan struct{})
				for g := 0; g < n; g++ {
					g := g
					wg.Add(1)
					go func() {
						defer wg.Done()
						<-start
						ops := c11Ops
						for i := 0; i < len(ops); i++ {
							op := ops[(i+g*5+rep)%len(ops)]
							if op == "Lock(p)" && g%4 != 0 {
								op = "Signers"
							}
							c11Op(w, op, g)
						}
					}()
				}
				close(start)
				done := make(chan struct{})
				go func() { wg.Wait(); close(done) }()
				select {
				case <-done:
				case <-time.After(300 * time.Second):
					// a group finishes within a second or two even under heavy load; 300 s of silence is a wedged shim
					fmt.Printf("RACE-PASS-STUCK: %d free-running goroutines (no-upstream=%v, round %d) did not complete their operations within 300 s\n", n, noUp, rep)
					return 3
				}
				w.close()
			}
		}
	}
	return 0
}
