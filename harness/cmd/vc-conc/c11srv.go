//go:build verif

package main

import (
	"bytes"
	"fmt"
	"strings"

	"golang.org/x/crypto/ssh"
	"golang.org/x/crypto/ssh/agent"

	"github.com/theparanoids/ysshra/agent/yubiagent"
	"github.com/theparanoids/ysshra/internal/zzverif/ev"
	"github.com/theparanoids/ysshra/internal/zzverif/uagent"
	"github.com/theparanoids/ysshra/zzverifrt/sched"
	"github.com/theparanoids/ysshra/zzverifrt/vnet"
	"github.com/theparanoids/ysshra/zzverifrt/vsync"
	"github.com/theparanoids/ysshra/zzverifrt/vtime"
)

// Server-level scenarios of C11: every client connection is served by its own yubiagent.ServeAgent thread against one
// shared real server/shim; clients talk over scheduler-visible pipes.

type c11SrvCase struct {
	Server   bool
	Requests []string // one request per client connection
	Schedule []int    `json:",omitempty"`
	Bound    int      `json:",omitempty"`
	Dev      int      `json:",omitempty"`
}

func c11SrvFrame(name string, client int) (frame []byte, check func(resp []byte) string) {
	switch name {
	case "list":
		return []byte{11}, func(r []byte) string {
			if len(r) == 0 || r[0] != 12 {
				return fmt.Sprintf("list answered with %x…", r[:min(len(r), 6)])
			}
			return ""
		}
	case "forward":
		f := append([]byte{0xc9}, []byte(fmt.Sprintf("raw-from-client-%d", client))...)
		return f, func(r []byte) string {
			w, _ := c11Echo(f)
			if !bytes.Equal(r, w) {
				return "raw forward received a reply that is not the underlying agent's answer to its own request"
			}
			return ""
		}
	case "extension":
		f := ssh.Marshal(struct {
			T string `sshtype:"27"`
			C []byte `ssh:"rest"`
		}{"x@verif", []byte(fmt.Sprintf("ext-from-client-%d", client))})
		return f, func(r []byte) string {
			w, _ := c11Echo(f)
			if !bytes.Equal(r, w) {
				return "extension request received a reply that is not the answer to its own request"
			}
			return ""
		}
	case "sign":
		data := []byte(fmt.Sprintf("data-from-client-%d", client))
		f := ssh.Marshal(struct {
			K []byte `sshtype:"13"`
			D []byte
			F uint32
		}{c11Ids["K1"].pub.Marshal(), data, 0})
		return f, func(r []byte) string {
			var resp struct {
				S []byte `sshtype:"14"`
			}
			var sig ssh.Signature
			if ssh.Unmarshal(r, &resp) != nil || ssh.Unmarshal(resp.S, &sig) != nil {
				return fmt.Sprintf("sign answered with %x…", r[:min(len(r), 6)])
			}
			if c11Ids["K1"].pub.Verify(data, &sig) != nil {
				return "sign received a signature over another client's data"
			}
			return ""
		}
	case "hardcert":
		f := append([]byte{31}, c11Ids["h1free"].pub.Marshal()...)
		return f, func(r []byte) string {
			if string(r) != "SUCCESS" {
				return fmt.Sprintf("add-hardware-certificate answered %q", r[:min(len(r), 30)])
			}
			return ""
		}
	}
	panic("harness: unknown server request " + name)
}

func c11SrvRun(k c11SrvCase, prefix []int) (*sched.Scheduler, []string, string) {
	vsync.ResetIDs()
	vtime.Set(c11T0)
	ua := uagent.New()
	ua.Raw = c11Echo
	for _, n := range []string{"K1", "c.cur", "c.past"} {
		id := c11Ids[n]
		ua.Ring.Add(agent.AddedKey{PrivateKey: id.priv, Certificate: id.cert, Comment: n})
	}
	c11Seq++
	addr := fmt.Sprintf("/verif/c11-srv-ua-%d", c11Seq)
	ua.Listen(addr)
	defer vnet.Unregister(addr)
	srv, err := yubiagent.NewServer(addr, true)
	if err != nil {
		panic(err)
	}
	srv.AddHardCert(c11Ids["h1past"].pub, "hw") // an expired in-memory certificate: purging happens while serving
	n := len(k.Requests)
	verdict := make([]string, n)
	use := &connUse{owner: -1}
	connMonitor = func(r *vnet.Reactor, op string, thread int, before bool) {
		if before {
			return
		}
		if r.Idle() {
			use.owner = -1
		}
		if use.owner != -1 && use.owner != thread && use.viol == "" {
			use.viol = fmt.Sprintf("serving thread %d does a %s on the connection to the underlying agent while thread %d's exchange is in flight", thread, op, use.owner)
		}
		use.owner = thread
	}
	defer func() { connMonitor = nil }()
	var bodies []func()
	var ends []*vnet.PipeEnd
	for i := 0; i < n; i++ {
		ce, se := vnet.NewPipe(fmt.Sprintf("client%d", i))
		ends = append(ends, ce)
		bodies = append(bodies, func() { yubiagent.ServeAgent(srv, se) })
	}
	for i, name := range k.Requests {
		i, name := i, name
		bodies = append(bodies, func() {
			f, check := c11SrvFrame(name, i)
			ends[i].Write(vnet.Frame(f))
			resp, err := readFrame(ends[i])
			if err != nil {
				verdict[i] = "no response: " + err.Error()
			} else {
				verdict[i] = check(resp)
			}
			ends[i].Close()
		})
	}
	s := sched.New(prefix)
	s.Run(bodies...)
	return s, verdict, use.viol
}

func c11SrvExplore(c *ev.Ctx, k c11SrvCase, bound, dev int) {
	k.Bound, k.Dev, k.Server = bound, dev, true
	execs, complete := sched.ExploreDev(bound, dev, func(prefix []int) *sched.Scheduler {
		s, verdict, cv := c11SrvRun(k, prefix)
		c.Eval()
		c.AddCov("transitions", int64(len(s.Trace)))
		kk := k
		kk.Schedule = sched.Choices(s.Branches)
		pair := strings.Join(sortedCopy(k.Requests), "+")
		report := func(key, desc string) {
			c.Violation(key, desc+"\n  server-level scenario: "+ev.JSON(k)+"\n  schedule: "+fmt.Sprint(kk.Schedule)+"\n  trace: "+traceString(s, 80), kk)
		}
		for id, pv := range s.Panics() {
			report("C11:server:crash:"+pair, fmt.Sprintf("thread %d crashed: %v", id, pv))
		}
		if len(s.Deadlocked) > 0 {
			report("C11:server:deadlock:"+pair, fmt.Sprintf("threads %v never complete", s.Deadlocked))
		} else if cv != "" {
			report("C11:server:connection-without-mutual-exclusion:"+pair, cv)
		} else {
			for i, v := range verdict {
				if v != "" {
					report("C11:server:wrong-reply:"+pair, fmt.Sprintf("client %d (%s): %s", i, k.Requests[i], v))
					break
				}
			}
		}
		if len(s.Branches) > 0 {
			c.Nontrivial(fmt.Sprintf("srv|%v|%v", k.Requests, kk.Schedule))
		}
		return s
	}, func(*sched.Scheduler) bool { return c.Violations() < 40 }, func() bool { return c.Expired("C11 server-level exploration") })
	c.AddCov("states", int64(execs))
	c.AddCov("traces_validated_against_impl", int64(execs))
	c.ShardInfo(map[string]any{"scenario": fmt.Sprintf("server-level %v", k.Requests), "preemption_bound": bound, "deviation_bound": dev, "executions": execs, "complete": complete})
	if !complete {
		c.Cap(fmt.Sprintf("server-level scenario %v cut short", k.Requests))
	}
}

var c11SrvScenarios = [][]string{{"forward", "extension"}, {"forward", "forward"}, {"list", "sign"}, {"sign", "sign"}, {"list", "hardcert"}, {"extension", "list"}, {"forward", "sign"}, {"forward", "extension", "list"}}
