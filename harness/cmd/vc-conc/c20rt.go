//go:build verif

package main

import (
	"fmt"
	"net"
	"os"
	"reflect"
	"sync/atomic"
	"time"

	"golang.org/x/crypto/ssh/agent"

	"github.com/theparanoids/ysshra/agent/yubiagent"
	"github.com/theparanoids/ysshra/internal/zzverif/ev"
	"github.com/theparanoids/ysshra/internal/zzverif/fix"
	"github.com/theparanoids/ysshra/internal/zzverif/uagent"
	"github.com/theparanoids/ysshra/zzverifrt/vnet"
	"github.com/theparanoids/ysshra/zzverifrt/vsync"
	"github.com/theparanoids/ysshra/zzverifrt/vtime"
)

// c20RTCase is one real-time scenario: the waiters register in the listed order (each on its own connection to one real
// yubiagent server), then one further client sends the listed requests one after the other.
type c20RTCase struct {
	RealTime     bool
	Waiters      []int
	Requests     []int
	SharedClient bool  `json:",omitempty"` // the shared-client scenario (c20RTSharedClient) instead of raw connections
	IdleMs       int   `json:",omitempty"` // how long the waiters are left alone before the first request
	HangUps      []int `json:",omitempty"` // indices of waiters whose client closes its connection once all have registered: nobody else is released by that
}

const (
	c20RTSettle  = 300 * time.Millisecond // how long a waiter is watched for a release that must NOT happen
	c20RTRelease = 30 * time.Second       // how long a release that MUST happen may take on a busy machine
)

// c20RealTime is the black-box pass of C20 on real goroutines and real time: it knows nothing about how the shim waits
// (condition variables, channels, ...) and observes only who is released when. It is the fall-back when the scheduler
// cannot drive the code under test (a thread blocks on something that is not a hooked operation), and a small part of it
// always runs as a declared side pass. A release that must not happen is looked for during a settle window only (so it can
// be missed, never invented); a release that must happen has 30 s.
func c20RealTime(c *ev.Ctx, full bool) {
	vsync.Sequential.Store(false)
	defer vsync.Sequential.Store(true)
	vtime.Unset()
	var cases []c20RTCase
	rep := func(code, n int) []int {
		var o []int
		for i := 0; i < n; i++ {
			o = append(o, code)
		}
		return o
	}
	if full {
		for _, code := range []int{11, 33} { // clients that give up waiting: the others wait on
			cases = append(cases, c20RTCase{Waiters: []int{code, code}, HangUps: []int{0}, Requests: []int{code}}, c20RTCase{Waiters: []int{code, code, code + 1}, HangUps: []int{1, 2}, Requests: []int{code + 1, code}},
				c20RTCase{Waiters: []int{code, code, code, code}, HangUps: []int{3, 1}, Requests: []int{32, code}})
		}
		for _, p := range [][2]int{{32, 33}, {33, 32}, {17, 18}, {18, 17}, {0, 1}, {39, 38}, {20, 21}} {
			k, adj := p[0], p[1]
			for _, n := range []int{1, 2, 4, 5, 6, 9} {
				cases = append(cases,
					c20RTCase{Waiters: append([]int{adj}, rep(k, n)...), Requests: []int{adj, k}},
					c20RTCase{Waiters: append([]int{adj}, rep(k, n)...), Requests: []int{k, adj}},
					c20RTCase{Waiters: append(rep(k, n), adj), Requests: []int{adj, k}},
					c20RTCase{Waiters: append(rep(k, n), adj), Requests: []int{k, adj}})
			}
		}
		for w := 0; w < 40; w++ { // every supported code alone: not released by its neighbours, released by its own code
			cases = append(cases, c20RTCase{Waiters: []int{w}, Requests: []int{(w + 1) % 40, (w + 39) % 40, w}})
		}
		cases = append(cases, c20RTCase{Waiters: []int{40, 255}, Requests: []int{11}}, c20RTCase{Waiters: []int{11, 19}, Requests: []int{11}, IdleMs: 12000})
	} else {
		cases = []c20RTCase{
			{Waiters: append([]int{33}, rep(32, 5)...), Requests: []int{33, 32}},
			{Waiters: []int{11, 11, 19}, Requests: []int{19, 11}},
			{Waiters: []int{11, 11, 11}, HangUps: []int{1}, Requests: []int{32, 11}},
			{Waiters: []int{40, 35}, Requests: []int{11, 35}, IdleMs: 6000}, // (a wait request is itself a request with code 35: the waiter on 35 registers last)
		}
	}
	c.Eval()
	if key, desc := c20RTSharedClient(); key != "" {
		c.Violation(key, desc+"\n  real-time scenario: one yubiagent client shared by two goroutines (waits for 11, then 19) and a second client (32)", map[string]any{"RealTime": true, "SharedClient": true})
	}
	found := 0
	for _, k := range cases {
		if found >= 2 || c.Expired("C20 real-time pass") { // a failing scenario can cost the full release allowance
			break
		}
		k.RealTime = true
		c.Eval()
		c.Crumb(k)
		t0 := time.Now()
		key, desc := c20RTRun(k)
		if os.Getenv("VERIF_TRACE") != "" {
			fmt.Fprintf(os.Stderr, "rt %v %v -> %s in %v\n", k.Waiters, k.Requests, key, time.Since(t0))
		}
		if key != "" {
			found++
			c.Violation(key, desc+"\n  real-time scenario "+ev.JSON(k), k)
		}
		c.Count("real_time_scenarios", 1)
	}
}

// c20RTSharedClient: the project's own client library in front of the server - ONE client object shared by two goroutines
// (the second wait queues behind the first inside the client) while another client waits for a third code. Every waiter is
// released by a request of its own code only.
func c20RTSharedClient() (key, desc string) {
	ua := uagent.New()
	ua.Ring.Add(agent.AddedKey{PrivateKey: fix.Ed(0), Comment: "k1"})
	c20Seq++
	addr := fmt.Sprintf("/verif/c20-rt-%d", c20Seq)
	ua.Listen(addr)
	defer vnet.Unregister(addr)
	srv, err := yubiagent.NewServer(addr, true)
	if err != nil {
		return "C20:harness:server", err.Error()
	}
	saddr := addr + "-server"
	vnet.Register(saddr, func() (net.Conn, error) {
		ce, se := net.Pipe()
		go func() { ev.Guard(func() { yubiagent.ServeAgent(srv, se) }) }()
		return ce, nil
	})
	defer vnet.Unregister(saddr)
	clA, e1 := yubiagent.NewClient(saddr)
	clB, e2 := yubiagent.NewClient(saddr)
	sender, e3 := yubiagent.NewClient(saddr)
	if e1 != nil || e2 != nil || e3 != nil {
		return "C20:harness:client", fmt.Sprint(e1, e2, e3)
	}
	var rel [3]atomic.Bool
	codes := [3]int{11, 19, 32}
	wait := func(i int, cl yubiagent.YubiAgent) {
		go func() {
			if p := ev.Guard(func() { cl.Wait(byte(codes[i])) }); p == "" {
				rel[i].Store(true)
			}
		}()
	}
	defer func() {
		if wb, ok := reflect.ValueOf(srv).Elem().FieldByName("ShimAgent").Interface().(waitBroadcaster); ok {
			for round := 0; round < 3; round++ {
				for _, code := range codes {
					code := code
					ev.Guard(func() { wb.Broadcast(byte(code)) })
				}
				time.Sleep(50 * time.Millisecond)
			}
		}
	}()
	wait(0, clA) // in flight
	time.Sleep(200 * time.Millisecond)
	wait(1, clA) // queued behind it inside the client
	time.Sleep(200 * time.Millisecond)
	wait(2, clB)
	time.Sleep(c20RTSettle)
	for i := range rel {
		if rel[i].Load() {
			return "C20:released-without-matching-request", fmt.Sprintf("the waiter on code %d returned before any request was sent", codes[i])
		}
	}
	request := func(code int) {
		done := make(chan struct{})
		go func() {
			ev.Guard(func() {
				switch code {
				case 11:
					sender.List()
				case 19:
					sender.RemoveAll()
				case 32:
					sender.ListSlots()
				}
			})
			close(done)
		}()
		select {
		case <-done:
		case <-time.After(c20RTRelease):
		}
	}
	await := func(i int) bool {
		deadline := time.Now().Add(c20RTRelease)
		for !rel[i].Load() && time.Now().Before(deadline) {
			time.Sleep(5 * time.Millisecond)
		}
		return rel[i].Load()
	}
	request(11)
	if !await(0) {
		return "C20:not-released-by-matching-request", "the client waiting for code 11 was not released by a list request"
	}
	time.Sleep(2 * c20RTSettle) // the queued wait (code 19) is sent and registered now
	if rel[1].Load() || rel[2].Load() {
		return "C20:released-without-matching-request", fmt.Sprintf("a request with code 11 released a waiter on another code (19: %v, 32: %v)", rel[1].Load(), rel[2].Load())
	}
	request(32)
	if !await(2) {
		return "C20:not-released-by-matching-request", "the client waiting for code 32 was not released by a slot-listing request"
	}
	time.Sleep(c20RTSettle)
	if rel[1].Load() {
		return "C20:released-without-matching-request", "the wait for code 19 that was queued inside a shared client was released by a request with code 32 (another client's awaited code)"
	}
	for try := 0; try < 10 && !rel[1].Load(); try++ {
		request(19)
		time.Sleep(c20RTSettle)
	}
	if !rel[1].Load() {
		return "C20:not-released-by-matching-request", "the wait for code 19 that was queued inside a shared client was not released by ten remove-all requests"
	}
	return "", ""
}

func c20RTRun(k c20RTCase) (key, desc string) {
	ua := uagent.New()
	ua.Ring.Add(agent.AddedKey{PrivateKey: fix.Ed(0), Comment: "k1"})
	c20Seq++
	addr := fmt.Sprintf("/verif/c20-rt-%d", c20Seq)
	ua.Listen(addr)
	defer vnet.Unregister(addr)
	srv, err := yubiagent.NewServer(addr, true)
	if err != nil {
		return "C20:harness:server", err.Error()
	}
	type waiter struct {
		code     int
		released atomic.Bool
		resp     atomic.Value
		ce       net.Conn
	}
	var ws []*waiter
	connect := func() net.Conn {
		ce, se := net.Pipe()
		go func() { ev.Guard(func() { yubiagent.ServeAgent(srv, se) }) }()
		return ce
	}
	defer func() {
		// release whoever is still waiting so that no goroutine stays behind in the server
		if wb, ok := reflect.ValueOf(srv).Elem().FieldByName("ShimAgent").Interface().(waitBroadcaster); ok {
			for _, w := range ws {
				if !w.released.Load() {
					code := w.code
					ev.Guard(func() { wb.Broadcast(byte(code)) })
				}
			}
		}
		for _, w := range ws {
			w.ce.Close()
		}
	}()
	for _, code := range k.Waiters {
		w := &waiter{code: code, ce: connect()}
		ws = append(ws, w)
		go func() {
			if _, err := w.ce.Write(vnet.Frame(c20Frame(35, w.code))); err != nil {
				return
			}
			if resp, err := readFrame(w.ce); err == nil {
				w.resp.Store(string(resp))
				w.released.Store(true)
			}
		}()
		time.Sleep(60 * time.Millisecond) // registration order = listed order
	}
	gone := map[int]bool{} // waiters whose client hung up
	// awaitReleased waits until every waiter selected by must is released
	awaitReleased := func(must func(*waiter) bool, what string) (string, string) {
		deadline := time.Now().Add(c20RTRelease)
		for {
			missing := -1
			for i, w := range ws {
				if must(w) && !w.released.Load() && !gone[i] {
					missing = i
				}
			}
			if missing < 0 {
				return "", ""
			}
			if time.Now().After(deadline) {
				return "C20:not-released-by-matching-request", fmt.Sprintf("waiter %d on code %d %s, yet it was still blocked %v later", missing, ws[missing].code, what, c20RTRelease)
			}
			time.Sleep(5 * time.Millisecond)
		}
	}
	if key, desc := awaitReleased(func(w *waiter) bool { return w.code >= 40 }, "awaits a code outside the supported range and must return immediately"); key != "" {
		return "C20:out-of-range-code-blocks", desc
	}
	snapshot := func() []bool {
		o := make([]bool, len(ws))
		for i, w := range ws {
			o[i] = w.released.Load()
		}
		return o
	}
	idle := c20RTSettle
	if k.IdleMs > 0 {
		idle = time.Duration(k.IdleMs) * time.Millisecond
	}
	time.Sleep(idle)
	for i, w := range ws {
		if w.code < 40 && w.released.Load() {
			return "C20:released-without-matching-request", fmt.Sprintf("waiter %d on code %d was released %v after registering although no request at all had been sent", i, w.code, idle)
		}
	}
	for _, h := range k.HangUps {
		// this client gives up waiting and closes its connection; that is no request with any code
		before := snapshot()
		gone[h] = true
		ws[h].ce.Close()
		time.Sleep(c20RTSettle)
		for i, w := range ws {
			if !gone[i] && w.code < 40 && !before[i] && w.released.Load() {
				return "C20:released-without-matching-request", fmt.Sprintf("waiter %d on code %d was released when the client of waiter %d (code %d) closed its connection; no request with that code was received", i, w.code, h, ws[h].code)
			}
		}
	}
	sender := connect()
	defer sender.Close()
	for _, r := range k.Requests {
		before := snapshot()
		done := make(chan error, 1)
		go func() {
			if _, err := sender.Write(vnet.Frame(c20Frame(r, 40))); err != nil {
				done <- err
				return
			}
			_, err := readFrame(sender)
			done <- err
		}()
		select {
		case <-done:
		case <-time.After(c20RTRelease):
			return "C20:request-never-answered", fmt.Sprintf("the request with code %d got no reply within %v while %d clients were waiting", r, c20RTRelease, len(ws))
		}
		if key, desc := awaitReleased(func(w *waiter) bool { return w.code == r }, fmt.Sprintf("registered before a request with code %d was served", r)); key != "" {
			return key, desc
		}
		time.Sleep(c20RTSettle)
		for i, w := range ws {
			if w.code < 40 && w.code != r && !before[i] && w.released.Load() {
				return "C20:released-without-matching-request", fmt.Sprintf("waiter %d on code %d was released by a request with code %d", i, w.code, r)
			}
		}
	}
	for i, w := range ws {
		if w.released.Load() && !gone[i] {
			if resp, _ := w.resp.Load().(string); resp != "SUCCESS" {
				return "C20:wrong-wait-response", fmt.Sprintf("released waiter %d received %q, want SUCCESS", i, resp)
			}
		}
	}
	return "", ""
}
