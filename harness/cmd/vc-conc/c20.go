//go:build verif

package main

import (
	"encoding/binary"
	"encoding/json"
	"fmt"
	"io"
	"os"
	"reflect"
	"strings"
	"time"

	"golang.org/x/crypto/ssh"
	"golang.org/x/crypto/ssh/agent"

	"github.com/theparanoids/ysshra/agent/shimagent"
	"github.com/theparanoids/ysshra/agent/yubiagent"
	"github.com/theparanoids/ysshra/internal/zzverif/ev"
	"github.com/theparanoids/ysshra/internal/zzverif/fix"
	"github.com/theparanoids/ysshra/internal/zzverif/uagent"
	"github.com/theparanoids/ysshra/zzverifrt/sched"
	"github.com/theparanoids/ysshra/zzverifrt/vnet"
	"github.com/theparanoids/ysshra/zzverifrt/vsync"
)

type c20Case struct {
	Level    int
	Waiters  []int    // awaited codes (level 1/2)
	Senders  []int    // broadcast codes (level 1) / request codes (level 2)
	Schedule []int    `json:",omitempty"`
	Bound    int      `json:",omitempty"`
	Note     string   `json:",omitempty"`
	Hung     bool     `json:",omitempty"` // level 2: one more connection whose request (a signature) hangs in the underlying agent forever
	Direct   []string `json:",omitempty"` // level 2: one more thread calling these methods on the server's shim object in order (no request is received)
}

type waitBroadcaster interface {
	Wait(byte) error
	Broadcast(byte) error
}

var c20Seq int

func c20Shim() (shimagent.ShimAgent, *uagent.Agent, string) {
	vsync.ResetIDs()
	ua := uagent.New()
	ua.Ring.Add(agent.AddedKey{PrivateKey: fix.Ed(0), Comment: "k1"})
	c20Seq++
	addr := fmt.Sprintf("/verif/c20-ua-%d", c20Seq)
	ua.Listen(addr)
	sh, err := shimagent.New(shimagent.Option{Address: addr})
	if err != nil {
		panic(err)
	}
	return sh, ua, addr
}

func condCode(obj string) int {
	var id int
	fmt.Sscanf(obj, "cond#%d", &id)
	return id - 1
}

// c20Oracle evaluates one finished execution. waiterThread[i] = scheduler thread that registers for waiter i;
// released[i] = whether waiter i was released before the clean-up phase; reqKind = the trace event kind that counts as
// "a request with that code" ("cond-broadcast" at level 1, "request-received" at level 2).
func c20Oracle(c *ev.Ctx, k c20Case, s *sched.Scheduler, waiterThread []int, released []bool, reqKind string, cleanupFrom int) (string, string) {
	for id, pv := range s.Panics() {
		return "C20:crash", fmt.Sprintf("thread %d crashed: %v", id, pv)
	}
	for i, code := range k.Waiters {
		reg := -1
		must, may := false, false
		lastReq := map[int]int{} // level 2: code of the request each serving thread received last
		for idx, e := range s.Trace {
			if cleanupFrom >= 0 && idx >= cleanupFrom {
				break
			}
			if e.Kind == "request-received" {
				lastReq[e.Thread] = reqCode(e)
			}
			if e.Kind == "cond-register" && e.Thread == waiterThread[i] && reg < 0 {
				reg = idx
				if condCode(e.Obj) != code {
					return "C20:registers-on-wrong-code", fmt.Sprintf("waiter %d awaits code %d but registered on the condition of code %d", i, code, condCode(e.Obj))
				}
			}
			if reg >= 0 && idx > reg {
				if e.Kind == "cond-broadcast" && condCode(e.Obj) == code {
					// level 1: the broadcast IS the request; level 2: the broadcast justifies a release only when the
					// serving thread performs it for a request of this very code (a request of another code that wakes
					// this condition is exactly what must not happen)
					if lr, ok := lastReq[e.Thread]; reqKind == "cond-broadcast" || (ok && lr == code) {
						may = true
					}
				}
				if e.Kind == reqKind && reqCode(e) == code {
					must = true
				}
			}
		}
		if code >= 40 {
			if reg >= 0 {
				return "C20:out-of-range-code-blocks", fmt.Sprintf("waiter on code %d (outside the supported range) registered on a condition variable", code)
			}
			if !released[i] {
				return "C20:out-of-range-code-blocks", fmt.Sprintf("waiter on code %d (outside the supported range) did not return immediately", code)
			}
			continue
		}
		if released[i] && !may {
			return "C20:released-without-matching-request", fmt.Sprintf("waiter %d on code %d was released although no request with that code arrived after it registered", i, code)
		}
		if must && !released[i] {
			return "C20:not-released-by-matching-request", fmt.Sprintf("waiter %d on code %d registered, a request with code %d arrived afterwards, yet it stayed blocked", i, code, code)
		}
		c.Outcome(fmt.Sprintf("L%d/registered=%v/must=%v/released=%v", k.Level, reg >= 0, must, released[i]))
	}
	return "", ""
}

func reqCode(e sched.Event) int {
	if e.Kind == "cond-broadcast" {
		return condCode(e.Obj)
	}
	var code int
	fmt.Sscanf(e.Obj, "code=%d", &code)
	return code
}

// c20Level1 runs one interleaving of direct Wait / Broadcast calls on the real shim.
func c20Level1(k c20Case, prefix []int) (*sched.Scheduler, []int, []bool, int) {
	sh, _, addr := c20Shim()
	defer vnet.Unregister(addr)
	wb := sh.(waitBroadcaster)
	released := make([]bool, len(k.Waiters))
	var bodies []func()
	var wt []int
	for i, code := range k.Waiters {
		i, code := i, code
		wt = append(wt, len(bodies))
		bodies = append(bodies, func() { wb.Wait(byte(code)); released[i] = true })
	}
	for _, code := range k.Senders {
		code := code
		bodies = append(bodies, func() { wb.Broadcast(byte(code)) })
	}
	s := sched.New(prefix)
	cleanupFrom := -1
	relAtQ := make([]bool, len(released))
	s.OnQuiescent = func(blocked []int) []func() {
		cleanupFrom = len(s.Trace)
		copy(relAtQ, released)
		// clean-up: broadcast every awaited code; afterwards every thread must finish
		var more []func()
		seen := map[int]bool{}
		for _, code := range k.Waiters {
			if !seen[code] {
				seen[code] = true
				code := code
				more = append(more, func() { wb.Broadcast(byte(code)) })
			}
		}
		return more
	}
	s.Run(bodies...)
	if cleanupFrom < 0 {
		copy(relAtQ, released)
	}
	return s, wt, relAtQ, cleanupFrom
}

// ---- level 2: clients on pipes, one ServeAgent thread per connection over the real yubiagent server ----

func c20Frame(code int, awaited int) []byte {
	switch code {
	case 35:
		return []byte{35, byte(awaited)}
	case 31:
		return append([]byte{31}, fix.Pub(fix.Ed(0)).Marshal()...) // a plain key: refused, but the request code is what matters
	default:
		return []byte{byte(code)}
	}
}

func readFrame(r io.Reader) ([]byte, error) {
	var l [4]byte
	if _, err := io.ReadFull(r, l[:]); err != nil {
		return nil, err
	}
	b := make([]byte, binary.BigEndian.Uint32(l[:]))
	_, err := io.ReadFull(r, b)
	return b, err
}

func c20Level2(k c20Case, prefix []int) (*sched.Scheduler, []int, []bool, int, []string) {
	vsync.ResetIDs()
	ua := uagent.New()
	ua.Ring.Add(agent.AddedKey{PrivateKey: fix.Ed(0), Comment: "k1"})
	c20Seq++
	addr := fmt.Sprintf("/verif/c20-ua-%d", c20Seq)
	ua.Listen(addr)
	defer vnet.Unregister(addr)
	srv, err := yubiagent.NewServer(addr, true)
	if err != nil {
		panic(err)
	}
	n := len(k.Waiters) + len(k.Senders)
	if k.Hung {
		n++
		ua.PlanByCode[13] = map[int]string{0: uagent.FaultHang}
	}
	released := make([]bool, len(k.Waiters))
	responses := make([]string, n)
	var bodies []func()
	var wt []int
	var clientEnds []*vnet.PipeEnd
	s := sched.New(prefix)
	for i := 0; i < n; i++ {
		ce, se := vnet.NewPipe(fmt.Sprintf("conn%d", i))
		clientEnds = append(clientEnds, ce)
		var acc []byte
		se.OnData = func(p *vnet.PipeEnd, data []byte) {
			acc = append(acc, data...)
			for len(acc) >= 4 {
				l := int(binary.BigEndian.Uint32(acc))
				if len(acc) < 4+l {
					break
				}
				if l > 0 {
					s.Log("request-received", fmt.Sprintf("code=%d", acc[4]))
				}
				acc = acc[4+l:]
			}
		}
		se2 := se
		bodies = append(bodies, func() { yubiagent.ServeAgent(srv, se2) }) // server thread i
	}
	for i, code := range k.Waiters {
		i, code := i, code
		wt = append(wt, i) // the server thread of connection i registers for waiter i
		bodies = append(bodies, func() {
			ce := clientEnds[i]
			ce.Write(vnet.Frame(c20Frame(35, code)))
			if resp, err := readFrame(ce); err == nil {
				responses[i] = string(resp)
				released[i] = true
			}
			ce.Close()
		})
	}
	for j, code := range k.Senders {
		j, code := j, code
		ci := len(k.Waiters) + j
		bodies = append(bodies, func() {
			ce := clientEnds[ci]
			ce.Write(vnet.Frame(c20Frame(code, 40)))
			if resp, err := readFrame(ce); err == nil {
				responses[ci] = fmt.Sprintf("%x", resp[:min(len(resp), 4)])
			}
			ce.Close()
		})
	}
	if k.Hung {
		hi := n - 1
		bodies = append(bodies, func() {
			ce := clientEnds[hi]
			req := ssh.Marshal(struct {
				K []byte `sshtype:"13"`
				D []byte
				F uint32
			}{fix.Pub(fix.Ed(0)).Marshal(), []byte("never answered"), 0})
			ce.Write(vnet.Frame(req))
			readFrame(ce) // blocks for ever: the underlying agent never answers
			ce.Close()
		})
	}
	if len(k.Direct) > 0 {
		// the owner of the server object uses it directly while clients wait: none of this is "a request with code X was
		// received", so no waiter may be released by it, whatever the calls return
		bodies = append(bodies, func() {
			sh := reflect.ValueOf(srv).Elem().FieldByName("ShimAgent").Interface().(shimagent.ShimAgent)
			for _, m := range k.Direct {
				switch m {
				case "Lock":
					sh.Lock([]byte("pw"))
				case "Unlock":
					sh.Unlock([]byte("pw"))
				case "UnlockWrong":
					sh.Unlock([]byte("other"))
				case "Close":
					sh.Close()
				case "RemoveAll":
					sh.RemoveAll()
				case "List":
					sh.List()
				case "Add":
					sh.Add(agent.AddedKey{PrivateKey: fix.Ed(1), Comment: "k2"})
				}
			}
		})
	}
	cleanupFrom := -1
	relAtQ := make([]bool, len(released))
	s.OnQuiescent = func(blocked []int) []func() {
		cleanupFrom = len(s.Trace)
		copy(relAtQ, released)
		if k.Hung {
			return nil // the shim's lock is held for ever by the hung operation; no clean-up phase
		}
		wb := reflect.ValueOf(srv).Elem().FieldByName("ShimAgent").Interface().(waitBroadcaster)
		var more []func()
		seen := map[int]bool{}
		for _, code := range k.Waiters {
			if !seen[code] {
				seen[code] = true
				code := code
				more = append(more, func() { wb.Broadcast(byte(code)) })
			}
		}
		return more
	}
	s.Run(bodies...)
	if cleanupFrom < 0 {
		copy(relAtQ, released)
	}
	return s, wt, relAtQ, cleanupFrom, responses
}

func c20Explore(c *ev.Ctx, k c20Case, bound int, dev ...int) {
	k.Bound = bound
	devBound := -1
	if len(dev) > 0 {
		devBound = dev[0]
	}
	execs, complete := sched.ExploreDev(bound, devBound, func(prefix []int) *sched.Scheduler {
		var s *sched.Scheduler
		var wt []int
		var rel []bool
		var cf int
		var resp []string
		reqKind := "cond-broadcast"
		if k.Level == 1 {
			s, wt, rel, cf = c20Level1(k, prefix)
		} else {
			s, wt, rel, cf, resp = c20Level2(k, prefix)
			reqKind = "request-received"
		}
		c.Eval()
		c.AddCov("transitions", int64(len(s.Trace)))
		kk := k
		kk.Schedule = sched.Choices(s.Branches)
		key, desc := c20Oracle(c, kk, s, wt, rel, reqKind, cf)
		if key == "" && len(s.Deadlocked) > 0 && !k.Hung {
			var names []string
			for _, id := range s.Deadlocked {
				names = append(names, fmt.Sprint(id))
			}
			key, desc = "C20:deadlock-after-cleanup", "after broadcasting every awaited code, threads "+strings.Join(names, ",")+" are still blocked"
		}
		if key == "" && k.Level == 2 {
			for i := range k.Waiters {
				if rel[i] && resp[i] != "SUCCESS" {
					key, desc = "C20:wrong-wait-response", fmt.Sprintf("released waiter %d received %q, want SUCCESS", i, resp[i])
				}
			}
		}
		if key != "" {
			c.Violation(key, desc+"\n  scenario "+ev.JSON(k)+"\n  schedule "+fmt.Sprint(kk.Schedule)+"\n  trace "+traceString(s, 60), kk)
		}
		nReg := 0
		for _, e := range s.Trace {
			if e.Kind == "cond-register" {
				nReg++
			}
		}
		if nReg > 0 {
			c.Nontrivial(fmt.Sprintf("%v|%v|%v", k.Waiters, k.Senders, kk.Schedule))
		}
		return s
	}, func(*sched.Scheduler) bool { return c.Violations() < 5 }, func() bool { return c.Expired("C20 exploration") })
	c.AddCov("states", int64(execs))
	c.AddCov("traces_validated_against_impl", int64(execs))
	if k.Note != "sweep" {
		c.ShardInfo(map[string]any{"scenario": fmt.Sprintf("L%d waiters=%v senders=%v", k.Level, k.Waiters, k.Senders), "preemption_bound": bound, "deviation_bound": devBound, "executions": execs, "complete": complete})
	}
	if !complete {
		c.Cap(fmt.Sprintf("scenario %v/%v cut short", k.Waiters, k.Senders))
	}
}

func traceString(s *sched.Scheduler, max int) string {
	var sb []string
	for i, e := range s.Trace {
		if i >= max {
			sb = append(sb, "…")
			break
		}
		sb = append(sb, fmt.Sprintf("T%d:%s(%s)", e.Thread, e.Kind, e.Obj))
	}
	return strings.Join(sb, " ")
}

func checkC20(c *ev.Ctx) {
	c.Rule("engine E2 on the real shimagent.Server (Wait/Broadcast) and the real yubiagent server: level 1 = W waiter threads + S broadcaster threads over codes {5,11,39,40,255}: every assignment for (W,S) in {(1,1),(2,1),(1,2)} with all interleavings (unbounded), (2,2),(3,1),(3,2) over codes {5,11} with preemption bound 2 (thorough 3); level 2 = clients on scheduler-visible pipes, one ServeAgent thread per connection, waiters send wait requests and senders send list/add-hardware-certificate/wait/remove-all requests (two scenarios with a further connection whose signature request hangs in the underlying agent for ever, holding the shim's lock), preemption bound 2 and at most 3 departures from the canonical lowest-id-first order at any branch (thorough: 3 and 4); level 2 also as a complete sweep awaited code 0..39 x other request code 0..40,255 in canonical order, and with a thread that uses the server's shim object directly (6 call sequences of lock / unlock / close / remove-all incl. refused ones) while clients wait; level 2 and level 1 also with waiter-count profiles (1..8 clients, thorough ..33, on one code plus one on the adjacent code, both registration and request orders, canonical schedule); level 3 = all 256 codes sequentially. A small black-box real-time pass on real goroutines always runs as a declared side pass (4 scenarios on raw connections and one through the project's client library with one client object shared by two goroutines); when the scheduler cannot drive the implementation (a thread blocks on something that is not a hooked operation: sched.Stall) the exploration is abandoned, the result is marked not exhaustive and the full real-time pass (208 scenarios) decides what black-box observation can decide. Oracle on the recorded trace: released => a broadcast of that code after registration; a matching request after registration => released; codes >= 40 never register; after a clean-up broadcast every thread finishes. states = executions (complete interleavings), transitions = scheduling events. non-trivial = execution in which a waiter registered; distinct by (scenario, schedule)")
	c.Assume("condition variable i of the shim belongs to message code i (ids are assigned in creation order; checked by the registers-on-wrong-code oracle)", "vsync.Cond has the semantics of sync.Cond without spurious wake-ups (litmus-tested)")
	if c.ReplayCase != nil {
		var rt c20RTCase
		if json.Unmarshal(c.ReplayCase, &rt); rt.RealTime {
			vsync.Sequential.Store(false)
			if rt.SharedClient {
				if key, desc := c20RTSharedClient(); key != "" {
					c.Violation(key, desc, rt)
				}
				return
			}
			if key, desc := c20RTRun(rt); key != "" {
				c.Violation(key, desc, rt)
			}
			return
		}
		var k c20Case
		json.Unmarshal(c.ReplayCase, &k)
		var s *sched.Scheduler
		var wt []int
		var rel []bool
		var cf int
		reqKind := "cond-broadcast"
		if k.Level == 1 {
			s, wt, rel, cf = c20Level1(k, k.Schedule)
		} else {
			s, wt, rel, cf, _ = c20Level2(k, k.Schedule)
			reqKind = "request-received"
		}
		if os.Getenv("VERIF_TRACE") != "" {
			fmt.Fprintln(os.Stderr, "released:", rel, "cleanupFrom:", cf, "\ntrace:", traceString(s, 200))
		}
		if key, desc := c20Oracle(c, k, s, wt, rel, reqKind, cf); key != "" {
			c.Violation(key, desc+"\n  trace "+traceString(s, 80), k)
		} else if len(s.Deadlocked) > 0 {
			c.Violation("C20:deadlock-after-cleanup", "threads still blocked after clean-up", k)
		}
		return
	}
	if st := stallGuard(func() { c20Scheduled(c) }); st != nil {
		// the scheduler cannot drive this implementation: say so, and decide what can be decided by black-box observation
		c.Cap("scheduler stalled, exploration abandoned: " + st.Error())
		c.Set("scheduler_stall", st.Error())
		c20RealTime(c, true)
		return
	}
	c20RealTime(c, false)
}

// stallGuard runs f; when an execution under the scheduler stalls (sched.Stall), f is abandoned and the stall returned.
func stallGuard(f func()) (st *sched.Stall) {
	defer func() {
		if r := recover(); r != nil {
			if x, ok := r.(sched.Stall); ok {
				st = &x
				return
			}
			panic(r)
		}
	}()
	f()
	return nil
}

func c20Scheduled(c *ev.Ctx) {
	// level 3: every code, sequentially
	for code := 0; code < 256; code++ {
		k := c20Case{Level: 1, Waiters: []int{code}, Note: "level 3: single waiter"}
		c20Explore(c, k, -1)
		sh, _, addr := c20Shim()
		if p := ev.Guard(func() { sh.(waitBroadcaster).Broadcast(byte(code)) }); p != "" {
			c.Violation("C20:crash:"+ev.PanicSite(p), fmt.Sprintf("Broadcast(%d) crashed: %s", code, p), k)
		}
		vnet.Unregister(addr)
	}
	c.Sample(c20Case{Level: 1, Waiters: []int{39}, Note: "level 3"})
	// level 1
	codes := []int{5, 11, 39, 40, 255}
	var assign func(n int, al []int, cur []int, f func([]int))
	assign = func(n int, al []int, cur []int, f func([]int)) {
		if len(cur) == n {
			f(append([]int{}, cur...))
			return
		}
		for _, a := range al {
			assign(n, al, append(cur, a), f)
		}
	}
	sorted := func(x []int) bool {
		for i := 1; i < len(x); i++ {
			if x[i] < x[i-1] {
				return false
			}
		}
		return true
	}
	t0 := time.Now()
	for _, ws := range [][2]int{{1, 1}, {2, 1}, {1, 2}} {
		assign(ws[0]+ws[1], codes, nil, func(a []int) {
			if !sorted(a[:ws[0]]) || !sorted(a[ws[0]:]) {
				return // threads of the same role are interchangeable
			}
			c20Explore(c, c20Case{Level: 1, Waiters: a[:ws[0]], Senders: a[ws[0]:]}, -1)
		})
	}
	c.Set("phase_level1_unbounded_s", time.Since(t0).Seconds())
	c.Sample(c20Case{Level: 1, Waiters: []int{11, 11}, Senders: []int{11}})
	b := 1
	if c.Thorough() {
		b = 2
	}
	shapes := [][2]int{{2, 2}, {3, 1}}
	if c.Thorough() {
		shapes = append(shapes, [2]int{3, 2})
	}
	t0 = time.Now()
	for _, ws := range shapes {
		assign(ws[0]+ws[1], []int{5, 11}, nil, func(a []int) {
			if !sorted(a[:ws[0]]) || !sorted(a[ws[0]:]) {
				return
			}
			c20Explore(c, c20Case{Level: 1, Waiters: a[:ws[0]], Senders: a[ws[0]:]}, b)
		})
	}
	c.Set("phase_level1_bounded_s", time.Since(t0).Seconds())
	t0 = time.Now()
	c.Sample(c20Case{Level: 1, Waiters: []int{5, 5, 11}, Senders: []int{5, 11}, Bound: b})
	// level 2
	b2, d2 := 2, 3
	if c.Thorough() {
		b2, d2 = 3, 4
	}
	for _, sc := range []c20Case{
		{Level: 2, Waiters: []int{11}, Senders: []int{11}},
		{Level: 2, Waiters: []int{11}, Senders: []int{19}},
		{Level: 2, Waiters: []int{31}, Senders: []int{31}},
		{Level: 2, Waiters: []int{35}, Senders: []int{35}},
		{Level: 2, Waiters: []int{35, 35}},
		{Level: 2, Waiters: []int{11, 11}, Senders: []int{11}},
		{Level: 2, Waiters: []int{11, 19}, Senders: []int{11}},
		{Level: 2, Waiters: []int{40}, Senders: []int{11}},
		{Level: 2, Waiters: []int{11}, Senders: []int{11}, Hung: true},
		{Level: 2, Waiters: []int{19}, Senders: []int{19}, Hung: true},
	} {
		c20Explore(c, sc, b2, d2)
	}
	// the server object used directly (lock / unlock / close / remove-all, also refused ones) while clients wait
	for _, direct := range [][]string{{"Lock", "Close"}, {"Lock", "RemoveAll", "UnlockWrong"}, {"Lock", "Unlock"}, {"Close"}, {"RemoveAll", "List"}, {"Lock", "Add", "Close", "Unlock"}} {
		c20Explore(c, c20Case{Level: 2, Waiters: []int{11}, Direct: direct}, 1, d2)
		c20Explore(c, c20Case{Level: 2, Waiters: []int{22, 19}, Direct: direct}, 1, d2)
	}
	// waiter-count profiles: n clients on one code plus one on the adjacent code, both registration orders, both request
	// orders, canonical schedule (level 1 and through the serving loop): whatever table holds the waiters must keep the
	// codes apart however many wait on one of them
	{
		repn := func(code, n int) []int {
			var o []int
			for i := 0; i < n; i++ {
				o = append(o, code)
			}
			return o
		}
		ns := []int{1, 2, 3, 4, 5, 6, 8}
		if c.Thorough() {
			ns = append(ns, 9, 12, 16, 17, 33)
		}
		np := 0
		for _, p := range [][2]int{{32, 33}, {33, 32}, {17, 18}, {1, 0}, {38, 39}, {39, 38}} {
			for _, n := range ns {
				for _, ws := range [][]int{append([]int{p[1]}, repn(p[0], n)...), append(repn(p[0], n), p[1])} {
					for _, rs := range [][]int{{p[1], p[0]}, {p[0], p[1]}} {
						for lvl := 1; lvl <= 2; lvl++ {
							c20Explore(c, c20Case{Level: lvl, Waiters: ws, Senders: rs, Note: "sweep"}, 0, 0)
							np++
						}
					}
				}
			}
		}
		c.Set("waiter_count_profiles", np)
	}
	// two-dimensional sweep through the serving loop: every awaited code 0..39 against every OTHER request code 0..40 and
	// 255, canonical order (the waiter registers, then the request arrives): a request releases exactly the waiters of its
	// own code - a table that maps one code onto another shows only for that one pair
	{
		others := []int{255}
		for r := 0; r <= 40; r++ {
			others = append(others, r)
		}
		nsw := 0
		for w := 0; w < 40; w++ {
			for _, r := range others {
				if r == w || r == 35 {
					continue // 35 is the wait request itself (it would block its own connection)
				}
				c20Explore(c, c20Case{Level: 2, Waiters: []int{w}, Senders: []int{r}, Note: "sweep"}, 0, 0)
				nsw++
			}
		}
		c.Set("level2_code_pair_sweep", nsw)
	}
	c.Set("phase_level2_s", time.Since(t0).Seconds())
	c.Sample(c20Case{Level: 2, Waiters: []int{35}, Senders: []int{35}, Bound: b2})
}
