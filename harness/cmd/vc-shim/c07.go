//go:build verif

package main

import (
	"bytes"
	"fmt"
	"sort"
	"strings"

	"github.com/theparanoids/ysshra/internal/zzverif/bfs"
	"github.com/theparanoids/ysshra/internal/zzverif/ev"
)

// c07World: real shim + reference model of the *intended* contents (what operations added to / removed from the
// underlying agent and the in-memory table, independently of any purge).
type c07World struct {
	w        *shimWorld
	intUA    map[string]bool
	intMem   map[string]bool
	thorough bool
	c        *ev.Ctx
	steps    int
	pre      []bfs.Op // pre-history applied to the freshly built server (roots "mode:init|op arg;op arg")
	fam      string // roots "mode:@family": one key family's key + expired / current / future certificates, small alphabet
}

func newC07World(c *ev.Ctx, root string) bfs.World {
	pre := ""
	if i := strings.Index(root, "|"); i >= 0 {
		root, pre = root[:i], root[i+1:]
	}
	noUp, init := parseRoot(root)
	fam := ""
	if len(init) == 1 && strings.HasPrefix(init[0], "@") {
		fam = init[0][1:]
		init = []string{"a." + fam + ".past", "a." + fam + ".key", "a." + fam + ".cur", "a." + fam + ".future"}
	}
	x := &c07World{fam: fam, w: newShimWorld(noUp, init, nil), intUA: map[string]bool{}, intMem: map[string]bool{}, thorough: c.Thorough(), c: c}
	for _, n := range init {
		x.intUA[n] = true
	}
	if pre != "" {
		for _, o := range strings.Split(pre, ";") {
			f := strings.Fields(o)
			op := bfs.Op{Name: f[0]}
			if len(f) > 1 {
				op.Arg = f[1]
			}
			x.pre = append(x.pre, op)
		}
	}
	return x
}

// Init applies the pre-history (judged like any other transition).
func (x *c07World) Init() (fs []bfs.Finding) {
	for _, op := range x.pre {
		fs = append(fs, x.Apply(op)...)
	}
	x.steps = 0
	return
}
func (x *c07World) Close() { x.w.Close() }

func setKeys(m map[string]bool) string {
	var s []string
	for k, v := range m {
		if v {
			s = append(s, k)
		}
	}
	sort.Strings(s)
	return strings.Join(s, ",")
}

func (x *c07World) Key() string {
	return fmt.Sprintf("%s|intUA=%s|intMem=%s", x.w.baseKey(), setKeys(x.intUA), setKeys(x.intMem))
}

func (x *c07World) Enabled() []bfs.Op {
	var ops []bfs.Op
	o := func(n string, args ...string) {
		for _, a := range args {
			ops = append(ops, bfs.Op{Name: n, Arg: a})
		}
	}
	ops = append(ops, bfs.Op{Name: "List"}, bfs.Op{Name: "Signers"})
	if x.fam != "" {
		if x.steps >= 5 {
			return ops[:0] // the family roots are explored to depth 5 at most (BFS reaches a state first by a shortest history)
		}
		a := "a." + x.fam
		o("Sign", a+".past", a+".cur", a+".future", a+".key")
		if idents[a+".key"].signer == nil {
			o("Add", a+".past") // (a security key cannot travel in an add request)
		}
		o("URemove", a+".key")
		if x.w.ticksH < 1 {
			ops = append(ops, bfs.Op{Name: "Tick1h"})
		}
		return ops
	}
	o("Add", "K1", "c.past", "c.cur", "c.lapsing", "c.forever", "c.future", "c.zero", "c.edge", "c.vb63", "c.va63", "K2", "c2.past", "c.inverted")
	// a YSSHCA-issued certificate that lapses during the history: in no-upstream mode it is hidden from listings (C09's
	// subject) but "purged from both" still applies to it
	o("Add", "y.lapsing")
	if !x.w.noUp {
		// (upstream mode only: in no-upstream mode these two carry a YSSHCA KeyID and are hidden by design, C09's subject)
		o("Add", "h1", "h1past") // can then be held in memory AND by the underlying agent
	}
	o("AddHardCert", "h1", "h1x", "h3", "h1past", "h2")
	o("Sign", "K1", "c.cur", "c.past", "c.lapsing", "h1", "h1x", "c.forever", "c.future")
	o("Remove", "K1", "c.cur", "c.forever", "h1", "c.lapsing")
	ops = append(ops, bfs.Op{Name: "RemoveAll"})
	o("URemove", "K1", "K2", "c.cur")
	if len(x.pre) > 0 && !x.w.ua.Ring.Locked { // (used-server roots only: it doubles the state space)
		o("UAdd", "K3")
	} // an unrelated key enters behind the shim's back (after a direct removal the NUMBER of identities is the same again)
	if x.w.ua.Ring.Locked {
		ops = append(ops, bfs.Op{Name: "UUnlock"})
	} else {
		ops = append(ops, bfs.Op{Name: "ULock"})
	}
	if x.w.ticks1 < 2 {
		ops = append(ops, bfs.Op{Name: "Tick1m"})
	}
	if x.w.ticksH < 1 {
		ops = append(ops, bfs.Op{Name: "Tick1h"})
	}
	return ops
}

func (x *c07World) Apply(op bfs.Op) (fs []bfs.Finding) {
	add := func(key, desc string) { fs = append(fs, bfs.Finding{Key: "C07:" + key, Desc: desc}) }
	w := x.w
	x.steps++
	uaLocked := w.ua.Ring.Locked
	var reported []*ident // what the underlying agent reports to a list request issued now
	if !uaLocked {
		for _, b := range w.uaBlobs() {
			if id := identsBy[string(b)]; id != nil {
				reported = append(reported, id)
			}
		}
	}
	uaBefore := w.ua.Ring.Canon(nameOf)
	r := w.exec(op)
	if r.panic != "" {
		add(panicKey(r.panic), r.panic)
		return
	}
	now := w.clock
	id := idents[op.Arg]
	switch op.Name {
	case "Add":
		if r.err == nil {
			x.intUA[op.Arg] = true
		}
		return
	case "AddHardCert":
		if r.err == nil {
			x.intMem[op.Arg] = true
		}
		return
	case "Remove":
		if r.err == nil {
			delete(x.intMem, op.Arg)
			if !uaLocked {
				delete(x.intUA, op.Arg)
			}
		} else {
			x.resyncMem()
		}
		return
	case "RemoveAll":
		if r.err == nil {
			x.intMem, x.intUA = map[string]bool{}, map[string]bool{}
		} else {
			x.resyncMem()
		}
		return
	case "URemove":
		if r.err == nil {
			delete(x.intUA, op.Arg)
		}
		return
	case "UAdd":
		x.intUA[op.Arg] = true
		return
	case "ULock", "UUnlock", "Tick1m", "Tick1h":
		return
	}
	// List / Signers / Sign: the purge must have happened
	if op.Name != "Sign" && r.err != nil {
		x.c.Outcome(op.Name + "/error")
		x.resyncAll()
		return
	}
	// (2) underlying agent: exactly intended ∩ (plain keys ∪ in-window certificates)
	expUA := map[string]bool{}
	purgedUA := 0
	for n := range x.intUA {
		i := idents[n]
		if i.cert == nil || inWindow(i.va, i.vb, now) {
			expUA[n] = true
		} else {
			purgedUA++
		}
	}
	if uaLocked {
		expUA = x.intUA // a locked underlying agent reports nothing and cannot be purged
		if w.ua.Ring.Canon(nameOf) != uaBefore {
			add("underlying-changed-while-locked", "underlying agent changed although it was locked: "+uaBefore+" -> "+w.ua.Ring.Canon(nameOf))
		}
	} else {
		got := map[string]bool{}
		for _, b := range w.uaBlobs() {
			got[nameOf(b)] = true
		}
		for n := range expUA {
			if !got[n] {
				add("underlying:lost:"+kind(n), fmt.Sprintf("%s removed %s from the underlying agent although it is %s", op.Name, n, why(n, now)))
			}
		}
		for n := range got {
			if !expUA[n] {
				add("underlying:not-purged:"+kind(n), fmt.Sprintf("after %s the underlying agent still holds %s, which is outside its validity window at T0%+ds", op.Name, n, now.Unix()-T0.Unix()))
			}
		}
	}
	// (3) in-memory table
	memNow := map[string]bool{}
	for _, b := range w.memBlobs() {
		memNow[nameOf(b)] = true
	}
	hasKey := func(set []*ident, keyBlob []byte) bool {
		for _, y := range set {
			if bytes.Equal(y.keyBlob, keyBlob) {
				return true
			}
		}
		return false
	}
	var post []*ident
	if !uaLocked {
		for n := range expUA {
			post = append(post, idents[n])
		}
	}
	purgedMem, orphaned := 0, 0
	for n := range x.intMem {
		h := idents[n]
		valid := inWindow(h.va, h.vb, now)
		mustDrop := !valid || (len(reported) > 0 && !hasKey(reported, h.keyBlob))
		mustKeep := valid && (len(reported) == 0 || hasKey(post, h.keyBlob))
		if !valid {
			purgedMem++
		} else if mustDrop {
			orphaned++
		}
		switch {
		case mustDrop && memNow[n] && !valid:
			add("memory:not-purged", fmt.Sprintf("after %s the in-memory table still holds %s, outside its validity window", op.Name, n))
		case mustDrop && memNow[n]:
			add("memory:orphan-kept", fmt.Sprintf("after %s the in-memory table still holds %s although the underlying agent reported a non-empty list %v without its key", op.Name, n, identNames(reported)))
		case mustKeep && !memNow[n] && len(reported) == 0:
			add("memory:dropped-on-empty-list", fmt.Sprintf("%s dropped in-memory %s although the underlying agent reported an empty list (possibly locked)", op.Name, n))
		case mustKeep && !memNow[n]:
			add("memory:lost:"+kind(n), fmt.Sprintf("%s dropped in-memory %s although it is in its window and its key is held (%v)", op.Name, n, identNames(post)))
		}
	}
	for n := range memNow {
		if !x.intMem[n] {
			add("memory:spurious", fmt.Sprintf("in-memory table holds %s which no operation added", n))
		}
	}
	if purgedUA+purgedMem+orphaned > 0 {
		x.c.Nontrivial(fmt.Sprintf("%s|%s|%s|%d", op.Name, setKeys(x.intUA), setKeys(x.intMem), now.Unix()))
		x.c.Count("listings_that_purged", 1)
		if purgedUA+purgedMem >= 2 {
			x.c.Count("listings_that_purged_2plus", 1)
		}
		if orphaned > 0 {
			x.c.Count("listings_that_dropped_orphans", 1)
		}
	}
	x.c.Outcome(fmt.Sprintf("%s/purgedUA=%d/purgedMem=%d/orphans=%d/ualocked=%v", op.Name, purgedUA, purgedMem, orphaned, uaLocked))
	// (1)+(4) listing contents
	if op.Name == "List" || op.Name == "Signers" {
		var blobs [][]byte
		if op.Name == "List" {
			blobs = keyBlobs(r.keys)
		} else {
			blobs = signerBlobs(r.signers)
		}
		listed := map[string]int{}
		for _, b := range blobs {
			n := nameOf(b)
			listed[n]++
			if i := identsBy[string(b)]; i != nil && i.cert != nil && !inWindow(i.va, i.vb, now) {
				add("listing:out-of-window:"+kind(n), fmt.Sprintf("%s returned %s, whose window [%d,%d] does not contain now=%d", op.Name, n, i.va, i.vb, now.Unix()))
			}
		}
		if len(fs) == 0 {
			want := map[string]int{}
			if !uaLocked {
				for n := range expUA {
					if w.noUp && hidden(idents[n]) {
						continue // hidden by design in no-upstream mode
					}
					want[n]++
				}
			}
			for n := range memNow {
				want[n]++
			}
			for n, k := range want {
				if listed[n] < k {
					add("listing:missing:"+kind(n), fmt.Sprintf("%s does not return %s (%s); returned %v", op.Name, n, why(n, now), names(blobs)))
				}
			}
			for n, k := range listed {
				if want[n] < k {
					add("listing:unexpected", fmt.Sprintf("%s returned %s x%d, expected x%d", op.Name, n, k, want[n]))
				}
			}
		}
	} else { // Sign
		isCert := id.cert != nil
		if isCert && !inWindow(id.va, id.vb, now) && r.err == nil {
			add("sign:with-out-of-window:"+kind(op.Arg), fmt.Sprintf("Sign(%s) succeeded although the certificate is outside its window", op.Arg))
		}
		if r.err == nil && r.sig != nil {
			if verr := id.pub.Verify(r.data, r.sig); verr != nil {
				add("sign:bad-signature", fmt.Sprintf("Sign(%s) returned a signature that does not verify: %v", op.Arg, verr))
			}
		}
		present := (!uaLocked && expUA[op.Arg] && !(w.noUp && hidden(id))) || (!uaLocked && memNow[op.Arg] && hasKey(post, id.keyBlob) && hasPlain(post, id.keyBlob))
		if present && r.err != nil && expUA[op.Arg] && memNow[op.Arg] && !hasPlain(post, id.keyBlob) {
			// held twice (memory + underlying agent) while the plain key is gone: the shim redirects to the plain key.
			// C10 owns "signing works for every held identity" and records this history as a known finding; C07's
			// statement does not demand it
			x.c.Outcome("sign/dual-held-without-plain-key")
		} else if present && r.err != nil {
			add("sign:valid-identity-fails:"+kind(op.Arg), fmt.Sprintf("Sign(%s) failed (%v) although the identity is held and %s", op.Arg, r.err, why(op.Arg, now)))
		}
	}
	// the purge has happened: intended contents shrink accordingly
	if !uaLocked {
		x.intUA = expUA
	}
	x.intMem = map[string]bool{}
	for n := range memNow {
		x.intMem[n] = true
	}
	return
}

func hasPlain(set []*ident, keyBlob []byte) bool {
	for _, y := range set {
		if y.cert == nil && bytes.Equal(y.blob, keyBlob) {
			return true
		}
	}
	return false
}

func (x *c07World) resyncMem() {
	now := map[string]bool{}
	for _, b := range x.w.memBlobs() {
		n := nameOf(b)
		if x.intMem[n] {
			now[n] = true
		}
	}
	x.intMem = now
}

func (x *c07World) resyncAll() {
	x.resyncMem()
	ua := map[string]bool{}
	for _, b := range x.w.uaBlobs() {
		if n := nameOf(b); x.intUA[n] {
			ua[n] = true
		}
	}
	x.intUA = ua
}

func identNames(l []*ident) []string {
	var s []string
	for _, i := range l {
		s = append(s, i.name)
	}
	sort.Strings(s)
	return s
}

// kind abbreviates an identity to its class so that violation keys stay structural.
func kind(n string) string {
	i := idents[n]
	if i == nil || i.cert == nil {
		return "plain-key"
	}
	return n
}

func why(n string, now interface{ Unix() int64 }) string {
	i := idents[n]
	if i.cert == nil {
		return "a plain key"
	}
	return fmt.Sprintf("inside its validity window [%d,%d] at now=%d", i.va, i.vb, now.Unix())
}

func checkC07(c *ev.Ctx) {
	setupFixtures()
	c.Rule("E1 BFS over histories of the real shimagent.Server with a virtual clock: Add(13 identities incl. past/current/future/lapsing/edge/zero/forever/2^63/inverted windows), AddHardCert(5), Remove(5), RemoveAll, List, Signers, Sign(8), direct removals and lock/unlock on the underlying agent, clock ticks (+1min x2, +1h x1); roots = both upstream modes x 6 initial contents, plus 2 used servers per mode (hardware certificates in memory and a listing already served), with an unrelated key entering behind the shim's back in their alphabet, (incl. two where, once a key is removed, everything the underlying agent reports is out of window); plus both modes x 6 key families {DSA, sk-ed25519 security key, RSA, P-384, P-521, Ed25519; P-256 is K2 of the main roots} each with its key and an expired / current / not-yet-valid certificate in the underlying agent (alphabet List, Signers, Sign x4, Add expired, direct key removal, +1h); oracle against the intended contents. non-trivial = listing/signing transition that purged or orphan-dropped something; distinct by (operation, intended sets, clock)")
	c.Assume("certificate validity reference: va <= now <= vb after clamping to 2^63-1", "mem certificates whose key is held only inside an out-of-window certificate are don't-care for one listing (either outcome accepted)")
	var roots []string
	for _, mode := range []string{"up", "noup"} {
		for _, init := range []string{"", "K1,c.cur,c.past", "K1,K2,c.lapsing,c2.past", "c.past,K1,c.zero,c.cur,c2.past,K2,c.va63", "K2,c.past", "K1,c2.lapsing"} {
			roots = append(roots, mode+":"+init)
		}
	}
	// used servers: hardware certificates in memory and a listing already served (what the server remembers of that
	// listing must not decide what the next one checks)
	for _, mode := range []string{"up", "noup"} {
		roots = append(roots, mode+":K1,K2|AddHardCert h1;List", mode+":K1|AddHardCert h1x;Sign K1")
	}
	// every key family (certificate algorithm names differ): key + expired / current / future certificate in the
	// underlying agent from the start
	for _, mode := range []string{"up", "noup"} {
		for _, fam := range []string{"dsa", "sk", "rsa", "p384", "p521", "ed25519"} {
			roots = append(roots, mode+":@"+fam)
		}
	}
	depth := 4
	if c.Thorough() {
		depth = 7 // depth 6 closes in ~7 min here; depth 7 may be cut by the internal deadline, which is reported as a cap
	}
	runBFS(c, func(root string) bfs.World { return newC07World(c, root) }, roots, depth, 0)
}
