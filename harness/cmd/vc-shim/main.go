//go:build verif

// vc-shim: checks C07, C08, C09, C10 — explicit-state BFS (engine E1) over the real shimagent.Server.
package main

import (
	"os"

	"github.com/theparanoids/ysshra/internal/zzverif/ev"
)

func main() {
	c := ev.Main(map[string]string{"C07": "model_checking", "C08": "model_checking", "C09": "model_checking", "C10": "model_checking"})
	switch c.Prop {
	case "C07":
		checkC07(c)
	case "C08":
		checkC08(c)
	case "C09":
		checkC09(c)
	case "C10":
		checkC10(c)
	}
	os.Exit(c.Finish())
}
