//go:build verif

package main

import (
	"bytes"
	"encoding/json"
	"fmt"
	"math"
	"sort"
	"strings"
	"sync/atomic"
	"time"

	"golang.org/x/crypto/ssh"
	"golang.org/x/crypto/ssh/agent"

	"github.com/theparanoids/ysshra/agent/shimagent"
	"github.com/theparanoids/ysshra/internal/zzverif/bfs"
	"github.com/theparanoids/ysshra/internal/zzverif/ev"
	"github.com/theparanoids/ysshra/internal/zzverif/fix"
	"github.com/theparanoids/ysshra/internal/zzverif/introspect"
	"github.com/theparanoids/ysshra/internal/zzverif/uagent"
	"github.com/theparanoids/ysshra/keyid"
	"github.com/theparanoids/ysshra/zzverifrt/vnet"
	"github.com/theparanoids/ysshra/zzverifrt/vtime"
)

// T0 is the virtual "now" at the start of every history.
var T0 = time.Date(2030, 1, 1, 0, 0, 0, 0, time.UTC)

type ident struct {
	name    string
	priv    any
	signer  ssh.Signer // set for key types the agent protocol's add request cannot carry (security keys): put into the underlying agent directly
	pub     ssh.PublicKey
	cert    *ssh.Certificate
	blob    []byte
	keyBlob []byte
	va, vb  uint64
	ysshca  bool
}

var (
	idents   = map[string]*ident{}
	identsBy = map[string]*ident{} // by blob
)

func regKey(name string, priv any) *ident {
	p := fix.Pub(priv)
	id := &ident{name: name, priv: priv, pub: p, blob: p.Marshal(), keyBlob: p.Marshal()}
	idents[name] = id
	identsBy[string(id.blob)] = id
	return id
}

// regSignerKey registers a key that exists only as a signer object (no private key the agent protocol could carry).
func regSignerKey(name string, sg ssh.Signer) *ident {
	p := sg.PublicKey()
	id := &ident{name: name, signer: sg, pub: p, blob: p.Marshal(), keyBlob: p.Marshal()}
	idents[name] = id
	identsBy[string(id.blob)] = id
	return id
}

func regCert(name string, over *ident, keyID string, va, vb uint64, crit map[string]string) *ident {
	c := fix.SSHCert(over.pub, keyID, va, vb, crit, "alice")
	id := &ident{name: name, priv: over.priv, signer: over.signer, pub: c, cert: c, blob: c.Marshal(), keyBlob: over.blob, va: va, vb: vb}
	_, err := keyid.Unmarshal(keyID)
	id.ysshca = err == nil
	idents[name] = id
	identsBy[string(id.blob)] = id
	return id
}

func nameOf(blob []byte) string {
	if id, ok := identsBy[string(blob)]; ok {
		return id.name
	}
	return fmt.Sprintf("?%x", blob[len(blob)-4:])
}

func names(blobs [][]byte) []string {
	var s []string
	for _, b := range blobs {
		s = append(s, nameOf(b))
	}
	sort.Strings(s)
	return s
}

// inWindow is the reference validity predicate written from the statement: va <= now <= vb after clamping to 2^63-1.
func inWindow(va, vb uint64, now time.Time) bool {
	clamp := func(x uint64) int64 {
		if x > math.MaxInt64 {
			return math.MaxInt64
		}
		return int64(x)
	}
	n := now.Unix()
	return clamp(va) <= n && n <= clamp(vb)
}

// ysshcaKeyID builds a KeyID text that the real decoder accepts (checked at start-up by the callers).
func ysshcaKeyID(ff, hw, hl, nc bool, touch int, trans string) string {
	b, _ := json.Marshal(map[string]any{"prins": []string{"alice"}, "transID": trans, "reqUser": "alice", "reqIP": "1.2.3.4", "reqHost": "h",
		"isFirefighter": ff, "isHWKey": hw, "isHeadless": hl, "isNonce": nc, "usage": 0, "touchPolicy": touch, "ver": 1})
	return string(b)
}

var worldSeq atomic.Int64

// shimWorld is one fresh real shim agent over a fresh underlying agent, with the virtual clock.
type shimWorld struct {
	noUp   bool
	ua     *uagent.Agent
	shim   shimagent.ShimAgent
	newErr error
	newPan string
	addr   string
	clock  time.Time
	ticks1 int
	ticksH int
	last   opResult // result of the most recent exec
}

func newShimWorld(noUp bool, initial []string, prep func(ua *uagent.Agent)) *shimWorld {
	w := &shimWorld{noUp: noUp, ua: uagent.New(), clock: T0}
	for _, n := range initial {
		w.directAdd(n)
	}
	if prep != nil {
		prep(w.ua)
	}
	w.addr = fmt.Sprintf("/verif/ua-%d", worldSeq.Add(1))
	w.ua.Listen(w.addr)
	vtime.Set(w.clock)
	w.newPan = ev.Guard(func() {
		w.shim, w.newErr = shimagent.New(shimagent.Option{Address: w.addr, NoUpstream: noUp})
	})
	return w
}

func (w *shimWorld) Close() { vnet.Unregister(w.addr) }

func (w *shimWorld) directAdd(name string) {
	id := idents[name]
	if id == nil {
		panic("harness: unknown identity " + name)
	}
	if id.signer != nil {
		if err := w.ua.Ring.AddSigner(id.signer, id.cert, "c-"+name); err != nil {
			panic(err)
		}
		return
	}
	k := agent.AddedKey{PrivateKey: id.priv, Certificate: id.cert, Comment: "c-" + name}
	if err := w.ua.Ring.Add(k); err != nil {
		panic(err)
	}
}

// liveSlices returns the byte slices of a result exactly as the shim handed them out (no copies): what a caller holds.
func (r opResult) liveSlices() (out [][]byte) {
	if r.resp != nil {
		out = append(out, r.resp)
	}
	for _, k := range r.keys {
		if k != nil {
			out = append(out, k.Blob)
		}
	}
	if r.sig != nil {
		out = append(out, r.sig.Blob, r.sig.Rest)
	}
	return
}

type opResult struct {
	err     error
	keys    []*agent.Key
	signers []ssh.Signer
	sig     *ssh.Signature
	resp    []byte
	panic   string
	data    []byte
}

// exec runs one operation of the shared alphabet against the real shim (or directly on the environment).
func (w *shimWorld) exec(op bfs.Op) (r opResult) {
	vtime.Set(w.clock)
	id := idents[op.Arg]
	r.panic = ev.Guard(func() {
		switch op.Name {
		case "Add":
			r.err = w.shim.Add(agent.AddedKey{PrivateKey: id.priv, Certificate: id.cert, Comment: "c-" + id.name})
		case "AddHardCert":
			r.err = w.shim.AddHardCert(id.pub, "hw")
		case "AddHardCertAsAgentKey":
			// the wire form: an *agent.Key carrying the certificate blob (what the yubiagent server passes after parsing)
			r.err = w.shim.AddHardCert(&agent.Key{Format: id.pub.Type(), Blob: id.blob}, "hw")
		case "Remove":
			r.err = w.shim.Remove(id.pub)
		case "RemoveAll":
			r.err = w.shim.RemoveAll()
		case "List":
			r.keys, r.err = w.shim.List()
		case "Signers":
			r.signers, r.err = w.shim.Signers()
		case "Sign":
			r.data = []byte("data to be signed " + op.Arg)
			r.sig, r.err = w.shim.Sign(id.pub, r.data)
		case "Lock":
			r.err = w.shim.Lock([]byte(op.Arg))
		case "Unlock":
			r.err = w.shim.Unlock([]byte(op.Arg))
		case "Close":
			r.err = w.shim.Close()
		case "Forward":
			r.resp, r.err = w.shim.Forward([]byte(op.Arg))
		case "Extension":
			r.resp, r.err = w.shim.Extension(op.Arg, []byte(op.Arg2))
		case "URemove":
			r.err = w.ua.Ring.RemoveBlob(id.blob)
		case "UAdd":
			w.directAdd(op.Arg)
		case "ULock":
			r.err = w.ua.Ring.Lock([]byte("user-secret"))
		case "UUnlock":
			r.err = w.ua.Ring.Unlock([]byte("user-secret"))
		case "Tick1m":
			w.clock = w.clock.Add(time.Minute)
			w.ticks1++
		case "Tick1h":
			w.clock = w.clock.Add(time.Hour)
			w.ticksH++
		case "FaultNext":
			// arm a fault for the next request the underlying agent receives
			w.ua.Plan[len(w.ua.Log)] = op.Arg
		case "FaultAt":
			var off int
			fmt.Sscanf(op.Arg2, "%d", &off)
			w.ua.Plan[len(w.ua.Log)+off] = op.Arg
		default:
			panic("harness: unknown op " + op.Name)
		}
	})
	vtime.Set(w.clock)
	if r.panic == "" && w.shim != nil {
		// single-threaded here: a lock of the shim that cannot be taken now was left held by the call that just returned
		if held := introspect.LocksHeld(w.shim); len(held) > 0 {
			r.panic = fmt.Sprintf("%s: %s(%s) returned with %v still held; the next caller would block for ever", lockLeftHeld, op.Name, op.Arg, held)
		}
	}
	w.last = r
	return r
}

const lockLeftHeld = "LOCK-LEFT-HELD"

// panicKey names a crash finding; a leaked lock gets its own key.
func panicKey(p string) string {
	if strings.HasPrefix(p, lockLeftHeld) {
		return "lock-left-held"
	}
	return "panic:" + ev.PanicSite(p)
}

// memBlobs returns the certificates in the shim's in-memory table (found by reflection, no field named).
func (w *shimWorld) memBlobs() [][]byte { return introspect.CertBlobs(w.shim) }

func (w *shimWorld) memHas(blob []byte) bool {
	for _, b := range w.memBlobs() {
		if bytes.Equal(b, blob) {
			return true
		}
	}
	return false
}

// uaBlobs returns the ground-truth identities of the underlying agent (regardless of its lock).
func (w *shimWorld) uaBlobs() [][]byte {
	var out [][]byte
	for _, k := range w.ua.Ring.Keys {
		out = append(out, k.Blob)
	}
	return out
}

// baseKey renders real-object state + environment canonically.
func (w *shimWorld) baseKey() string {
	fp := ""
	if len(w.ua.Plan) > 0 {
		var ks []string
		for i, f := range w.ua.Plan {
			if i >= len(w.ua.Log) {
				ks = append(ks, fmt.Sprintf("%d:%s", i-len(w.ua.Log), f))
			}
		}
		sort.Strings(ks)
		fp = strings.Join(ks, ",")
	}
	closed := false
	for _, cn := range w.ua.Conns {
		if cn.LocallyClosed() {
			closed = true
		}
	}
	return fmt.Sprintf("shim=%s|ua=%s|clk=%d|faults=%s|closed=%v|newErr=%v", introspect.Dump(w.shim), w.ua.Ring.Canon(nameOf), w.clock.Unix()-T0.Unix(), fp, closed, w.newErr != nil)
}

func keyBlobs(keys []*agent.Key) [][]byte {
	var out [][]byte
	for _, k := range keys {
		out = append(out, k.Blob)
	}
	return out
}

func signerBlobs(ss []ssh.Signer) [][]byte {
	var out [][]byte
	for _, s := range ss {
		out = append(out, s.PublicKey().Marshal())
	}
	return out
}

func setOf(blobs [][]byte) map[string]int {
	m := map[string]int{}
	for _, b := range blobs {
		m[string(b)]++
	}
	return m
}

func histString(h []bfs.Op) string {
	var s []string
	for _, o := range h {
		x := o.Name
		if o.Arg != "" {
			x += "(" + o.Arg
			if o.Arg2 != "" {
				x += "," + o.Arg2
			}
			x += ")"
		}
		s = append(s, x)
	}
	return strings.Join(s, " → ")
}

// bfsCase is the replay-file payload of every E1 check.
type bfsCase struct {
	Root    string   `json:"root"`
	History []bfs.Op `json:"history"`
	Text    string   `json:"text"`
}

// runBFS drives engine E1 for one property and fills the evidence.
func runBFS(c *ev.Ctx, newWorld func(root string) bfs.World, allRoots []string, depth, maxStates int) {
	if c.ReplayCase == nil {
		// one shard (process) per root: the seams' globals (virtual clock, registries) are per process
		c.Set("bound", fmt.Sprintf("all histories of length <= %d over the alphabet from each of %d roots", depth, len(allRoots)))
		c.Sharded(len(allRoots), 8, func(i int) { runBFSShard(c, newWorld, allRoots[i:i+1], depth, maxStates) })
		return
	}
	runBFSShard(c, newWorld, allRoots, depth, maxStates)
}

func runBFSShard(c *ev.Ctx, newWorld func(root string) bfs.World, roots []string, depth, maxStates int) {
	if c.ReplayCase != nil {
		var k bfsCase
		json.Unmarshal(c.ReplayCase, &k)
		for _, f := range bfs.Replay(newWorld, k.Root, k.History) {
			c.Violation(f.Key, f.Desc, k)
		}
		return
	}
	// determinism self-check: one history replayed twice must give the same state key
	{
		w1, w2 := newWorld(roots[0]), newWorld(roots[0])
		ops := w1.Enabled()
		n := len(ops)
		if n > 6 {
			n = 6
		}
		for _, op := range ops[:n] {
			w1.Apply(op)
			w2.Apply(op)
		}
		if w1.Key() != w2.Key() {
			c.Violation(c.Prop+":harness:nondeterministic-replay", "the same history produced two different state keys:\n"+w1.Key()+"\n"+w2.Key(), nil)
			return
		}
		w1.Close()
		w2.Close()
	}
	sampleEvery := 0
	res := bfs.Run(bfs.Config{
		New: newWorld, Roots: roots, MaxDepth: depth, MaxStates: maxStates, Deadline: c.Deadline,
		OnFinding: func(root string, hist []bfs.Op, f bfs.Finding) {
			// re-run five times: the same history must fail identically before it is believed
			for i := 0; i < 5; i++ {
				again := bfs.Replay(newWorld, root, hist)
				ok := false
				for _, g := range again {
					if g.Key == f.Key {
						ok = true
					}
				}
				if !ok {
					c.Violation(c.Prop+":harness:unstable-finding", fmt.Sprintf("finding %s did not reproduce on re-run %d of %s", f.Key, i, histString(hist)), bfsCase{root, hist, histString(hist)})
					return
				}
			}
			c.Violation(f.Key, f.Desc+"\n  history ["+root+"]: "+histString(hist), bfsCase{root, hist, histString(hist)})
		},
		OnTransition: func(root string, hist []bfs.Op, d int) {
			c.Eval()
			sampleEvery++
			if sampleEvery%4001 == 17 {
				c.Sample(map[string]any{"root": root, "history": histString(hist)})
			}
		},
	})
	c.AddCov("states", int64(res.States))
	c.AddCov("transitions", int64(res.Transitions))
	c.AddCov("traces_validated_against_impl", int64(res.Transitions))
	c.ShardInfo(map[string]any{"roots": roots, "states": res.States, "transitions": res.Transitions, "depth_completed": res.DepthCompleted,
		"closed_under_alphabet": res.Closed, "frontier_left": res.FrontierLeft})
	if res.Capped != "" {
		c.Cap(res.Capped)
	}
}
