//go:build verif

package main

import (
	"fmt"
	"strings"

	"github.com/theparanoids/ysshra/internal/zzverif/bfs"
	"github.com/theparanoids/ysshra/internal/zzverif/ev"
)

// c09World drives two real shims in lock-step — no-upstream mode on (n) and off (u) — over two identical underlying
// agents with the same history, and checks absolute listing formulas in both plus the differential relation.
type c09World struct {
	n, u *shimWorld
	c    *ev.Ctx
	pre  []bfs.Op
}

func newC09World(c *ev.Ctx, root string) bfs.World {
	// "both:<initial contents>[|<op> <arg>;<op> <arg>…]": the part after '|' is a pre-history applied to the freshly built
	// servers, so that the bounded search also starts from states a long-lived server reaches after use
	pre := ""
	if i := strings.Index(root, "|"); i >= 0 {
		root, pre = root[:i], root[i+1:]
	}
	_, init := parseRoot(root)
	x := &c09World{n: newShimWorld(true, init, nil), u: newShimWorld(false, init, nil), c: c}
	if pre != "" {
		for _, o := range strings.Split(pre, ";") {
			f := strings.Fields(o)
			op := bfs.Op{Name: f[0]}
			if len(f) > 1 {
				op.Arg = f[1]
			}
			x.pre = append(x.pre, op)
		}
	}
	return x
}

// Init applies the pre-history (judged like any other transition).
func (x *c09World) Init() (fs []bfs.Finding) {
	for _, op := range x.pre {
		fs = append(fs, x.Apply(op)...)
	}
	return
}
func (x *c09World) Close() { x.n.Close(); x.u.Close() }
func (x *c09World) Key() string {
	return "N[" + x.n.baseKey() + "] U[" + x.u.baseKey() + "]"
}

func (x *c09World) Enabled() []bfs.Op {
	var ops []bfs.Op
	o := func(n string, args ...string) {
		for _, a := range args {
			ops = append(ops, bfs.Op{Name: n, Arg: a})
		}
	}
	ops = append(ops, bfs.Op{Name: "List"}, bfs.Op{Name: "Signers"})
	o("Add", "y.touch", "K1", "y.nonce", "y.inagent", "n.missing", "n.free", "y.default", "n.inconsistent", "n.empty", "y.tlsudo", "y.headless", "n.ver2", "n.noprins", "n.nohw", "y.ws.both")
	o("AddHardCert", "h1", "y.touch", "h2")
	o("Sign", "y.touch", "K1", "n.missing", "h1", "y.nonce", "n.free", "y.inagent", "y.ff") // (y.ff enters only behind the shim's back)
	o("Remove", "y.touch", "K1", "h1", "n.free")
	ops = append(ops, bfs.Op{Name: "RemoveAll"})
	o("UAdd", "y.ff", "y.sudoinagent", "y.ws.trail")
	return ops
}

// hidden: the property's own definition of what no-upstream mode hides.
func hidden(i *ident) bool { return i != nil && i.cert != nil && i.ysshca }

func (x *c09World) Apply(op bfs.Op) (fs []bfs.Finding) {
	add := func(key, desc string) { fs = append(fs, bfs.Finding{Key: "C09:" + key, Desc: desc}) }
	id := idents[op.Arg]
	memBefore := map[string]bool{}
	for _, b := range x.n.memBlobs() {
		memBefore[string(b)] = true
	}
	uaHadBefore := id != nil && x.n.ua.Ring.Has(id.blob)
	rn, ru := x.n.exec(op), x.u.exec(op)
	for _, r := range []opResult{rn, ru} {
		if r.panic != "" {
			add(panicKey(r.panic), r.panic)
			return
		}
	}
	// the two underlying agents must stay identical: hiding never changes what an operation does to ground truth
	if a, b := x.n.ua.Ring.Canon(nameOf), x.u.ua.Ring.Canon(nameOf); a != b {
		add("underlying-diverges:"+op.Name, fmt.Sprintf("after %s(%s) the underlying agents differ: no-upstream %s vs upstream %s", op.Name, op.Arg, a, b))
		return
	}
	if a, b := fmt.Sprint(names(x.n.memBlobs())), fmt.Sprint(names(x.u.memBlobs())); a != b {
		add("memory-diverges:"+op.Name, fmt.Sprintf("after %s(%s) the in-memory tables differ: no-upstream %s vs upstream %s", op.Name, op.Arg, a, b))
		return
	}
	if op.Name == "AddHardCert" && id != nil {
		// "in-memory hardware certificates stay listed and usable": an accepted one is held in memory from then on (the
		// listing formulas below trust the reflected table, so its contents are pinned here)
		for _, side := range []struct {
			w   *shimWorld
			r   opResult
			tag string
		}{{x.n, rn, "no-upstream"}, {x.u, ru, "upstream"}} {
			if side.r.err == nil && setOf(side.w.memBlobs())[string(id.blob)] == 0 {
				add("addhardcert:accepted-but-not-held:"+side.tag, fmt.Sprintf("AddHardCert(%s) succeeded in %s mode but the certificate is not in the in-memory table (underlying agent held it before: %v)", op.Arg, side.tag, uaHadBefore))
			}
		}
		if len(fs) > 0 {
			return
		}
	}
	switch op.Name {
	case "List", "Signers":
		var bn, bu [][]byte
		if op.Name == "List" {
			bn, bu = keyBlobs(rn.keys), keyBlobs(ru.keys)
		} else {
			bn, bu = signerBlobs(rn.signers), signerBlobs(ru.signers)
		}
		if rn.err != nil || ru.err != nil {
			add("listing-error", fmt.Sprintf("%s failed: %v / %v", op.Name, rn.err, ru.err))
			return
		}
		gotN, gotU := setOf(bn), setOf(bu)
		mem := setOf(x.n.memBlobs())
		nHidden := 0
		wantN, wantU := map[string]int{}, map[string]int{}
		for b, k := range mem {
			wantN[b] += k
			wantU[b] += k
		}
		for _, b := range x.n.uaBlobs() {
			wantU[string(b)]++
			if hidden(identsBy[string(b)]) {
				nHidden++
			} else {
				wantN[string(b)]++
			}
		}
		for b, k := range wantU {
			if gotU[b] != k {
				add("upstream-mode:listing-differs-from-ground-truth", fmt.Sprintf("with the mode off %s returns %s x%d, ground truth + memory says x%d", op.Name, nameOf([]byte(b)), gotU[b], k))
			}
		}
		for b, k := range gotU {
			if wantU[b] != k {
				add("upstream-mode:listing-differs-from-ground-truth", fmt.Sprintf("with the mode off %s returns %s x%d, ground truth + memory says x%d", op.Name, nameOf([]byte(b)), k, wantU[b]))
			}
		}
		for b, k := range gotN {
			if wantN[b] < k {
				i := identsBy[b]
				if hidden(i) {
					add("noupstream:lists-ysshca-cert:"+op.Name, fmt.Sprintf("in no-upstream mode %s returns the underlying agent's YSSHCA certificate %s", op.Name, nameOf([]byte(b))))
				} else {
					add("noupstream:unexpected:"+op.Name, fmt.Sprintf("in no-upstream mode %s returns %s x%d, expected x%d", op.Name, nameOf([]byte(b)), k, wantN[b]))
				}
			}
		}
		for b, k := range wantN {
			if gotN[b] < k {
				what := "identity"
				if i := identsBy[b]; i != nil && i.cert != nil && !i.ysshca {
					what = "certificate with a non-YSSHCA KeyID"
				} else if mem[b] > 0 {
					what = "in-memory hardware certificate"
				} else if i != nil && i.cert == nil {
					what = "plain key"
				}
				add("noupstream:hides-too-much:"+strings.ReplaceAll(what, " ", "-")+":"+op.Name, fmt.Sprintf("in no-upstream mode %s does not return the %s %s (x%d, expected x%d)", op.Name, what, nameOf([]byte(b)), gotN[b], k))
			}
		}
		if nHidden > 0 {
			x.c.Nontrivial(fmt.Sprintf("%s|%v|%v", op.Name, names(x.n.uaBlobs()), names(x.n.memBlobs())))
			x.c.Count("listings_with_hidden_certs", 1)
		}
		x.c.Outcome(fmt.Sprintf("%s/hidden=%d/mem=%d", op.Name, nHidden, len(mem)))
	case "Sign":
		mustRefuse := hidden(id) && !memBefore[string(id.blob)] && uaHadBefore
		if mustRefuse {
			x.c.Nontrivial("sign-hidden|" + op.Arg + fmt.Sprint(names(x.n.uaBlobs())))
			if rn.err == nil {
				add("noupstream:signs-with-hidden-cert", fmt.Sprintf("in no-upstream mode Sign(%s) succeeded with an underlying YSSHCA certificate", op.Arg))
			} else if !strings.Contains(rn.err.Error(), "not found") {
				add("noupstream:hidden-sign-wrong-error", fmt.Sprintf("in no-upstream mode Sign(%s) failed with %q, expected key-not-found", op.Arg, rn.err))
			}
			if ru.err != nil {
				add("upstream-mode:sign-fails", fmt.Sprintf("with the mode off Sign(%s) failed: %v", op.Arg, ru.err))
			}
		} else if !(hidden(id) && !memBefore[string(id.blob)]) {
			// everything else behaves as with the mode off
			if errClass(rn.err) != errClass(ru.err) {
				add("noupstream:sign-differs:"+kindY(id), fmt.Sprintf("Sign(%s): no-upstream %v, upstream %v", op.Arg, rn.err, ru.err))
			}
		}
		for _, r := range []opResult{rn, ru} {
			if r.err == nil && r.sig != nil {
				if verr := id.pub.Verify(r.data, r.sig); verr != nil {
					add("sign:bad-signature", fmt.Sprintf("Sign(%s): signature does not verify: %v", op.Arg, verr))
				}
			}
		}
		x.c.Outcome(fmt.Sprintf("Sign/%s/mustRefuse=%v/%s/%s", kindY(id), mustRefuse, errClass(rn.err), errClass(ru.err)))
	case "Remove":
		if errClass(rn.err) != errClass(ru.err) {
			add("noupstream:remove-differs:"+kindY(id), fmt.Sprintf("Remove(%s): no-upstream %v, upstream %v", op.Arg, rn.err, ru.err))
		}
		if hidden(id) && uaHadBefore {
			x.c.Nontrivial("remove-hidden|" + op.Arg)
			if rn.err != nil {
				add("noupstream:cannot-remove-hidden", fmt.Sprintf("Remove(%s) of a hidden certificate failed: %v", op.Arg, rn.err))
			}
			if x.n.ua.Ring.Has(id.blob) {
				add("noupstream:hidden-not-removed", fmt.Sprintf("Remove(%s) left the hidden certificate in the underlying agent", op.Arg))
			}
		}
	default:
		if errClass(rn.err) != errClass(ru.err) {
			add("noupstream:op-differs:"+op.Name, fmt.Sprintf("%s(%s): no-upstream %v, upstream %v", op.Name, op.Arg, rn.err, ru.err))
		}
	}
	return
}

func kindY(i *ident) string {
	switch {
	case i == nil:
		return "none"
	case i.cert == nil:
		return "plain"
	case i.ysshca:
		return "ysshca"
	}
	return "other-cert"
}

func checkC09(c *ev.Ctx) {
	setupFixtures()
	for _, n := range []string{"y.touch", "y.touchless", "y.tlsudo", "y.ff", "y.nonce", "y.inagent", "y.sudoinagent", "y.headless", "y.default", "h1", "h2"} {
		if !idents[n].ysshca {
			c.Violation("C09:harness:fixture", "fixture "+n+" does not decode as a YSSHCA KeyID", nil)
		}
	}
	for _, n := range []string{"n.missing", "n.ver2", "n.inconsistent", "n.free", "n.empty", "n.noprins", "n.nohw"} {
		if idents[n].ysshca {
			c.Violation("C09:harness:fixture", "near-miss fixture "+n+" decodes as a YSSHCA KeyID", nil)
		}
	}
	c.Rule("E1 BFS, two real shims (no-upstream on/off) driven in lock-step over identical underlying agents: Add(15: YSSHCA KeyIDs of every type, one surrounded by JSON whitespace (two more such certificates enter behind the shim's back and as initial content), near misses (three different missing fields, version 2, inconsistent), free text, empty, plain key), AddHardCert(3, one equal to an underlying YSSHCA certificate), Remove(4), RemoveAll, List, Signers, Sign(8, one of them a certificate that enters only behind the shim's back, so it may be signed with before any listing saw it), certificates added behind the shim's back; roots = all 16 subsets of a 4-identity generating set as initial contents, plus 2 whose underlying agent starts with expired certificates in front of plain keys and YSSHCA certificates, plus 2 with YSSHCA certificates over a DSA key / a software security key, plus 8 used servers (a pre-history of add + listing applied after construction); oracle: absolute multiset formulas against ground truth and the reflected memory table in both modes. non-trivial = listing with >=1 hidden certificate, or sign/remove naming a hidden certificate; distinct by (operation, underlying set, memory set)")
	c.Assume("Y(x) is the property's own definition: keyid.Unmarshal accepts x.KeyId (evaluated once per fixture)", "both worlds are built from the same fixtures")
	gen := []string{"K1", "y.touch", "n.missing", "y.inagent"}
	var roots []string
	for m := 0; m < 16; m++ {
		var s []string
		for i, g := range gen {
			if m&(1<<i) != 0 {
				s = append(s, g)
			}
		}
		roots = append(roots, "both:"+strings.Join(s, ","))
	}
	// used servers: a certificate added after construction and already classified by a listing
	roots = append(roots, "both:K1,y.ws.lead", "both:y.ws.lead|Add y.ws.both;List")
	// an expired certificate in front of a plain key and a YSSHCA certificate: the first listing prunes it, and what is
	// hidden must not depend on the positions the pruning leaves behind
	roots = append(roots, "both:c.past,K1,y.touch", "both:c.past,K2,y.inagent,c2.past,K1")
	// YSSHCA certificates over a DSA key and over a security key (other certificate algorithm names), from the start
	roots = append(roots, "both:a.dsa.key,y.dsa,K1", "both:y.sk.key,y.sk")
	for _, init := range []string{"", "K1"} {
		for _, pre := range []string{"Add y.touch;List", "Add y.touch;Signers", "Add y.inagent;List", "Add n.free;List;Add y.nonce;Signers"} {
			roots = append(roots, "both:"+init+"|"+pre)
		}
	}
	depth := 4
	if c.Thorough() {
		depth = 5 // (depth 6 no longer closes within the 3 h budget since the alphabet grew to 40 operations; depth 5 does)
	}
	runBFS(c, func(root string) bfs.World { return newC09World(c, root) }, roots, depth, 0)
}
