//go:build verif

package main

import (
	"fmt"
	"sort"
	"strings"

	"golang.org/x/crypto/ssh/agent"

	"github.com/theparanoids/ysshra/internal/zzverif/bfs"
	"github.com/theparanoids/ysshra/internal/zzverif/ev"
)

// c08World: the real shim W, plus a twin T that executes the same history minus every lock…unlock episode
// (differential oracle for "unlocking restores exactly the pre-lock view"), plus the reference lock automaton.
type c08World struct {
	w, t     *shimWorld
	locked   bool
	pass     string
	closed   bool
	thorough bool
	c        *ev.Ctx
}

func c08Roots() []string {
	var r []string
	for _, mode := range []string{"up", "noup"} {
		for _, init := range []string{"", "K1", "K1,c.cur", "K1,y.touch,K2"} {
			r = append(r, mode+":"+init)
		}
	}
	return r
}

func parseRoot(root string) (noUp bool, initial []string) {
	p := strings.SplitN(root, ":", 2)
	noUp = p[0] == "noup"
	if len(p) > 1 && p[1] != "" {
		initial = strings.Split(p[1], ",")
	}
	return
}

func newC08World(c *ev.Ctx, root string) bfs.World {
	noUp, init := parseRoot(root)
	return &c08World{w: newShimWorld(noUp, init, nil), t: newShimWorld(noUp, init, nil), thorough: c.Thorough(), c: c}
}

func (x *c08World) Init() []bfs.Finding { return nil }
func (x *c08World) Close() { x.w.Close(); x.t.Close() }

func (x *c08World) Key() string {
	return fmt.Sprintf("W[%s] T[%s] ref=%v:%s closed=%v", x.w.baseKey(), x.t.baseKey(), x.locked, x.pass, x.closed)
}

func (x *c08World) Enabled() []bfs.Op {
	ops := []bfs.Op{{Name: "List"}, {Name: "Lock", Arg: "p"}, {Name: "Unlock", Arg: "p"}, {Name: "Unlock", Arg: "q"}, {Name: "Unlock", Arg: ""},
		{Name: "Lock", Arg: "q"}, {Name: "Signers"}, {Name: "Sign", Arg: "K1"}, {Name: "Sign", Arg: "h1"}, {Name: "AddHardCert", Arg: "h1"},
		{Name: "Add", Arg: "K2"}, {Name: "Add", Arg: "c.cur"}, {Name: "Remove", Arg: "K1"}, {Name: "Remove", Arg: "h1"}, {Name: "RemoveAll"},
		{Name: "Lock!refused", Arg: "p"}, {Name: "Unlock!refused", Arg: "p"}, {Name: "Close"},
		// the request FOLLOWING the lock/unlock request inside the same operation fails (there is none on the current tree)
		{Name: "Lock!refused+1", Arg: "p"}, {Name: "Unlock!refused+1", Arg: "p"},
		// the underlying agent drops the connection instead of answering the unlock request (a transport failure, not a refusal)
		{Name: "Unlock!closed", Arg: "p"}}
	{ // (these were thorough-only until round 20; the whole alphabet costs a few seconds at the quick depth)
		ops = append(ops, bfs.Op{Name: "Lock!closed", Arg: "p"}, bfs.Op{Name: "Lock!closed+1", Arg: "p"}, bfs.Op{Name: "Unlock!closed+1", Arg: "p"}, bfs.Op{Name: "Unlock!refused+2", Arg: "p"}, bfs.Op{Name: "Sign", Arg: "c.cur"}, bfs.Op{Name: "Remove", Arg: "c.cur"},
			bfs.Op{Name: "Lock", Arg: ""}, bfs.Op{Name: "Forward", Arg: "\x0b"})
		// raw lock / unlock requests that the underlying agent REFUSES (a passphrase nobody uses; a lock while locked),
		// relayed verbatim: a refused request changes no lock state, whichever path it took
		ops = append(ops, bfs.Op{Name: "Forward", Arg: "\x17\x00\x00\x00\x02zz"})
		if x.locked && x.w.ua.Ring.Locked {
			ops = append(ops, bfs.Op{Name: "Forward", Arg: "\x16\x00\x00\x00\x02zz"})
		}
	}
	return ops
}

func listing(keys []*agent.Key) string {
	var s []string
	for _, k := range keys {
		s = append(s, nameOf(k.Blob)+"/"+k.Comment)
	}
	sort.Strings(s)
	return strings.Join(s, " ")
}

func errClass(err error) string {
	if err == nil {
		return "ok"
	}
	return "err"
}

func (x *c08World) Apply(op bfs.Op) (fs []bfs.Finding) {
	add := func(key, desc string) { fs = append(fs, bfs.Finding{Key: "C08:" + key, Desc: desc}) }
	real := op
	fault := ""
	off := 0 // the fault hits the off-th underlying request AFTER the operation's first one (0 = the lock/unlock request itself)
	if i := strings.Index(op.Name, "!"); i > 0 {
		real.Name = op.Name[:i]
		kind := op.Name[i+1:]
		if j := strings.Index(kind, "+"); j > 0 {
			fmt.Sscanf(kind[j+1:], "%d", &off)
			kind = kind[:j]
		}
		fault = map[string]string{"refused": "failure", "closed": "close"}[kind]
	}
	consumed := false
	run := func(sw *shimWorld) opResult {
		var armedAt int
		if fault != "" {
			armedAt = len(sw.ua.Log) + off
			sw.ua.Plan[armedAt] = fault
		}
		r := sw.exec(real)
		if fault != "" {
			delete(sw.ua.Plan, armedAt) // an unconsumed fault does not dangle
			if sw == x.w {
				consumed = len(sw.ua.Log) > armedAt && sw.ua.Log[armedAt].Fault != ""
			}
		}
		return r
	}
	memBefore, uaBefore := fmt.Sprint(names(x.w.memBlobs())), x.w.ua.Ring.Canon(nameOf)
	wasLocked := x.locked
	r := run(x.w)
	if r.panic != "" {
		add(panicKey(r.panic), r.panic)
		return
	}
	if off > 0 {
		if !consumed {
			fault = "" // the operation made no such request: it is the plain operation
		} else {
			// the lock/unlock request itself was accepted and a LATER request of the same operation failed: whatever
			// the operation returns, the shim's lock state must follow the underlying agent's (the reference adopts the
			// ground truth; a shim that stays locked while the agent is unlocked differs from the twin from now on)
			x.c.Outcome(fmt.Sprintf("%s/fault-after-lock-request/%s", real.Name, errClass(r.err)))
			x.c.Nontrivial(fmt.Sprintf("late-fault|%s|%d|%v", op.Name, off, wasLocked))
			x.locked = x.w.ua.Ring.Locked
			if x.locked {
				if !wasLocked {
					x.pass = real.Arg
				}
			} else {
				x.pass = ""
			}
			if fault == "close" {
				x.closed = true
			}
			return
		}
	}
	x.c.Outcome(fmt.Sprintf("%s/locked=%v/%s", real.Name, wasLocked, errClass(r.err)))
	if wasLocked {
		x.c.Nontrivial(fmt.Sprintf("%s|%s|%s|%s", op.Name, op.Arg, memBefore, uaBefore))
		switch real.Name {
		case "List":
			if r.err != nil || len(r.keys) != 0 {
				add("locked:list-discloses", fmt.Sprintf("List on a locked shim returned %d keys [%s], err=%v", len(r.keys), listing(r.keys), r.err))
			}
		case "Unlock":
			right := real.Arg == x.pass && fault == ""
			if right {
				if r.err != nil {
					add("unlock:right-passphrase-fails", fmt.Sprintf("Unlock with the right passphrase failed: %v", r.err))
				} else {
					x.locked, x.pass = false, ""
				}
			} else if r.err == nil {
				why := "wrong passphrase"
				if fault != "" {
					why = "underlying agent refused the unlock request"
				}
				add("unlock:succeeds-when-it-must-fail:"+strings.ReplaceAll(why, " ", "-"), "Unlock succeeded although "+why)
				x.locked = false
			}
		case "Forward":
			// raw forwarding is not in the statement's list; only "changes nothing" applies (checked below)
		default:
			if r.err == nil {
				add("locked:op-succeeds:"+real.Name, fmt.Sprintf("%s succeeded on a locked shim", real.Name))
			}
		}
		if !(real.Name == "Unlock" && r.err == nil) {
			memAfter, uaAfter := fmt.Sprint(names(x.w.memBlobs())), x.w.ua.Ring.Canon(nameOf)
			if fault == "close" {
				// the connection was dropped by the peer: identities must still be unchanged
			}
			if memAfter != memBefore {
				add("locked:changes-memory:"+real.Name, fmt.Sprintf("%s on a locked shim changed the in-memory table %s -> %s", real.Name, memBefore, memAfter))
			}
			if uaAfter != uaBefore {
				add("locked:changes-underlying:"+real.Name, fmt.Sprintf("%s on a locked shim changed the underlying agent %s -> %s", real.Name, uaBefore, uaAfter))
			}
			for _, cn := range x.w.ua.Conns {
				if cn.LocallyClosed() && !x.closed {
					add("locked:closes-connection", real.Name+" on a locked shim closed the connection")
				}
			}
			// still locked? revealed by a probe on a throw-away replay is too costly; the next List/Add in the history reveals it
		}
		return
	}
	// reference state: unlocked. The twin executes the same operation (lock episodes are skipped on the twin).
	switch real.Name {
	case "Lock":
		if x.closed {
			return // after Close every request fails; nothing to compare
		}
		if fault != "" {
			if r.err == nil {
				add("lock:succeeds-although-refused", "Lock reported success although the underlying agent refused the lock request")
				x.locked, x.pass = true, real.Arg
			}
			// the shim must still be unlocked: the twin comparison of later operations reveals it
			if fault == "failure" {
				return
			}
			run(x.t) // a dropped connection is a state change both worlds share
			return
		}
		if r.err != nil {
			add("lock:fails-when-unlocked", fmt.Sprintf("Lock on an unlocked shim failed: %v", r.err))
			return
		}
		x.locked, x.pass = true, real.Arg
		x.c.Nontrivial("lock|" + memBefore + "|" + uaBefore)
		return
	case "Unlock":
		if r.err == nil {
			add("unlock:succeeds-when-unlocked", "Unlock on an unlocked shim succeeded")
		}
		if fault == "close" {
			// unlocked shim returns before contacting the underlying agent; nothing consumed
		}
		return
	case "Close":
		x.closed = true
	}
	rt := run(x.t)
	if rt.panic != "" {
		add(panicKey(rt.panic), rt.panic)
		return
	}
	// differential: after any number of completed lock/unlock episodes W must behave exactly like T
	if errClass(r.err) != errClass(rt.err) {
		add("restore:result-differs:"+real.Name, fmt.Sprintf("%s returned %v on the shim that went through lock/unlock (or a refused lock) and %v on the twin that never locked", real.Name, r.err, rt.err))
	}
	switch real.Name {
	case "List":
		if listing(r.keys) != listing(rt.keys) {
			add("restore:list-differs", fmt.Sprintf("List = [%s] after lock/unlock episodes, twin that never locked lists [%s]", listing(r.keys), listing(rt.keys)))
		}
	case "Signers":
		if fmt.Sprint(names(signerBlobs(r.signers))) != fmt.Sprint(names(signerBlobs(rt.signers))) {
			add("restore:signers-differ", fmt.Sprintf("Signers = %v, twin %v", names(signerBlobs(r.signers)), names(signerBlobs(rt.signers))))
		}
	}
	if a, b := fmt.Sprint(names(x.w.memBlobs())), fmt.Sprint(names(x.t.memBlobs())); a != b {
		add("restore:memory-differs", fmt.Sprintf("in-memory table %s vs twin %s", a, b))
	}
	if a, b := x.w.ua.Ring.Canon(nameOf), x.t.ua.Ring.Canon(nameOf); a != b {
		add("restore:underlying-differs", fmt.Sprintf("underlying agent %s vs twin %s", a, b))
	}
	return
}

func checkC08(c *ev.Ctx) {
	setupFixtures()
	c.Rule("E1 BFS over histories of the real shimagent.Server: alphabet Lock/Unlock with passphrases {p,q,''}, lock/unlock refused by the underlying agent (failure reply; thorough: connection drop), a failure of the request that FOLLOWS the lock/unlock request inside the same operation, and every other ShimAgent operation; roots = both upstream modes x 4 initial contents; reference lock automaton + differential twin that skips lock episodes. non-trivial = operation executed on a locked shim or a successful lock; distinct by (operation, memory table, underlying identities)")
	c.Assume("the reflection walk finds the shim's in-memory table without naming it", "ground truth of the underlying agent is the harness-owned keyring")
	depth, maxStates := 6, 0
	if c.Thorough() {
		depth = 7
	}
	runBFS(c, func(root string) bfs.World { return newC08World(c, root) }, c08Roots(), depth, maxStates)
}
