//go:build verif

package main

import (
	"sort"
	"bytes"
	"crypto/sha256"
	"fmt"
	"runtime"
	"strings"

	"golang.org/x/crypto/ssh"
	"golang.org/x/crypto/ssh/agent"

	"github.com/theparanoids/ysshra/internal/zzverif/bfs"
	"github.com/theparanoids/ysshra/internal/zzverif/ev"
	"github.com/theparanoids/ysshra/internal/zzverif/uagent"
)

// c10World: real shim W over underlying agent UA; D is a twin underlying agent on which the harness performs the same
// Add/Remove/RemoveAll/Sign *directly* (pass-through oracle) as long as no fault has been consumed.
type c10World struct {
	w          *shimWorld
	d          *uagent.Keyring
	dOK        bool
	faultsUsed int
	maxFaults  int
	thorough   bool
	c          *ev.Ctx
	// hold mode: a caller keeps every value the shim returned; later operations must not change it
	hold      bool
	held      []c10Held
	heldNames []string
}

type c10Held struct {
	op   string
	live [][]byte
	snap [][]byte
}

var c10Bodies = map[string][]byte{
	"empty":   {},
	"one":     {0xc8},
	"unknown": append([]byte{0xc9}, []byte("unknown request body")...),
	"ext":     append([]byte{27, 0, 0, 0, 4}, []byte("x@y!payload")...),
	"big":     append([]byte{0xca}, bytes.Repeat([]byte{0x5a}, 64<<10)...),
	// one byte more than the largest frame the shim relays: refused before anything is written (hold roots only)
	"toobig": append([]byte{0xcb}, bytes.Repeat([]byte{0x33}, 16<<20)...),
}

func c10Raw(frame []byte) ([]byte, bool) {
	if len(frame) == 0 {
		return []byte{5}, true
	}
	if frame[0] >= 0xc8 || frame[0] == 27 {
		h := sha256.Sum256(frame)
		return append([]byte{0xee}, h[:]...), true
	}
	return nil, false
}

func newC10World(c *ev.Ctx, root string) bfs.World {
	parts := strings.Split(root, ":")
	noUp := parts[0] == "noup"
	var init []string
	if len(parts) > 1 && parts[1] != "" {
		init = strings.Split(parts[1], ",")
	}
	x := &c10World{d: &uagent.Keyring{}, dOK: true, maxFaults: 1, thorough: c.Thorough(), c: c}
	if c.Thorough() {
		x.maxFaults = 2
	}
	if len(parts) > 2 && parts[2] == "hold" {
		x.hold, x.maxFaults = true, 0
	}
	prep := func(ua *uagent.Agent) {
		ua.Raw = c10Raw
		if len(parts) > 2 && strings.HasPrefix(parts[2], "fault=") {
			ua.Plan[0] = strings.TrimPrefix(parts[2], "fault=")
			x.faultsUsed++
			x.dOK = false
		}
	}
	x.w = newShimWorld(noUp, init, prep)
	for _, n := range init {
		id := idents[n]
		x.d.Add(agent.AddedKey{PrivateKey: id.priv, Certificate: id.cert, Comment: "c-" + n})
	}
	return x
}

func (x *c10World) Close() { x.w.Close() }

// Init checks construction: a failure of the underlying agent while the shim is being built must surface as an error.
func (x *c10World) Init() (fs []bfs.Finding) {
	w := x.w
	faulted := ""
	for _, q := range w.ua.Log {
		if q.Fault != "" {
			faulted = q.Fault
		}
	}
	x.c.Outcome(fmt.Sprintf("New/noup=%v/fault=%s/%s", w.noUp, faulted, errClass(w.newErr)))
	if faulted != "" {
		x.c.Nontrivial("construction|" + faulted)
	}
	if w.newPan != "" {
		return []bfs.Finding{{Key: "C10:construction:panic:" + ev.PanicSite(w.newPan), Desc: fmt.Sprintf("shimagent.New(NoUpstream=%v) crashed when the underlying agent answered the first request with %q:\n%s", w.noUp, faulted, w.newPan)}}
	}
	if faulted != "" && w.newErr == nil {
		return []bfs.Finding{{Key: "C10:construction:fault-swallowed", Desc: "shimagent.New succeeded although the underlying agent failed (" + faulted + ") during construction"}}
	}
	if faulted == "" && w.newErr != nil {
		return []bfs.Finding{{Key: "C10:construction:fails-without-fault", Desc: "shimagent.New failed: " + w.newErr.Error()}}
	}
	return nil
}
func (x *c10World) Key() string {
	k := fmt.Sprintf("%s|D=%s|dOK=%v|faults=%d|newpanic=%v", x.w.baseKey(), x.d.Canon(nameOf), x.dOK, x.faultsUsed, x.w.newPan != "")
	if x.hold {
		k += "|held=" + strings.Join(x.heldNames, ";") // the values a caller still holds are part of the state
	}
	return k
}

func (x *c10World) Enabled() []bfs.Op {
	if x.w.shim == nil || x.w.newPan != "" {
		return nil
	}
	var ops []bfs.Op
	o := func(n string, args ...string) {
		for _, a := range args {
			ops = append(ops, bfs.Op{Name: n, Arg: a})
		}
	}
	if x.hold {
		if max := map[bool]int{false: 3, true: 4}[x.thorough]; len(x.heldNames) >= max {
			return nil // hold histories are not merged by state: bounded at 3 (thorough 4) operations
		}
		ops = append(ops, bfs.Op{Name: "List"})
		o("AddHardCert", "h1")
		o("Sign", "h1", "K1", "c.cur", "Krsa")
		o("Forward", "unknown", "empty", "one", "ext", "big", "toobig")
		return ops
	}
	ops = append(ops, bfs.Op{Name: "List"}, bfs.Op{Name: "Signers"})
	o("AddHardCert", "h1", "h2", "hrsa", "K2", "h3", "h1free")
	o("AddHardCertAsAgentKey", "h1")
	o("Add", "K2", "c2.cur", "Krsa", "h1") // h1 can then be held in memory AND by the underlying agent
	o("Sign", "h1", "K1", "c.cur", "hrsa", "h2", "K3", "Krsa")
	o("SignViaSigners", "h1", "K1")
	o("Remove", "h1", "K1", "c.cur", "K3")
	ops = append(ops, bfs.Op{Name: "RemoveAll"})
	o("Forward", "unknown", "empty", "one", "ext", "big")
	if x.faultsUsed < x.maxFaults && len(x.w.ua.Plan) == 0 {
		for _, k := range uagent.AllFaults {
			ops = append(ops, bfs.Op{Name: "FaultAt", Arg: k, Arg2: "0"}, bfs.Op{Name: "FaultAt", Arg: k, Arg2: "1"})
			if x.thorough {
				ops = append(ops, bfs.Op{Name: "FaultAt", Arg: k, Arg2: "2"})
			}
		}
	}
	return ops
}

func (x *c10World) wantListing() map[string]int {
	want := map[string]int{}
	for _, b := range x.w.memBlobs() {
		want[string(b)]++
	}
	for _, b := range x.w.uaBlobs() {
		if x.w.noUp && hidden(identsBy[string(b)]) {
			continue
		}
		want[string(b)]++
	}
	return want
}

func (x *c10World) Apply(op bfs.Op) (fs []bfs.Finding) {
	x.w.last = opResult{}
	fs = x.applyOp(op)
	if !x.hold {
		return
	}
	for _, h := range x.held {
		for i := range h.live {
			if !bytes.Equal(h.live[i], h.snap[i]) {
				fs = append(fs, bfs.Finding{Key: "C10:returned-value-changed-later:" + strings.Fields(h.op)[0] + ":by:" + op.Name,
					Desc: fmt.Sprintf("a value returned by %s (%d bytes) changed while the caller held it, during the later %s %s: results are not independent of later requests", h.op, len(h.snap[i]), op.Name, op.Arg)})
				h.snap[i] = append([]byte{}, h.live[i]...)
			}
		}
	}
	h := c10Held{op: op.Name + " " + op.Arg, live: x.w.last.liveSlices()}
	for _, l := range h.live {
		h.snap = append(h.snap, append([]byte{}, l...))
	}
	x.held = append(x.held, h)
	x.heldNames = append(x.heldNames, op.Name+" "+op.Arg)
	if len(x.held) > 1 {
		x.c.Nontrivial("hold|" + strings.Join(x.heldNames, ";"))
	}
	return
}

func (x *c10World) applyOp(op bfs.Op) (fs []bfs.Finding) {
	add := func(key, desc string) { fs = append(fs, bfs.Finding{Key: "C10:" + key, Desc: desc}) }
	w := x.w
	if w.shim == nil || w.newPan != "" {
		return
	}
	if op.Name == "FaultAt" {
		w.exec(op)
		x.faultsUsed++
		return
	}
	id := idents[op.Arg]
	memBefore := w.memBlobs()
	memSetBefore := setOf(memBefore)
	uaCanonBefore := w.ua.Ring.Canon(nameOf)
	logBefore := len(w.ua.Log)
	listedPlain := map[string]bool{} // plain keys the underlying agent lists right now
	for _, k := range w.ua.Ring.Keys {
		if i := identsBy[string(k.Blob)]; i != nil && i.cert == nil {
			listedPlain[string(k.Blob)] = true
		}
	}
	if op.Name == "Forward" {
		return x.applyForward(op, memSetBefore)
	}
	var r opResult
	real := op
	if op.Name == "SignViaSigners" {
		r = w.exec(bfs.Op{Name: "Signers"})
		if r.err == nil && r.panic == "" {
			// every signer object for this blob is used, in an order that does not depend on the order Signers() happened
			// to return them in (a certificate held twice yields two, and the shim sorts with a comparator that leaves
			// the order of duplicates to map iteration): the operation fails if any of them fails
			var match []ssh.Signer
			for _, s := range r.signers {
				if bytes.Equal(s.PublicKey().Marshal(), id.blob) {
					match = append(match, s)
				}
			}
			sort.SliceStable(match, func(i, j int) bool { return fmt.Sprintf("%T", match[i]) < fmt.Sprintf("%T", match[j]) })
			r.data = []byte("signed through the signer object")
			for _, s := range match {
				s := s
				var sig *ssh.Signature
				var serr error
				if p := ev.Guard(func() { sig, serr = s.Sign(nil, r.data) }); p != "" {
					r.panic = p
					break
				}
				if serr != nil {
					r.sig, r.err = nil, serr
					break
				}
				if verr := id.pub.Verify(r.data, sig); verr != nil {
					r.sig, r.err = sig, nil // the bad signature is judged below
					break
				}
				r.sig = sig
			}
			if len(match) == 0 {
				r.err = fmt.Errorf("no signer for %s", op.Arg)
			}
		}
		real.Name = "Sign"
	} else {
		r = w.exec(op)
	}
	// which faults fired during this operation?
	faulted := ""
	for _, q := range w.ua.Log[logBefore:] {
		if q.Fault != "" {
			faulted = q.Fault
		}
	}
	if faulted != "" {
		x.dOK = false
		x.c.Nontrivial(fmt.Sprintf("fault|%s|%s|%s|%d", faulted, op.Name, op.Arg, len(w.ua.Log)-logBefore))
		x.c.Count("operations_hit_by_a_fault", 1)
	}
	x.c.Outcome(fmt.Sprintf("%s/fault=%s/%s", real.Name, faulted, errClass(r.err)))
	if r.panic != "" {
		add(panicKey(r.panic), fmt.Sprintf("%s(%s) crashed (fault=%q):\n%s", op.Name, op.Arg, faulted, r.panic))
		return
	}
	memAfter := setOf(w.memBlobs())
	// a failure of the underlying agent never discards a still-valid in-memory certificate (all fixtures here are in-window)
	if faulted != "" || r.err != nil {
		for b := range memSetBefore {
			target := (real.Name == "Remove" && id != nil && string(id.blob) == b) || real.Name == "RemoveAll"
			// without a fault, dropping an orphan (key no longer reported by a non-empty underlying list) is C07's required purge
			keyHeld := false
			if hi := identsBy[b]; hi != nil {
				for _, k := range w.ua.Ring.Keys {
					if ki := identsBy[string(k.Blob)]; ki != nil && bytes.Equal(ki.keyBlob, hi.keyBlob) {
						keyHeld = true
					}
				}
			}
			if !keyHeld {
				continue // keyless in ground truth: dropping it is C07's purge, with or without a fault on the way
			}
			if memAfter[b] == 0 && !target {
				add("fault:discards-memory-cert:"+real.Name, fmt.Sprintf("%s(%s) under fault %q (err=%v) discarded the valid in-memory certificate %s", op.Name, op.Arg, faulted, r.err, nameOf([]byte(b))))
			}
		}
	}
	switch real.Name {
	case "AddHardCert", "AddHardCertAsAgentKey":
		already := memSetBefore[string(id.blob)] > 0
		if r.err == nil {
			x.c.Nontrivial("hardcert|" + op.Arg + "|" + uaCanonBefore)
			if id.cert == nil {
				add("hardcert:accepts-non-certificate", fmt.Sprintf("AddHardCert(%s) accepted a plain key", op.Arg))
			} else if !already && (!listedPlain[string(id.keyBlob)] || w.ua.Ring.Locked) {
				add("hardcert:accepted-without-held-key", fmt.Sprintf("AddHardCert(%s) succeeded although the underlying agent does not list its public key (lists %s)", op.Arg, uaCanonBefore))
			}
			if memAfter[string(id.blob)] != 1 && id.cert != nil {
				add("hardcert:not-stored", fmt.Sprintf("AddHardCert(%s) succeeded but the certificate is x%d in memory", op.Arg, memAfter[string(id.blob)]))
			}
			if already && fmt.Sprint(names(memBefore)) != fmt.Sprint(names(w.memBlobs())) {
				add("hardcert:readd-not-noop", "adding a hardware certificate again changed the in-memory table")
			}
		} else if faulted == "" && id.cert != nil && listedPlain[string(id.keyBlob)] && !w.ua.Ring.Locked && !x.connDead() {
			add("hardcert:refused-with-held-key", fmt.Sprintf("AddHardCert(%s) failed (%v) although the underlying agent lists its key", op.Arg, r.err))
		}
		if w.ua.Ring.Canon(nameOf) != uaCanonBefore {
			add("hardcert:changes-underlying", "AddHardCert changed the underlying agent")
		}
	case "List", "Signers":
		if r.err != nil {
			if faulted == "" && !x.connDead() {
				add("listing-error", fmt.Sprintf("%s failed without any fault: %v", op.Name, r.err))
			}
			break
		}
		var blobs [][]byte
		if op.Name == "List" {
			blobs = keyBlobs(r.keys)
		} else {
			blobs = signerBlobs(r.signers)
		}
		got, want := setOf(blobs), x.wantListing()
		for b, k := range want {
			if got[b] < k {
				add("listing:loses-identity:"+op.Name, fmt.Sprintf("%s returns %s x%d, ground truth + memory says x%d (fault=%q)", op.Name, nameOf([]byte(b)), got[b], k, faulted))
			}
		}
		for b, k := range got {
			if want[b] < k {
				add("listing:duplicates-or-invents:"+op.Name, fmt.Sprintf("%s returns %s x%d, ground truth + memory says x%d (fault=%q)", op.Name, nameOf([]byte(b)), k, want[b], faulted))
			}
		}
	case "Sign":
		inMem := memSetBefore[string(id.blob)] > 0
		if r.err == nil {
			if r.sig == nil {
				add("sign:nil-signature", "Sign returned (nil, nil)")
			} else if verr := id.pub.Verify(r.data, r.sig); verr != nil {
				add("sign:signature-does-not-verify:"+kindY(id), fmt.Sprintf("Sign(%s) returned a signature that does not verify under the identity's key: %v (fault=%q)", op.Arg, verr, faulted))
			}
			if inMem {
				x.c.Nontrivial("sign-hw|" + op.Arg)
			}
		} else if faulted == "" && !x.connDead() {
			held := w.ua.Ring.Has(id.blob) && !(w.noUp && hidden(id))
			if inMem && listedPlain[string(id.keyBlob)] {
				held = true
			}
			if held && !w.ua.Ring.Locked {
				if inMem && !listedPlain[string(id.keyBlob)] {
					// the certificate is held twice - in memory as a hardware certificate and by the underlying agent as an
					// identity of its own - while the plain key is gone: the shim redirects to the plain key and fails,
					// the underlying agent alone would sign (its own key, see KNOWN_FINDINGS.txt)
					add("sign:held-identity-fails:in-memory-and-in-agent-without-plain-key", fmt.Sprintf("Sign(%s) failed (%v): the shim redirected the request to the plain key, which is gone, although the underlying agent holds this very certificate with its private key", op.Arg, r.err))
				} else {
					add("sign:held-identity-fails:"+kindY(id), fmt.Sprintf("Sign(%s) failed (%v) although the identity is held", op.Arg, r.err))
				}
			}
		}
		if x.dOK && !inMem && op.Name == "Sign" && !(w.noUp && hidden(id)) {
			_, derr := x.d.Sign(id.pub, r.data)
			if errClass(derr) != errClass(r.err) {
				add("passthrough:sign-differs", fmt.Sprintf("Sign(%s) through the shim: %v; directly on the underlying agent: %v", op.Arg, r.err, derr))
			}
		}
	case "Add":
		if x.dOK {
			derr := x.d.Add(agent.AddedKey{PrivateKey: id.priv, Certificate: id.cert, Comment: "c-" + id.name})
			if errClass(derr) != errClass(r.err) {
				add("passthrough:add-differs", fmt.Sprintf("Add(%s) through the shim: %v; directly: %v", op.Arg, r.err, derr))
			}
		}
		if r.err == nil && !w.ua.Ring.Has(id.blob) {
			add("add:success-but-absent", fmt.Sprintf("Add(%s) reported success (fault=%q) but the underlying agent does not hold it", op.Arg, faulted))
		}
	case "Remove":
		inMem := memSetBefore[string(id.blob)] > 0
		if x.dOK {
			derr := x.d.Remove(id.pub)
			if !inMem && errClass(derr) != errClass(r.err) {
				add("passthrough:remove-differs", fmt.Sprintf("Remove(%s) through the shim: %v; directly: %v", op.Arg, r.err, derr))
			}
		}
		if r.err == nil {
			if memAfter[string(id.blob)] > 0 {
				add("remove:still-in-memory", fmt.Sprintf("Remove(%s) succeeded but the certificate is still in memory", op.Arg))
			}
			if faulted == "" && w.ua.Ring.Has(id.blob) {
				add("remove:still-in-underlying", fmt.Sprintf("Remove(%s) succeeded but the underlying agent still holds it", op.Arg))
			}
			if inMem {
				x.c.Nontrivial("remove-hw|" + op.Arg)
			}
		} else if inMem && faulted == "" && !x.connDead() && !w.ua.Ring.Locked {
			add("remove:hardware-cert-reports-failure", fmt.Sprintf("Remove(%s) of a held in-memory hardware certificate reported failure: %v", op.Arg, r.err))
		}
	case "RemoveAll":
		if x.dOK {
			x.d.RemoveAll()
		}
		if r.err == nil {
			if len(memAfter) != 0 {
				add("removeall:memory-left", "RemoveAll succeeded but in-memory certificates remain")
			}
			if faulted == "" && len(w.ua.Ring.Keys) != 0 {
				add("removeall:underlying-left", "RemoveAll succeeded but the underlying agent still holds identities")
			}
		}
	}
	if x.dOK && (real.Name == "List" || real.Name == "Signers" || real.Name == "Sign") {
		// the shim purges out-of-window certificates of the underlying agent while answering (C07); mirror that on the twin
		for _, k := range append([]uagent.Ident{}, x.d.Keys...) {
			if i := identsBy[string(k.Blob)]; i != nil && i.cert != nil && !inWindow(i.va, i.vb, w.clock) {
				x.d.RemoveBlob(k.Blob)
			}
		}
	}
	if x.dOK && w.ua.Ring.Canon(nameOf) != x.d.Canon(nameOf) {
		add("passthrough:ground-truth-differs:"+real.Name, fmt.Sprintf("after %s(%s) the underlying agent holds %s; the same calls made directly give %s", op.Name, op.Arg, w.ua.Ring.Canon(nameOf), x.d.Canon(nameOf)))
	}
	return
}

func (x *c10World) applyForward(op bfs.Op, memSetBefore map[string]int) (fs []bfs.Finding) {
	add := func(key, desc string) { fs = append(fs, bfs.Finding{Key: "C10:" + key, Desc: desc}) }
	w := x.w
	{
		body := c10Bodies[op.Arg]
		logBefore := len(w.ua.Log)
		var resp []byte
		var ferr error
		var m0, m1 runtime.MemStats
		runtime.ReadMemStats(&m0)
		sent := append([]byte{}, body...)
		pn := ev.Guard(func() { resp, ferr = w.shim.Forward(body) })
		runtime.ReadMemStats(&m1)
		w.last = opResult{resp: resp, err: ferr}
		if !bytes.Equal(sent, body) {
			add("forward:caller-buffer-modified", fmt.Sprintf("Forward(%s) modified the caller's request buffer", op.Arg))
			copy(body, sent)
		}
		if grew := m1.TotalAlloc - m0.TotalAlloc; grew > uint64(len(body))*4+(1<<20) {
			add("forward:allocates-for-oversized-frame", fmt.Sprintf("Forward allocated %d bytes while relaying a %d-byte request (reply length prefix above 16 MiB)", grew, len(body)))
		}
		if p := pn; p != "" {
			add("panic:"+ev.PanicSite(p), "Forward crashed:\n"+p)
			return
		}
		f2 := ""
		var delivered [][]byte
		for _, q := range w.ua.Log[logBefore:] {
			if q.Fault != "" {
				f2 = q.Fault
			}
			delivered = append(delivered, q.Body)
		}
		if f2 != "" {
			x.dOK = false
		}
		if ferr == nil {
			x.c.Nontrivial("forward|" + op.Arg + "|" + f2)
			if len(delivered) != 1 || !bytes.Equal(delivered[0], body) {
				add("forward:request-altered", fmt.Sprintf("Forward(%s, %d bytes) delivered %d frame(s) to the underlying agent, not exactly the request", op.Arg, len(body), len(delivered)))
			}
			var want []byte
			switch f2 {
			case "":
				want, _ = c10Raw(body)
			case uagent.FaultFailure:
				want = []byte{5}
			case uagent.FaultEmpty:
				want = []byte{}
			case uagent.FaultUnknown:
				want = []byte{0xee, 1, 2, 3}
			case uagent.FaultTruncated:
				want = []byte{12, 0}
			default:
				add("forward:success-without-reply", fmt.Sprintf("Forward succeeded although the underlying agent %s", f2))
			}
			if want != nil && !bytes.Equal(resp, want) {
				add("forward:reply-altered", fmt.Sprintf("Forward(%s) returned %d bytes, the underlying agent sent %d bytes", op.Arg, len(resp), len(want)))
			}
		} else if op.Arg == "toobig" {
			// refused locally, before anything reached the underlying agent: the connection is still in step, so every
			// later operation is judged as usual (a refusal that poisons later relays shows there)
			if len(delivered) != 0 {
				add("forward:oversized-request-partly-sent", fmt.Sprintf("Forward refused a %d-byte request (%v) after %d frame(s) of it had reached the underlying agent", len(body), ferr, len(delivered)))
			}
		} else if f2 == "" && !x.connDead() {
			add("forward:fails-without-fault", fmt.Sprintf("Forward(%s) failed: %v", op.Arg, ferr))
		}
		x.c.Outcome(fmt.Sprintf("Forward/fault=%s/%s", f2, errClass(ferr)))
		if f2 != "" {
			x.c.Nontrivial(fmt.Sprintf("fault|%s|Forward|%s", f2, op.Arg))
			x.c.Count("operations_hit_by_a_fault", 1)
		}
		memAfter := setOf(w.memBlobs())
		for b := range memSetBefore {
			if memAfter[b] == 0 {
				add("fault:discards-memory-cert:Forward", "Forward discarded the in-memory certificate "+nameOf([]byte(b)))
			}
		}
	}
	return
}

// connDead: the peer dropped the connection earlier in this history (every later request legitimately fails).
func (x *c10World) connDead() bool {
	for _, q := range x.w.ua.Log {
		if q.Fault == uagent.FaultClose || q.Fault == uagent.FaultOversized || q.Fault == uagent.FaultHuge {
			return true
		}
	}
	return false
}

func checkC10(c *ev.Ctx) {
	setupFixtures()
	c.Rule("E1 BFS over histories of the real shimagent.Server (constructed by shimagent.New through the dial seam): AddHardCert(6 incl. plain key, absent key, wire-form key), Add(3), Remove(4), RemoveAll, List, Signers, Sign(7 incl. RSA/ECDSA/Ed25519 and via Signers()), Forward(5 raw bodies, 0..64KiB; separately raw replies of 8 sizes from 1 byte to 16 MiB, complete and cut after 0 / 1 / half / all-but-one bytes of the announced body), and a fault plan as part of the history: at most one (thorough: two) deviation {failure, close, empty, unknown type, truncated, oversized 16MiB+1, huge 2^32-16} at underlying request offset 0/1 (thorough 2) from any point, plus construction faults at request 0 in no-upstream mode; roots = both modes x 4 initial contents (two of them with expired certificates at non-adjacent / adjacent positions, so purging runs inside the operations) + 6 construction-fault roots + 2 hold roots (every sequence over 12 value-returning operations incl. a raw request one byte above the 16 MiB frame limit with the caller keeping every earlier result: List blobs, signatures and raw replies must not change afterwards). non-trivial = operation hit by a fault, or hardware-certificate add/sign/remove, or forward; distinct by (fault, operation, offset)")
	c.Assume("well-formed replies of the wrong message type are excluded (they make x/crypto's agent client panic by design)", "pass-through is compared with the same calls made directly on a twin keyring until the first fault is consumed")
	var roots []string
	for _, mode := range []string{"up", "noup"} {
		roots = append(roots, mode+":K1,c.cur,Krsa", mode+":K1,K2,y.touch", mode+":K1,c.past,c.cur,c2.past", mode+":K1,c.past,c2.past,K2")
	}
	for _, k := range uagent.AllFaults {
		roots = append(roots, "noup:K1,c.cur:fault="+k)
	}
	// hold roots: every sequence of value-returning operations, the caller keeping all earlier results
	roots = append(roots, "up:K1,c.cur,Krsa:hold", "noup:K1,c.cur,Krsa:hold")
	depth := 4
	if c.Thorough() {
		depth = 6
	}
	if c.ReplayCase != nil && strings.Contains(string(c.ReplayCase), "\"reply_sizes\"") {
		c10ReplySizes(c) // (the whole pass: 78 cases, a few seconds)
		return
	}
	if c.ReplayCase == nil && !c.IsChild() {
		c10ReplySizes(c)
	}
	runBFS(c, func(root string) bfs.World { return newC10World(c, root) }, roots, depth, 0)
}

// c10ReplySizes: raw replies of every size class through Forward, complete and cut short. A complete reply is relayed
// byte for byte; a reply whose stream ends before the announced body is complete is an error, never a shorter reply.
func c10ReplySizes(c *ev.Ctx) {
	n := 0
	for _, noUp := range []bool{false, true} {
		for _, size := range []int{1, 1000, 65536, 262144, 262145, 300 << 10, 1 << 20, 16 << 20} {
			sents := []int{-1, 0, 1, size / 2, size - 1} // -1 = the complete reply
			for _, sent := range sents {
				if sent >= size && sent != -1 {
					continue
				}
				c.Eval()
				n++
				k := map[string]any{"reply_sizes": true, "no_upstream": noUp, "announced": size, "sent": sent}
				w := newShimWorld(noUp, []string{"K1"}, nil)
				if w.newErr != nil || w.newPan != "" {
					c.Violation("C10:harness:newshim", fmt.Sprint(w.newErr, w.newPan), k)
					w.Close()
					return
				}
				fault := fmt.Sprintf("bigreply:%d", size)
				if sent >= 0 {
					fault = fmt.Sprintf("cutframe:%d:%d", size, sent)
				}
				w.ua.Plan[len(w.ua.Log)] = fault
				var resp []byte
				var ferr error
				pn := ev.Guard(func() { resp, ferr = w.shim.Forward([]byte{0xc9, 1}) })
				switch {
				case pn != "":
					c.Violation("C10:panic:"+ev.PanicSite(pn), "Forward crashed:\n"+pn, k)
				case sent < 0 && (ferr != nil || len(resp) != size):
					c.Violation("C10:forward:reply-altered", fmt.Sprintf("a complete raw reply of %d bytes came back as %d bytes, err=%v", size, len(resp), ferr), k)
				case sent >= 0 && ferr == nil:
					c.Violation("C10:forward:truncated-reply-returned-as-success", fmt.Sprintf("the underlying agent announced a reply of %d bytes and the connection ended after %d of them; Forward returned %d bytes and no error", size, sent, len(resp)), k)
				}
				c.Outcome(fmt.Sprintf("reply-size/complete=%v/err=%v", sent < 0, ferr != nil))
				c.Nontrivial(fmt.Sprint("replysize", noUp, size, sent))
				w.Close()
			}
		}
	}
	c.Set("reply_size_cases", n)
}
