//go:build verif

package main

import (
	"math"
	"sync"

	"github.com/theparanoids/ysshra/internal/zzverif/fix"
)

var fixturesOnce sync.Once

// setupFixtures registers every identity used by the shim-group checks (deterministic keys, CA-signed certificates).
func setupFixtures() {
	fixturesOnce.Do(func() {
		t := uint64(T0.Unix())
		h := uint64(3600)
		k1 := regKey("K1", fix.Ed(0))
		k2 := regKey("K2", fix.EC(256))
		k3 := regKey("K3", fix.Ed(1))
		regKey("Krsa", fix.RSA(2048))
		plain := "plain text key id"
		regCert("c.past", k1, plain+" past", t-2*h, t-h, nil)
		regCert("c.cur", k1, plain+" cur", t-h, t+h, nil)
		regCert("c.future", k1, plain+" future", t+h/2, t+2*h, nil)
		regCert("c.lapsing", k1, plain+" lapsing", t-h, t+10, nil)
		regCert("c.edge", k1, plain+" edge", t, t, nil)
		regCert("c.zero", k1, plain+" zero", 0, 0, nil)
		regCert("c.forever", k1, plain+" forever", 0, math.MaxUint64, nil)
		regCert("c.vb63", k1, plain+" vb63", 0, 1<<63, nil)
		regCert("c.va63", k1, plain+" va63", 1<<63+5, math.MaxUint64, nil)
		regCert("c.inverted", k1, plain+" inverted", t+h, t-h, nil)
		regCert("c2.cur", k2, plain+" k2 cur", t-h, t+h, nil)
		regCert("c2.past", k2, plain+" k2 past", t-2*h, t-h, nil)
		regCert("c2.lapsing", k2, plain+" k2 lapsing", t-h, t+10, nil)
		// hardware certificates (added to the shim's memory; the key stays in the underlying agent / token)
		regCert("h1", k1, ysshcaKeyID(false, true, false, false, 3, "aa11bb22cc"), t-h, t+h, nil)
		regCert("h1x", k1, ysshcaKeyID(false, true, false, false, 3, "dd11bb22cc"), t-h, t+10, nil)
		regCert("h1past", k1, ysshcaKeyID(false, true, false, false, 3, "ee11bb22cc"), t-2*h, t-h, nil)
		regCert("h1free", k1, plain+" hw", t-h, t+h, nil)
		regCert("h2", k2, ysshcaKeyID(false, true, false, false, 1, "ff11bb22cc"), t-h, t+h, nil)
		regCert("h3", k3, ysshcaKeyID(false, true, false, false, 3, "0011bb22cc"), t-h, t+h, nil)
		regCert("hrsa", idents["Krsa"], ysshcaKeyID(false, true, false, false, 2, "1111bb22cc"), t-h, t+h, nil)
		// YSSHCA certificates of every type held by the underlying agent (C09), and near misses
		regCert("y.touch", k1, ysshcaKeyID(false, true, false, false, 3, "a000000001"), t-h, t+h, nil)
		regCert("y.touchless", k1, ysshcaKeyID(false, true, false, false, 1, "a000000002"), t-h, t+h, nil)
		regCert("y.tlsudo", k1, ysshcaKeyID(false, true, false, false, 1, "a000000003"), t-h, t+h, map[string]string{"touchless-sudo-hosts": "h1,h2"})
		regCert("y.ff", k1, ysshcaKeyID(true, true, false, false, 2, "a000000004"), t-h, t+h, nil)
		regCert("y.nonce", k1, ysshcaKeyID(false, false, false, true, 1, "a000000005"), t-h, t+h, nil)
		regCert("y.inagent", k2, ysshcaKeyID(true, false, false, false, 1, "a000000006"), t-h, t+h, nil)
		regCert("y.sudoinagent", k2, ysshcaKeyID(true, false, false, false, 1, "a000000007"), t-h, t+h, map[string]string{"touchless-sudo-hosts": "h1"})
		regCert("y.headless", k2, ysshcaKeyID(false, false, true, false, 1, "a000000008"), t-h, t+h, nil)
		regCert("y.lapsing", k1, ysshcaKeyID(false, true, false, false, 3, "a00000000a"), t-h, t+10, nil) // hidden in no-upstream mode, lapses during a history
		// YSSHCA KeyIDs surrounded by JSON whitespace (the KeyID decoder accepts them, so they are YSSHCA certificates)
		regCert("y.ws.both", k1, "\t"+ysshcaKeyID(false, true, false, false, 3, "a00000000b")+" \r\n", t-h, t+h, nil)
		regCert("y.ws.trail", k2, ysshcaKeyID(true, false, false, false, 1, "a00000000c")+"\n", t-h, t+h, nil)
		regCert("y.ws.lead", k1, " "+ysshcaKeyID(false, true, false, false, 1, "a00000000d"), t-h, t+h, nil)
		regCert("y.default", k2, ysshcaKeyID(false, false, false, false, 0, "a000000009"), t-h, t+h, nil)
		regCert("n.missing", k1, `{"prins":["alice"],"transID":"b1","reqUser":"alice","reqIP":"1.2.3.4","reqHost":"h","isFirefighter":false,"isHWKey":true,"isHeadless":false,"isNonce":false,"usage":0,"ver":1}`, t-h, t+h, nil)
		regCert("n.ver2", k1, `{"prins":["alice"],"transID":"b2","reqUser":"alice","reqIP":"1.2.3.4","reqHost":"h","isFirefighter":false,"isHWKey":true,"isHeadless":false,"isNonce":false,"usage":0,"touchPolicy":1,"ver":2}`, t-h, t+h, nil)
		regCert("n.inconsistent", k1, `{"prins":["alice"],"transID":"b3","reqUser":"alice","reqIP":"1.2.3.4","reqHost":"h","isFirefighter":false,"isHWKey":true,"isHeadless":true,"isNonce":false,"usage":0,"touchPolicy":1,"ver":1}`, t-h, t+h, nil)
		// further near misses, each lacking ONE other required member (a decoder whose notion of "required" drifts with what it
		// decoded before treats one of them as valid after another)
		regCert("n.noprins", k2, `{"transID":"b4","reqUser":"alice","reqIP":"1.2.3.4","reqHost":"h","isFirefighter":false,"isHWKey":true,"isHeadless":false,"isNonce":false,"usage":0,"touchPolicy":1,"ver":1}`, t-h, t+h, nil)
		regCert("n.nohw", k2, `{"prins":["alice"],"transID":"b5","reqUser":"alice","reqIP":"1.2.3.4","reqHost":"h","isFirefighter":false,"isHeadless":false,"isNonce":false,"usage":0,"touchPolicy":1,"ver":1}`, t-h, t+h, nil)
		regCert("n.free", k2, "free text", t-h, t+h, nil)
		regCert("n.empty", k2, "", t-h, t+h, nil)
		// YSSHCA-issued certificates over the legacy and the security-key families (certificate algorithm names differ)
		adsa := regKey("a.dsa.key", fix.DSA())
		regCert("y.dsa", adsa, ysshcaKeyID(false, true, false, false, 3, "a00000000e"), t-h, t+h, nil)
		regCert("y.sk", regSignerKey("y.sk.key", fix.SK(2)), ysshcaKeyID(false, true, false, false, 1, "a00000000f"), t-h, t+h, nil)
		// one key and three certificates (expired, current, not yet valid) per key family, incl. the legacy and the
		// security-key types (certificate algorithm names differ per family)
		for fam, key := range map[string]*ident{"rsa": regKey("a.rsa.key", fix.RSA(1024)), "p384": regKey("a.p384.key", fix.EC(384)),
			"p521": regKey("a.p521.key", fix.EC(521)), "ed25519": regKey("a.ed25519.key", fix.Ed(3)), "dsa": adsa, "sk": regSignerKey("a.sk.key", fix.SK(4))} {
			regCert("a."+fam+".past", key, plain+" "+fam+" past", t-2*h, t-h, nil)
			regCert("a."+fam+".cur", key, plain+" "+fam+" cur", t-h, t+h, nil)
			regCert("a."+fam+".future", key, plain+" "+fam+" future", t+h/2, t+2*h, nil)
		}
	})
}
