//go:build verif

package main

import (
	"bytes"
	"crypto"
	"crypto/ecdsa"
	"crypto/ed25519"
	"crypto/rand"
	"crypto/rsa"
	"crypto/sha1"
	"crypto/sha256"
	"crypto/sha512"
	"crypto/x509"
	"encoding/hex"
	"encoding/json"
	"fmt"
	"math/big"
	"time"

	"github.com/theparanoids/ysshra/attestation/yubiattest"
	"github.com/theparanoids/ysshra/internal/zzverif/ev"
	"github.com/theparanoids/ysshra/internal/zzverif/fix"
)

// c06Case is self-contained for replay: device key size, chain relation, label, TBS bytes and signature.
type c06Case struct {
	Bits    int // RSA device key size; 0 = non-RSA device key (KeyType says which)
	KeyType string
	Chain   string // root | otherca | selfsigned | expired | notyet | missing-intermediate | via-intermediate
	Label   int    // x509.SignatureAlgorithm
	TBS     string // hex
	Sig     string // hex
	EM      string `json:",omitempty"` // hex; when Sig is empty the harness computes Sig = EM^d mod N
	Note    string
	Exp     int `json:",omitempty"` // RSA public exponent of the device key when it is not the fixture's 65537
}

var c06Exps = []int{3, 5, 17, 257, 65539}

var c06ExpKeys = map[string]*rsa.PrivateKey{}

// c06KeyWithExp: the fixture modulus with another public exponent (nil when the exponent is not invertible for its primes).
func c06KeyWithExp(bits, exp int) *rsa.PrivateKey {
	id := fmt.Sprint(bits, "/", exp)
	if k, ok := c06ExpKeys[id]; ok {
		return k
	}
	base := fix.RSA(bits)
	one := big.NewInt(1)
	phi := new(big.Int).Mul(new(big.Int).Sub(base.Primes[0], one), new(big.Int).Sub(base.Primes[1], one))
	d := new(big.Int).ModInverse(big.NewInt(int64(exp)), phi)
	var k *rsa.PrivateKey
	if d != nil {
		k = &rsa.PrivateKey{PublicKey: rsa.PublicKey{N: base.N, E: exp}, D: d, Primes: []*big.Int{base.Primes[0], base.Primes[1]}}
		k.Precompute()
	}
	c06ExpKeys[id] = k
	return k
}

// c06BigKey: device keys larger than any fixture key, as multi-prime RSA over the fixture primes (5120 = 2x2048 + 2x512,
// 6144 = 2x2048 + 2x1024, 8192 = 2x2048 + 2x1536 + 2x512 bits) - legal RSA public keys; the harness signs by CRT over all primes.
var c06BigSizes = map[int][]int{5120: {4096, 1024}, 6144: {4096, 2048}, 8192: {4096, 3072, 1024}}

func c06BigKey(bits int) *rsa.PrivateKey {
	id := fmt.Sprint("big", bits)
	if k, ok := c06ExpKeys[id]; ok {
		return k
	}
	n, lambda, one := big.NewInt(1), big.NewInt(1), big.NewInt(1)
	var primes []*big.Int
	for _, b := range c06BigSizes[bits] {
		for _, p := range fix.RSA(b).Primes {
			primes = append(primes, p)
			n.Mul(n, p)
			lambda.Mul(lambda, new(big.Int).Sub(p, one))
		}
	}
	k := &rsa.PrivateKey{PublicKey: rsa.PublicKey{N: n, E: 65537}, D: new(big.Int).ModInverse(big.NewInt(65537), lambda), Primes: primes}
	if k.D == nil || n.BitLen() > bits || n.BitLen() < bits-3 {
		panic(fmt.Sprintf("harness: cannot build a %d-bit multi-prime key (got %d bits)", bits, n.BitLen()))
	}
	c06ExpKeys[id] = k
	return k
}

// c06SignRawMulti computes em^d mod N by CRT over any number of primes (Garner).
func c06SignRawMulti(key *rsa.PrivateKey, em []byte) []byte {
	c, one := new(big.Int).SetBytes(em), big.NewInt(1)
	x, m := new(big.Int), big.NewInt(1)
	for i, p := range key.Primes {
		mi := new(big.Int).Exp(new(big.Int).Mod(c, p), new(big.Int).Mod(key.D, new(big.Int).Sub(p, one)), p)
		if i == 0 {
			x.Set(mi)
		} else {
			t := new(big.Int).Sub(mi, x)
			t.Mul(t, new(big.Int).ModInverse(new(big.Int).Mod(m, p), p))
			t.Mod(t, p)
			x.Add(x, t.Mul(t, m))
		}
		m.Mul(m, p)
	}
	out := make([]byte, (key.N.BitLen()+7)/8)
	x.FillBytes(out)
	return out
}

var c06Hashes = []crypto.Hash{crypto.SHA1, crypto.SHA256, crypto.SHA384, crypto.SHA512}

var c06DigestInfo = map[crypto.Hash][2][]byte{ // [with NULL, without NULL]
	crypto.SHA1:   {{0x30, 0x21, 0x30, 0x09, 0x06, 0x05, 0x2b, 0x0e, 0x03, 0x02, 0x1a, 0x05, 0x00, 0x04, 0x14}, {0x30, 0x1f, 0x30, 0x07, 0x06, 0x05, 0x2b, 0x0e, 0x03, 0x02, 0x1a, 0x04, 0x14}},
	crypto.SHA256: {{0x30, 0x31, 0x30, 0x0d, 0x06, 0x09, 0x60, 0x86, 0x48, 0x01, 0x65, 0x03, 0x04, 0x02, 0x01, 0x05, 0x00, 0x04, 0x20}, {0x30, 0x2f, 0x30, 0x0b, 0x06, 0x09, 0x60, 0x86, 0x48, 0x01, 0x65, 0x03, 0x04, 0x02, 0x01, 0x04, 0x20}},
	crypto.SHA384: {{0x30, 0x41, 0x30, 0x0d, 0x06, 0x09, 0x60, 0x86, 0x48, 0x01, 0x65, 0x03, 0x04, 0x02, 0x02, 0x05, 0x00, 0x04, 0x30}, {0x30, 0x3f, 0x30, 0x0b, 0x06, 0x09, 0x60, 0x86, 0x48, 0x01, 0x65, 0x03, 0x04, 0x02, 0x02, 0x04, 0x30}},
	crypto.SHA512: {{0x30, 0x51, 0x30, 0x0d, 0x06, 0x09, 0x60, 0x86, 0x48, 0x01, 0x65, 0x03, 0x04, 0x02, 0x03, 0x05, 0x00, 0x04, 0x40}, {0x30, 0x4f, 0x30, 0x0b, 0x06, 0x09, 0x60, 0x86, 0x48, 0x01, 0x65, 0x03, 0x04, 0x02, 0x03, 0x04, 0x40}},
}

func c06Digest(h crypto.Hash, b []byte) []byte {
	switch h {
	case crypto.SHA1:
		s := sha1.Sum(b)
		return s[:]
	case crypto.SHA256:
		s := sha256.Sum256(b)
		return s[:]
	case crypto.SHA384:
		s := sha512.Sum384(b)
		return s[:]
	default:
		s := sha512.Sum512(b)
		return s[:]
	}
}

// c06LabelHash: the hash named by a signature-algorithm label that the statement allows (RSA labels and the
// same-hash DSA/ECDSA labels the implementation maps); 0 = label that must be rejected.
func c06LabelHash(l x509.SignatureAlgorithm) crypto.Hash {
	switch l {
	case x509.SHA1WithRSA:
		return crypto.SHA1
	case x509.SHA256WithRSA:
		return crypto.SHA256
	case x509.SHA384WithRSA:
		return crypto.SHA384
	case x509.SHA512WithRSA:
		return crypto.SHA512
	}
	return 0
}

// c06MustRejectLabel: labels the statement says are rejected outright.
func c06MustRejectLabel(l x509.SignatureAlgorithm) bool {
	switch l {
	case x509.MD2WithRSA, x509.MD5WithRSA, x509.UnknownSignatureAlgorithm, x509.SHA256WithRSAPSS, x509.SHA384WithRSAPSS, x509.SHA512WithRSAPSS, x509.PureEd25519:
		return true
	}
	return l < 0 || l > x509.PureEd25519
}

// c06ValidEM is the independent predicate: m (k bytes) is a full-length PKCS#1 v1.5 encoded message for some supported
// hash of tbs, in either identifier form, with at least eight FF bytes.
func c06ValidEM(m []byte, tbs []byte) bool {
	k := len(m)
	for _, h := range c06Hashes {
		for form := 0; form < 2; form++ {
			t := append(append([]byte{}, c06DigestInfo[h][form]...), c06Digest(h, tbs)...)
			if k < len(t)+11 {
				continue
			}
			want := make([]byte, 0, k)
			want = append(want, 0, 1)
			want = append(want, bytes.Repeat([]byte{0xff}, k-3-len(t))...)
			want = append(want, 0)
			want = append(want, t...)
			if bytes.Equal(want, m) {
				return true
			}
		}
	}
	return false
}

func c06EM(k int, h crypto.Hash, form int, tbs []byte) []byte {
	t := append(append([]byte{}, c06DigestInfo[h][form]...), c06Digest(h, tbs)...)
	em := append([]byte{0, 1}, bytes.Repeat([]byte{0xff}, k-3-len(t))...)
	em = append(em, 0)
	return append(em, t...)
}

// c06SignRaw computes em^d mod N with CRT.
func c06SignRaw(key *rsa.PrivateKey, em []byte) []byte {
	c := new(big.Int).SetBytes(em)
	p, q := key.Primes[0], key.Primes[1]
	m1 := new(big.Int).Exp(c, key.Precomputed.Dp, p)
	m2 := new(big.Int).Exp(c, key.Precomputed.Dq, q)
	h := new(big.Int).Sub(m1, m2)
	h.Mul(h, key.Precomputed.Qinv)
	h.Mod(h, p)
	h.Mul(h, q)
	h.Add(h, m2)
	out := make([]byte, (key.N.BitLen()+7)/8)
	h.FillBytes(out)
	return out
}

type c06World struct {
	pool   *x509.CertPool
	device map[string]*x509.Certificate // key: fmt.Sprint(bits/keytype, "/", chain)
}

var (
	c06W      *c06World
	c06Shared *yubiattest.Attestor
)

func c06Build() *c06World {
	now := time.Now()
	y := 365 * 24 * time.Hour
	w := &c06World{pool: x509.NewCertPool(), device: map[string]*x509.Certificate{}}
	rootKey, otherKey, interKey := fix.EC(384), fix.EC(521), fix.EC(256)
	root := fix.X509Issue(fix.X509Template("verif PIV root", 1, now.Add(-y), now.Add(10*y), true), fix.X509Template("verif PIV root", 1, now.Add(-y), now.Add(10*y), true), rootKey.Public(), rootKey)
	root2Key := fix.RSA(2048)
	root2 := fix.X509Issue(fix.X509Template("verif U2F root", 2, now.Add(-y), now.Add(10*y), true), fix.X509Template("verif U2F root", 2, now.Add(-y), now.Add(10*y), true), root2Key.Public(), root2Key)
	w.pool.AddCert(root)
	w.pool.AddCert(root2)
	other := fix.X509Issue(fix.X509Template("foreign CA", 3, now.Add(-y), now.Add(10*y), true), fix.X509Template("foreign CA", 3, now.Add(-y), now.Add(10*y), true), otherKey.Public(), otherKey)
	inter := fix.X509Issue(fix.X509Template("verif intermediate", 4, now.Add(-y), now.Add(5*y), true), root, interKey.Public(), rootKey)
	mk := func(name string, pub crypto.PublicKey) {
		dev := func(nb, na time.Time) *x509.Certificate {
			t := fix.X509Template("YubiKey PIV Attestation", 10, nb, na, true)
			return t
		}
		w.device[name+"/root"] = fix.X509Issue(dev(now.Add(-y), now.Add(5*y)), root, pub, rootKey)
		w.device[name+"/root2"] = fix.X509Issue(dev(now.Add(-y), now.Add(5*y)), root2, pub, root2Key)
		w.device[name+"/otherca"] = fix.X509Issue(dev(now.Add(-y), now.Add(5*y)), other, pub, otherKey)
		w.device[name+"/expired"] = fix.X509Issue(dev(now.Add(-2*y), now.Add(-y)), root, pub, rootKey)
		w.device[name+"/notyet"] = fix.X509Issue(dev(now.Add(y), now.Add(2*y)), root, pub, rootKey)
		w.device[name+"/missing-intermediate"] = fix.X509Issue(dev(now.Add(-y), now.Add(5*y)), inter, pub, interKey)
	}
	for _, bits := range []int{1024, 1032, 1536, 2048, 3072, 4096} {
		mk(fmt.Sprint(bits), fix.RSA(bits).Public())
		// self-signed outside the pool
		t := fix.X509Template("YubiKey PIV Attestation", 10, now.Add(-y), now.Add(5*y), true)
		w.device[fmt.Sprint(bits)+"/selfsigned"] = fix.X509Issue(t, t, fix.RSA(bits).Public(), fix.RSA(bits))
	}
	// device keys with an unusual (legal) public exponent on the fixture moduli
	for _, bits := range []int{1024, 2048} {
		for _, e := range c06Exps {
			if k := c06KeyWithExp(bits, e); k != nil {
				w.device[fmt.Sprintf("%de%d/root", bits, e)] = fix.X509Issue(fix.X509Template("YubiKey PIV Attestation", 10, now.Add(-y), now.Add(5*y), true), root, &k.PublicKey, rootKey)
			}
		}
	}
	for bits := range c06BigSizes {
		mk(fmt.Sprint(bits), &c06BigKey(bits).PublicKey)
	}
	mk("p256", fix.EC(256).Public())
	mk("ed25519", fix.Ed(0).Public())
	return w
}

func c06Run(c *ev.Ctx, k c06Case) {
	c.Eval()
	name := k.KeyType
	if k.Bits != 0 {
		name = fmt.Sprint(k.Bits)
		if k.Exp != 0 {
			name = fmt.Sprintf("%de%d", k.Bits, k.Exp)
		}
	}
	dev := c06W.device[name+"/"+k.Chain]
	if dev == nil {
		c.Violation("C06:harness:nodevice", name+"/"+k.Chain, k)
		return
	}
	tbs, _ := hex.DecodeString(k.TBS)
	if k.Sig == "" && k.EM != "" && k.Bits != 0 {
		em, _ := hex.DecodeString(k.EM)
		if _, big := c06BigSizes[k.Bits]; big {
			k.Sig = hex.EncodeToString(c06SignRawMulti(c06BigKey(k.Bits), em))
		} else {
			key := fix.RSA(k.Bits)
			if k.Exp != 0 {
				key = c06KeyWithExp(k.Bits, k.Exp)
			}
			k.Sig = hex.EncodeToString(c06SignRaw(key, em))
		}
	}
	sig, _ := hex.DecodeString(k.Sig)
	slot := &x509.Certificate{SignatureAlgorithm: x509.SignatureAlgorithm(k.Label), RawTBSCertificate: tbs, Signature: sig}
	// half of the cases share one long-lived Attestor (state kept between attestations would show), half build their own
	att := c06Shared
	if att == nil || len(k.Sig) == 0 || k.Sig[len(k.Sig)-1]%2 == 0 {
		att = yubiattest.NewAttestorWithCAPool(c06W.pool)
	}
	var err error
	if p := ev.Guard(func() { err = att.Attest(dev, slot) }); p != "" {
		c.Violation("C06:panic:"+ev.PanicSite(p), p, k)
		return
	}
	chainOK := k.Chain == "root" || k.Chain == "root2"
	rsaKey := k.Bits != 0
	var m []byte
	emOK := false
	if rsaKey {
		pub := dev.PublicKey.(*rsa.PublicKey)
		kk := (pub.N.BitLen() + 7) / 8
		mi := new(big.Int).Exp(new(big.Int).SetBytes(sig), big.NewInt(int64(pub.E)), pub.N)
		m = make([]byte, kk)
		mi.FillBytes(m)
		emOK = c06ValidEM(m, tbs)
	}
	label := x509.SignatureAlgorithm(k.Label)
	if err == nil {
		c.Outcome("accepted")
		c.Nontrivial(k.Note + fmt.Sprint(k.Bits, k.Label, k.Chain))
		switch {
		case !chainOK:
			c.Violation("C06:accept:chain:"+k.Chain, "accepted although the device certificate does not chain to the root pool now ("+k.Chain+")", k)
		case !rsaKey:
			c.Violation("C06:accept:non-rsa-device-key", "accepted with a non-RSA device key", k)
		case c06MustRejectLabel(label):
			c.Violation(fmt.Sprintf("C06:accept:label:%d", k.Label), fmt.Sprintf("accepted signature algorithm label %v", label), k)
		case !emOK:
			c.Violation("C06:accept:bad-encoded-message:"+k.Note, fmt.Sprintf("accepted although sig^e mod N = %x is not a full-length PKCS#1 v1.5 encoding of a supported digest of the body (%s)", m, k.Note), k)
		}
		return
	}
	c.Outcome("rejected")
	// "if" direction: a correct EM for the hash named by an RSA label with a valid chain must be accepted
	if chainOK && rsaKey && emOK {
		if h := c06LabelHash(label); h != 0 {
			kk := len(m)
			if bytes.Equal(m, c06EM(kk, h, 0, tbs)) || bytes.Equal(m, c06EM(kk, h, 1, tbs)) {
				c.Violation("C06:reject:valid:"+k.Note, fmt.Sprintf("rejected a correctly signed slot certificate (%v, %d-bit key, %s): %v", label, k.Bits, k.Note, err), k)
			}
		}
	}
}

// c06Lifetime: "chains to the configured root pool at the CURRENT time" must hold for a long-lived Attestor too. A device
// certificate that is valid when the Attestor is built and expires 3 s later is attested before and after its expiry
// with the same Attestor (and, symmetrically, one that becomes valid 3 s after construction). The waits are sized from
// the certificates' own NotBefore/NotAfter with a margin, and a first attestation that comes too late makes the
// sub-check vacuous (reported as such), never a violation.
func c06Lifetime(c *ev.Ctx, tbs []byte) {
	now := time.Now()
	rootKey := fix.EC(384)
	rt := fix.X509Template("verif lifetime root", 77, now.Add(-time.Hour), now.Add(time.Hour), true)
	root := fix.X509Issue(rt, rt, rootKey.Public(), rootKey)
	pool := x509.NewCertPool()
	pool.AddCert(root)
	dev := fix.RSA(1024)
	expiring := fix.X509Issue(fix.X509Template("device expiring soon", 78, now.Add(-time.Hour), now.Add(4*time.Second), true), root, dev.Public(), rootKey)
	starting := fix.X509Issue(fix.X509Template("device valid soon", 79, now.Add(4*time.Second), now.Add(time.Hour), true), root, dev.Public(), rootKey)
	sig := c06SignRaw(dev, c06EM(128, crypto.SHA256, 0, tbs))
	slot := &x509.Certificate{SignatureAlgorithm: x509.SHA256WithRSA, RawTBSCertificate: tbs, Signature: sig}
	att := yubiattest.NewAttestorWithCAPool(pool) // one long-lived Attestor
	c.Eval()
	err1 := att.Attest(expiring, slot)
	errS1 := att.Attest(starting, slot)
	if err1 != nil || time.Now().After(expiring.NotAfter.Add(-500*time.Millisecond)) {
		c.Set("lifetime_subcheck", "vacuous: the first attestation came too late or failed: "+fmt.Sprint(err1))
		return
	}
	if errS1 == nil {
		c.Violation("C06:accept:chain:notyet", "a device certificate that is not yet valid was accepted", c06Case{Note: "long-lived attestor, not yet valid"})
	}
	time.Sleep(time.Until(expiring.NotAfter.Add(1500 * time.Millisecond)))
	c.Eval()
	err2 := att.Attest(expiring, slot)
	errS2 := att.Attest(starting, slot)
	c.Outcome(fmt.Sprintf("lifetime/before=%v/after=%v", err1 == nil, err2 == nil))
	c.Nontrivial("lifetime")
	if err2 == nil {
		c.Violation("C06:accept:chain:expired-while-attestor-alive", "an Attestor built while the device certificate was valid still accepts it after the certificate expired: the chain is not verified at the current time", c06Case{Note: "long-lived attestor: device certificate NotAfter = construction + 4 s, attested again 1.5 s after expiry"})
	}
	if errS2 != nil {
		c.Violation("C06:reject:valid:became-valid-while-attestor-alive", fmt.Sprintf("a device certificate that became valid after the Attestor was built is still rejected: %v", errS2), c06Case{Note: "long-lived attestor: NotBefore = construction + 4 s"})
	}
	c.Set("lifetime_subcheck", "device certificate expiring / becoming valid 4 s after the Attestor was built, attested before and after with the same Attestor")
}

func checkC06(c *ev.Ctx) {
	c.Rule("the harness owns the device RSA key, so for any target encoded message EM it computes sig = EM^d mod N: device key sizes (quick 1024,2048 and a 6144-bit multi-prime key; thorough +1032,1536,3072,4096 and 5120 / 8192-bit multi-prime keys; big keys: every 8th byte position and the neighbourhood of every multiple of 256 quick, every position thorough) x hash{SHA-1,256,384,512} x identifier form{NULL,no NULL} x every byte position of EM x 7 replacement values; structural variants (EVERY padding length 0..full-1 with the freed bytes after the digest / between identifier and digest / before the identifier (2048-bit quick: the 12 shortest, 12 longest and every 16th), shortened/short padding, 00 inside padding, missing separator, shifted T, foreign identifier, wrong digest, block types 00/02, sig+N); single-bit flips of signature and body (quick: 1024-bit key; thorough: 2048 too); every signature-algorithm label 0..16,99,-1 x EM hash; chain relations {pool root (2 roots), foreign CA, self-signed, expired, not yet valid, missing intermediate}; device key types {RSA, P-256, Ed25519} incl. slot certificates that are validly signed by the (CA-flagged) device key with ECDSA, Ed25519 or RSA-PSS; RSA public exponents {3,5,17,257,65539} (those invertible for the fixture primes) on the 1024-bit modulus (thorough: 2048 too), interleaved with the 65537 cases; one long-lived Attestor used before and after a device certificate's expiry / start of validity (real time, 5.5 s). 192 ordered pairs on one goroutine (6 predecessor kinds incl. non-RSA device keys x 4 hashes x {valid, signed over previous body || body}). Oracle: independent predicate on sig^e mod N. non-trivial = accepted attestation; distinct by (size,label,chain,variant)")
	c.Assume("crypto/x509 chain building is trusted", "modular exponentiation by math/big")
	t0 := time.Now()
	c06W = c06Build()
	c06Shared = yubiattest.NewAttestorWithCAPool(c06W.pool)
	c.Set("world_build_s", time.Since(t0).Seconds())
	if c.ReplayCase != nil {
		var k c06Case
		json.Unmarshal(c.ReplayCase, &k)
		c06Run(c, k)
		return
	}
	sizes := []int{1024, 2048}
	flipSizes := []int{1024}
	if c.Thorough() {
		sizes = []int{1024, 1032, 1536, 2048, 3072, 4096}
		flipSizes = []int{1024, 2048}
	}
	tbs := append([]byte("to-be-signed certificate body of the slot certificate "), bytes.Repeat([]byte{0x42}, 40)...)
	tbsHex := hex.EncodeToString(tbs)
	labelOf := map[crypto.Hash]x509.SignatureAlgorithm{crypto.SHA1: x509.SHA1WithRSA, crypto.SHA256: x509.SHA256WithRSA, crypto.SHA384: x509.SHA384WithRSA, crypto.SHA512: x509.SHA512WithRSA}
	var cases []c06Case
	add := func(bits int, label x509.SignatureAlgorithm, chain string, em []byte, note string) {
		cases = append(cases, c06Case{Bits: bits, Chain: chain, Label: int(label), TBS: tbsHex, EM: hex.EncodeToString(em), Note: note})
	}
	for _, bits := range sizes {
		k := bits / 8
		if bits%8 != 0 {
			k++
		}
		for _, h := range c06Hashes {
			for form := 0; form < 2; form++ {
				base := c06EM(k, h, form, tbs)
				fn := fmt.Sprintf("%v/form%d", h, form)
				add(bits, labelOf[h], "root", base, "valid "+fn)
				add(bits, labelOf[h], "root2", base, "valid "+fn)
				// the same encoded message under device keys with other public exponents: signed by that key (must be
				// accepted), signed by the 65537 key of the same modulus (must be rejected), and one altered padding byte
				if bits == 1024 || (bits == 2048 && c.Thorough()) {
					for _, e := range c06Exps {
						if c06KeyWithExp(bits, e) == nil {
							continue
						}
						cases = append(cases, c06Case{Bits: bits, Exp: e, Chain: "root", Label: int(labelOf[h]), TBS: tbsHex, EM: hex.EncodeToString(base), Note: fmt.Sprintf("valid %s exponent %d", fn, e)})
						cases = append(cases, c06Case{Bits: bits, Exp: e, Chain: "root", Label: int(labelOf[h]), TBS: tbsHex, Sig: hex.EncodeToString(c06SignRaw(fix.RSA(bits), base)), Note: fmt.Sprintf("signed with exponent 65537 of the same modulus, device exponent %d", e)})
						bad := append([]byte{}, base...)
						bad[5] = 0xfe
						cases = append(cases, c06Case{Bits: bits, Exp: e, Chain: "root", Label: int(labelOf[h]), TBS: tbsHex, EM: hex.EncodeToString(bad), Note: fmt.Sprintf("padding byte altered, exponent %d", e)})
					}
				}
				// every byte position x replacement values
				for pos := 0; pos < k; pos++ {
					for _, f := range []func(byte) byte{func(byte) byte { return 0 }, func(byte) byte { return 1 }, func(byte) byte { return 2 }, func(byte) byte { return 0xff }, func(byte) byte { return 0xfe },
						func(b byte) byte { return b ^ 1 }, func(b byte) byte { return b ^ 0x80 }} {
						em := append([]byte{}, base...)
						em[pos] = f(em[pos])
						if bytes.Equal(em, base) || em[0] != 0 {
							if em[0] != 0 && new(big.Int).SetBytes(em).Cmp(fix.RSA(bits).N) >= 0 {
								continue
							}
							if bytes.Equal(em, base) {
								continue
							}
						}
						region := "padding"
						tl := len(c06DigestInfo[h][form]) + h.Size()
						switch {
						case pos == 0:
							region = "leading00"
						case pos == 1:
							region = "blocktype"
						case pos == k-tl-1:
							region = "separator"
						case pos >= k-h.Size():
							region = "digest"
						case pos >= k-tl:
							region = "identifier"
						}
						add(bits, labelOf[h], "root", em, "byte-replaced "+region)
					}
				}
				// structural variants
				t := append(append([]byte{}, c06DigestInfo[h][form]...), c06Digest(h, tbs)...)
				for short := 1; short <= 8; short++ {
					// Bleichenbacher-2006 shape: padding shortened, tail filled with garbage after the digest
					if k-3-len(t)-short < 0 {
						continue
					}
					em := append([]byte{0, 1}, bytes.Repeat([]byte{0xff}, k-3-len(t)-short)...)
					em = append(em, 0)
					em = append(em, t...)
					em = append(em, bytes.Repeat([]byte{0xa5}, short)...)
					add(bits, labelOf[h], "root", em, "padding-shortened-tail-filled")
					// T shifted left with zero tail
					em2 := append([]byte{0, 1}, bytes.Repeat([]byte{0xff}, k-3-len(t)-short)...)
					em2 = append(em2, 0)
					em2 = append(em2, t...)
					em2 = append(em2, make([]byte, short)...)
					add(bits, labelOf[h], "root", em2, "T-shifted")
				}
				// every padding length from 0 up to one short of full length, the freed bytes placed (a) after the digest,
				// (b) between the digest identifier and the digest, (c) between the separator and the identifier: a
				// decoder that walks the block from the left, or probes only its two ends, accepts some of these
				{
					id, dg := c06DigestInfo[h][form], c06Digest(h, tbs)
					full := k - 3 - len(t)
					for ps := 0; ps < full; ps++ {
						if bits > 1024 && !c.Thorough() && ps > 12 && ps < full-12 && ps%16 != 0 {
							continue
						}
						free := full - ps
						head := append(append([]byte{0, 1}, bytes.Repeat([]byte{0xff}, ps)...), 0)
						for _, fill := range []byte{0xa5, 0x00} {
							g := bytes.Repeat([]byte{fill}, free)
							if fill == 0xa5 {
								add(bits, labelOf[h], "root", bytes.Join([][]byte{head, id, dg, g}, nil), "short-padding:filler-after-digest")
								add(bits, labelOf[h], "root", bytes.Join([][]byte{head, g, id, dg}, nil), "short-padding:filler-before-identifier")
							}
							add(bits, labelOf[h], "root", bytes.Join([][]byte{head, id, g, dg}, nil), "short-padding:filler-between-identifier-and-digest")
						}
					}
				}
				{ // fewer than 8 padding bytes cannot be full length for these sizes; emulate with 00 inside the padding
					em := append([]byte{}, base...)
					em[9] = 0
					add(bits, labelOf[h], "root", em, "00-inside-padding")
					em = append([]byte{}, base...)
					em[k-len(t)-1] = 0xff
					add(bits, labelOf[h], "root", em, "missing-separator")
					for _, bt := range []byte{0, 2} {
						em = append([]byte{}, base...)
						em[1] = bt
						add(bits, labelOf[h], "root", em, fmt.Sprintf("block-type-%02x", bt))
					}
					// digest of other bytes
					t2 := append(append([]byte{}, c06DigestInfo[h][form]...), c06Digest(h, append([]byte("x"), tbs...))...)
					em = append(append([]byte{0, 1}, bytes.Repeat([]byte{0xff}, k-3-len(t2))...), 0)
					add(bits, labelOf[h], "root", append(em, t2...), "digest-of-other-bytes")
					// identifier of another hash with this digest length mismatch: use every other hash's identifier
					for _, h2 := range c06Hashes {
						if h2 == h {
							continue
						}
						t3 := append(append([]byte{}, c06DigestInfo[h2][form]...), c06Digest(h, tbs)...)
						if k < len(t3)+11 {
							continue
						}
						em = append(append([]byte{0, 1}, bytes.Repeat([]byte{0xff}, k-3-len(t3))...), 0)
						add(bits, labelOf[h], "root", append(em, t3...), "identifier-of-another-hash")
					}
				}
				// labels x this EM
				for l := -1; l <= 17; l++ {
					add(bits, x509.SignatureAlgorithm(l), "root", base, fmt.Sprintf("label-sweep em=%v", h))
				}
				add(bits, x509.SignatureAlgorithm(99), "root", base, "label-sweep")
				// chains
				for _, ch := range []string{"otherca", "selfsigned", "expired", "notyet", "missing-intermediate"} {
					add(bits, labelOf[h], ch, base, "chain "+ch)
				}
			}
		}
	}
	// device keys beyond 4096 bits (padding longer than 512 bytes): valid messages, one byte replaced at every 8th position
	// and around every multiple of 256 (thorough: every position), short padding with filler at sparse lengths
	{
		bigs := []int{6144}
		if c.Thorough() {
			bigs = []int{5120, 6144, 8192}
		}
		for _, bits := range bigs {
			k := (c06BigKey(bits).N.BitLen() + 7) / 8
			hs := []crypto.Hash{crypto.SHA256}
			if c.Thorough() {
				hs = []crypto.Hash{crypto.SHA256, crypto.SHA1, crypto.SHA512}
			}
			for _, h := range hs {
				for form := 0; form < 2; form++ {
					if form == 1 && !c.Thorough() {
						continue
					}
					base := c06EM(k, h, form, tbs)
					add(bits, labelOf[h], "root", base, fmt.Sprintf("valid %v/form%d big key", h, form))
					for pos := 0; pos < k; pos++ {
						if !c.Thorough() && pos%8 != 0 && pos%256 > 2 && pos%256 < 254 && pos > 12 && pos < k-len(c06DigestInfo[h][form])-h.Size()-4 {
							continue
						}
						for _, v := range []byte{0x00, 0xfe} {
							if base[pos] == v || (v == 0xfe && !c.Thorough() && pos%64 != 0) {
								continue
							}
							em := append([]byte{}, base...)
							em[pos] = v
							add(bits, labelOf[h], "root", em, "byte-replaced big key")
						}
					}
					id, dg := c06DigestInfo[h][form], c06Digest(h, tbs)
					full := k - 3 - len(id) - len(dg)
					for _, ps := range []int{0, 7, 8, 9, 255, 256, 511, 512, 513, full - 513, full - 512, full - 1} {
						if ps < 0 || ps >= full {
							continue
						}
						head := append(append([]byte{0, 1}, bytes.Repeat([]byte{0xff}, ps)...), 0)
						g := bytes.Repeat([]byte{0xa5}, full-ps)
						add(bits, labelOf[h], "root", bytes.Join([][]byte{head, id, dg, g}, nil), "short-padding:filler-after-digest big key")
						add(bits, labelOf[h], "root", bytes.Join([][]byte{head, id, g, dg}, nil), "short-padding:filler-between-identifier-and-digest big key")
						add(bits, labelOf[h], "root", bytes.Join([][]byte{head, g, id, dg}, nil), "short-padding:filler-before-identifier big key")
					}
				}
			}
		}
	}
	// sig + N (same residue) and non-RSA device keys, bit flips
	for _, bits := range flipSizes {
		key := fix.RSA(bits)
		k := (bits + 7) / 8
		for _, h := range []crypto.Hash{crypto.SHA256, crypto.SHA1} {
			base := c06EM(k, h, 0, tbs)
			sig := c06SignRaw(key, base)
			plus := new(big.Int).Add(new(big.Int).SetBytes(sig), key.N).Bytes()
			cases = append(cases, c06Case{Bits: bits, Chain: "root", Label: int(labelOf[h]), TBS: tbsHex, Sig: hex.EncodeToString(plus), Note: "valid sig+N"})
			for bit := 0; bit < len(sig)*8; bit++ {
				s := append([]byte{}, sig...)
				s[bit/8] ^= 1 << (bit % 8)
				cases = append(cases, c06Case{Bits: bits, Chain: "root", Label: int(labelOf[h]), TBS: tbsHex, Sig: hex.EncodeToString(s), Note: "signature-bit-flip"})
			}
			for bit := 0; bit < len(tbs)*8; bit++ {
				b := append([]byte{}, tbs...)
				b[bit/8] ^= 1 << (bit % 8)
				cases = append(cases, c06Case{Bits: bits, Chain: "root", Label: int(labelOf[h]), TBS: hex.EncodeToString(b), Sig: hex.EncodeToString(sig), Note: "body-bit-flip"})
			}
			for _, cut := range []int{0, 1, len(sig) - 1} {
				cases = append(cases, c06Case{Bits: bits, Chain: "root", Label: int(labelOf[h]), TBS: tbsHex, Sig: hex.EncodeToString(sig[:cut]), Note: "signature-truncated"})
			}
			cases = append(cases, c06Case{Bits: bits, Chain: "root", Label: int(labelOf[h]), TBS: tbsHex, Sig: hex.EncodeToString(append([]byte{0}, sig...)), Note: "valid leading-zero-signature"})
		}
	}
	sigAny := hex.EncodeToString(c06SignRaw(fix.RSA(2048), c06EM(256, crypto.SHA256, 0, tbs)))
	for _, kt := range []string{"p256", "ed25519"} {
		for _, l := range []x509.SignatureAlgorithm{x509.SHA256WithRSA, x509.ECDSAWithSHA256, x509.PureEd25519} {
			for _, ch := range []string{"root", "otherca"} {
				cases = append(cases, c06Case{KeyType: kt, Chain: ch, Label: int(l), TBS: tbsHex, Sig: sigAny, Note: "non-rsa-device-key"})
			}
		}
	}
	// slot certificates that ARE correctly signed by the device key, but not with RSA PKCS#1 v1.5: ECDSA and Ed25519 device
	// keys (the device certificates are CA-flagged, so a general X.509 verifier would accept these), and RSA-PSS
	{
		d256 := sha256.Sum256(tbs)
		d384 := sha512.Sum384(tbs)
		if sig, err := ecdsa.SignASN1(rand.Reader, fix.EC(256), d256[:]); err == nil {
			cases = append(cases, c06Case{KeyType: "p256", Chain: "root", Label: int(x509.ECDSAWithSHA256), TBS: tbsHex, Sig: hex.EncodeToString(sig), Note: "valid ECDSA signature by a P-256 device key"})
			cases = append(cases, c06Case{KeyType: "p256", Chain: "root", Label: int(x509.SHA256WithRSA), TBS: tbsHex, Sig: hex.EncodeToString(sig), Note: "valid ECDSA signature labelled sha256WithRSA"})
		}
		if sig, err := ecdsa.SignASN1(rand.Reader, fix.EC(256), d384[:]); err == nil {
			cases = append(cases, c06Case{KeyType: "p256", Chain: "root", Label: int(x509.ECDSAWithSHA384), TBS: tbsHex, Sig: hex.EncodeToString(sig), Note: "valid ECDSA/SHA-384 signature by a P-256 device key"})
		}
		cases = append(cases, c06Case{KeyType: "ed25519", Chain: "root", Label: int(x509.PureEd25519), TBS: tbsHex, Sig: hex.EncodeToString(ed25519.Sign(fix.Ed(0), tbs)), Note: "valid Ed25519 signature by an Ed25519 device key"})
		for _, bits := range []int{1024, 2048} {
			for _, hl := range []struct {
				h crypto.Hash
				l x509.SignatureAlgorithm
			}{{crypto.SHA256, x509.SHA256WithRSAPSS}, {crypto.SHA384, x509.SHA384WithRSAPSS}, {crypto.SHA512, x509.SHA512WithRSAPSS}} {
				if bits == 1024 && hl.h == crypto.SHA512 {
					continue // salt + hash do not fit
				}
				if sig, err := rsa.SignPSS(rand.Reader, fix.RSA(bits), hl.h, c06Digest(hl.h, tbs), &rsa.PSSOptions{SaltLength: rsa.PSSSaltLengthEqualsHash}); err == nil {
					cases = append(cases, c06Case{Bits: bits, Chain: "root", Label: int(hl.l), TBS: tbsHex, Sig: hex.EncodeToString(sig), Note: "valid RSA-PSS signature by the device key"})
					cases = append(cases, c06Case{Bits: bits, Chain: "root2", Label: int(labelOf[hl.h]), TBS: tbsHex, Sig: hex.EncodeToString(sig), Note: "valid RSA-PSS signature labelled PKCS#1 v1.5"})
				}
			}
		}
	}
	c06Lifetime(c, tbs)
	// ordered pairs on one goroutine, before the parallel phase: every predecessor kind (non-RSA device keys with a valid
	// chain, accepted and rejected RSA verifications, a foreign chain) directly followed by a verification with the same
	// hash - a correctly signed certificate, and one signed over H(previous body || body), which only state carried over
	// from the predecessor could make acceptable
	{
		prevTBS := []byte("body of the slot certificate attested just before, another one entirely")
		prevHex := hex.EncodeToString(prevTBS)
		np := 0
		for _, h := range c06Hashes {
			base := c06EM(128, h, 0, prevTBS)
			bad := append([]byte{}, base...)
			bad[9] = 0
			preds := []c06Case{
				{KeyType: "p256", Chain: "root", Label: int(labelOf[h]), TBS: prevHex, Sig: sigAnyOf(64), Note: "predecessor: P-256 device key"},
				{KeyType: "ed25519", Chain: "root", Label: int(labelOf[h]), TBS: prevHex, Sig: sigAnyOf(64), Note: "predecessor: Ed25519 device key"},
				{Bits: 1024, Chain: "root", Label: int(labelOf[h]), TBS: prevHex, EM: hex.EncodeToString(base), Note: "predecessor: accepted"},
				{Bits: 1024, Chain: "root", Label: int(labelOf[h]), TBS: prevHex, EM: hex.EncodeToString(bad), Note: "predecessor: bad padding"},
				{Bits: 1024, Chain: "otherca", Label: int(labelOf[h]), TBS: prevHex, EM: hex.EncodeToString(base), Note: "predecessor: foreign chain"},
				{Bits: 2048, Chain: "root", Label: 99, TBS: prevHex, EM: hex.EncodeToString(c06EM(256, h, 1, prevTBS)), Note: "predecessor: unknown label"},
			}
			for _, pred := range preds {
				for form := 0; form < 2; form++ {
					succs := []c06Case{
						{Bits: 1024, Chain: "root", Label: int(labelOf[h]), TBS: tbsHex, EM: hex.EncodeToString(c06EM(128, h, form, tbs)), Note: "valid, right after a " + pred.Note},
						{Bits: 1024, Chain: "root", Label: int(labelOf[h]), TBS: tbsHex, EM: hex.EncodeToString(c06EM(128, h, form, append(append([]byte{}, prevTBS...), tbs...))), Note: "signed over previous body || body, right after a " + pred.Note},
					}
					for _, sc := range succs {
						c06Run(c, pred)
						c06Run(c, sc)
						np++
					}
				}
			}
		}
		c.Set("ordered_pairs_on_one_goroutine", np)
	}
	c.Set("cases", len(cases))
	c.Set("case_gen_s", time.Since(t0).Seconds())
	c.ParMap(len(cases), func(i int) {
		c06Run(c, cases[i])
		if i%(len(cases)/5+1) == 3 {
			s := cases[i]
			if len(s.Sig) > 64 {
				s.Sig = s.Sig[:64] + "..."
			}
			if len(s.TBS) > 64 {
				s.TBS = s.TBS[:64] + "..."
			}
			c.Sample(s)
		}
	})
}

func sigAnyOf(n int) string { return hex.EncodeToString(bytes.Repeat([]byte{0x5a}, n)) }
