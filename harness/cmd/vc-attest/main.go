//go:build verif

// vc-attest: checks C06 (attestation signature verification) and C16 (lenient certificate parser, ModHex, PEM bundles).
package main

import (
	"os"

	"github.com/theparanoids/ysshra/internal/zzverif/ev"
)

func main() {
	c := ev.Main(map[string]string{"C06": "exploration", "C16": "exploration"})
	switch c.Prop {
	case "C06":
		checkC06(c)
	case "C16":
		checkC16(c)
	}
	os.Exit(c.Finish())
}
