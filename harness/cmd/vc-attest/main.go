//go:build verif

// vc-attest: checks C06 (attestation signature verification) and C16 (lenient certificate parser, ModHex, PEM bundles).
package main

import (
	"os"

	"github.com/theparanoids/ysshra/internal/zzverif/ev"
)

func main() {
	c := ev.Main(map[string]string{"C06": "exploration", "C16": "exploration"})
	switch c.Prop {
	case "C06":
		c.Isolated(func() { checkC06(c) }) // child process: an unrecoverable crash is a violation, not a dead check
	case "C16":
		c.Isolated(func() { checkC16(c) }) // child process: an unrecoverable crash is a violation, not a dead check
	}
	os.Exit(c.Finish())
}
