//go:build verif

package main

import (
	"bytes"
	"crypto"
	"crypto/ecdsa"
	"crypto/rsa"
	"crypto/x509"
	"crypto/x509/pkix"
	"encoding/asn1"
	"encoding/hex"
	"encoding/json"
	"fmt"
	"math/big"
	"net"
	"reflect"
	"strings"
	"time"

	"github.com/theparanoids/ysshra/agent/utils"
	"github.com/theparanoids/ysshra/attestation/yubiattest"
	"github.com/theparanoids/ysshra/internal/zzverif/ev"
	"github.com/theparanoids/ysshra/internal/zzverif/fix"
)

type c16Case struct {
	Kind string // corpus | nullless | trailing | mutate | pem | modhex
	DER  string `json:",omitempty"` // hex
	Note string `json:",omitempty"`
	// pem
	PEM string `json:",omitempty"` // hex of the bundle
	N   int    `json:",omitempty"`
	// modhex
	Values []string `json:",omitempty"` // hex extension values, in order
	Parsed bool     `json:",omitempty"`
}

var c16SerialOID = asn1.ObjectIdentifier{1, 3, 6, 1, 4, 1, 41482, 3, 7}

const c16ModHexAlphabet = "cbdefghijklnrtuv"

func c16PubEqual(a, b any) bool {
	switch x := a.(type) {
	case *rsa.PublicKey:
		y, ok := b.(*rsa.PublicKey)
		return ok && x.Equal(y)
	case *ecdsa.PublicKey:
		y, ok := b.(*ecdsa.PublicKey)
		return ok && x.Equal(y)
	}
	return false
}

// c16Compare lists the fields on which the lenient parser disagrees with the reference certificate.
func c16Compare(got, ref *x509.Certificate, rawToo bool) []string {
	var d []string
	add := func(ok bool, f string) {
		if !ok {
			d = append(d, f)
		}
	}
	if rawToo {
		add(bytes.Equal(got.Raw, ref.Raw), "Raw")
		add(bytes.Equal(got.RawTBSCertificate, ref.RawTBSCertificate), "RawTBSCertificate")
		add(bytes.Equal(got.RawSubjectPublicKeyInfo, ref.RawSubjectPublicKeyInfo), "RawSubjectPublicKeyInfo")
	}
	add(c16PubEqual(got.PublicKey, ref.PublicKey), "PublicKey")
	add(bytes.Equal(got.Signature, ref.Signature), "Signature")
	add(got.SignatureAlgorithm == ref.SignatureAlgorithm, "SignatureAlgorithm")
	add(got.SerialNumber != nil && got.SerialNumber.Cmp(ref.SerialNumber) == 0, "SerialNumber")
	add(got.Subject.String() == ref.Subject.String() && bytes.Equal(got.RawSubject, ref.RawSubject), "Subject")
	add(got.Issuer.String() == ref.Issuer.String() && bytes.Equal(got.RawIssuer, ref.RawIssuer), "Issuer")
	add(got.NotBefore.Equal(ref.NotBefore), "NotBefore")
	add(got.NotAfter.Equal(ref.NotAfter), "NotAfter")
	add(reflect.DeepEqual(got.Extensions, ref.Extensions) || (len(got.Extensions) == 0 && len(ref.Extensions) == 0), "Extensions")
	return d
}

func c16Parse(c *ev.Ctx, der []byte, cas c16Case) (*x509.Certificate, error, bool) {
	var got *x509.Certificate
	var err error
	if p := ev.Guard(func() { got, err = yubiattest.ParseCertificate(der) }); p != "" {
		c.Violation("C16:panic:"+ev.PanicSite(p), p, cas)
		return nil, nil, false
	}
	return got, err, true
}

func c16CorpusMember(c *ev.Ctx, der []byte, note string, isRSA bool) {
	c.Eval()
	cas := c16Case{Kind: "corpus", DER: hex.EncodeToString(der), Note: note}
	ref, rerr := x509.ParseCertificate(der)
	if rerr != nil {
		c.Count("corpus_rejected_by_stdlib", 1)
		return
	}
	got, err, ok := c16Parse(c, der, cas)
	if !ok {
		return
	}
	c.Nontrivial("corpus:" + note)
	if err != nil {
		c.Violation("C16:corpus:rejected", fmt.Sprintf("well-formed certificate (%s) rejected: %v", note, err), cas)
		return
	}
	if d := c16Compare(got, ref, true); len(d) > 0 {
		c.Violation("C16:corpus:disagree:"+strings.Join(d, ","), fmt.Sprintf("lenient parser disagrees with crypto/x509 on %v for %s", d, note), cas)
	}
	c.Outcome("corpus-agree")
	// the result belongs to the caller, and so does the input buffer: after the caller overwrote both, parsing the same
	// bytes again gives the same certificate (a memo or pool sharing memory with earlier results or inputs shows here)
	{
		in2 := append([]byte{}, der...)
		g1, e1, ok1 := c16Parse(c, in2, cas)
		if ok1 && e1 == nil && g1 != nil {
			for i := range g1.Raw {
				g1.Raw[i] = 0xAA
			}
			for i := range g1.Signature {
				g1.Signature[i] = 0x55
			}
			g1.Subject.CommonName, g1.SerialNumber = "scribbled", nil
			for i := range in2 {
				in2[i] = 0xCC
			}
			if g2, e2, ok2 := c16Parse(c, append([]byte{}, der...), cas); ok2 {
				if e2 != nil || g2 == nil {
					c.Violation("C16:corpus:second-parse-fails", fmt.Sprintf("the same bytes parsed a second time fail: %v", e2), cas)
				} else if d := c16Compare(g2, ref, true); len(d) > 0 {
					c.Violation("C16:corpus:depends-on-what-the-caller-did-to-an-earlier-result:"+strings.Join(d, ","), fmt.Sprintf("after the caller overwrote an earlier result and its input buffer, parsing the same bytes again disagrees with crypto/x509 on %v (%s)", d, note), cas)
				}
			}
		}
	}
	// trailing data must be rejected
	for _, tail := range [][]byte{{0}, {0x30, 0x00}, der[:4]} {
		c.Eval()
		t := append(append([]byte{}, der...), tail...)
		tc := c16Case{Kind: "trailing", DER: hex.EncodeToString(t), Note: note}
		if g, e, ok := c16Parse(c, t, tc); ok && e == nil && g != nil {
			c.Violation("C16:trailing:accepted", "certificate followed by trailing data accepted", tc)
		} else if ok {
			c.Outcome("trailing-rejected")
		}
	}
	if isRSA {
		c.Eval()
		nl, e := fix.StripRSANull(der)
		if e != nil {
			c.Violation("C16:harness:stripnull", e.Error(), cas)
			return
		}
		nc := c16Case{Kind: "nullless", DER: hex.EncodeToString(nl), Note: note}
		g, e2, ok := c16Parse(c, nl, nc)
		if !ok {
			return
		}
		c.Nontrivial("nullless:" + note)
		if e2 != nil {
			c.Violation("C16:nullless:rejected", fmt.Sprintf("RSA key without NULL parameter rejected: %v", e2), nc)
			return
		}
		if d := c16Compare(g, ref, false); len(d) > 0 {
			c.Violation("C16:nullless:disagree:"+strings.Join(d, ","), fmt.Sprintf("NULL-less variant differs on %v", d), nc)
		}
		if !bytes.Equal(g.Raw, nl) {
			c.Violation("C16:nullless:raw", "Raw is not the input", nc)
		}
		c.Outcome("nullless-accepted")
	}
}

type c16Subject struct {
	name string
	pub  crypto.PublicKey
	rsa  bool
}

type c16Issuer struct {
	name string
	key  crypto.Signer
	algs []x509.SignatureAlgorithm
}

func c16Template(mask int, serial int64) *x509.Certificate {
	t := &x509.Certificate{
		SerialNumber: big.NewInt(serial), Subject: pkix.Name{CommonName: "YubiKey PIV Attestation 9a", Organization: []string{"verif ü"}},
		NotBefore: time.Date(2016, 3, 14, 0, 0, 0, 0, time.UTC), NotAfter: time.Date(2052, 4, 17, 0, 0, 0, 0, time.UTC),
	}
	if mask&1 != 0 {
		t.BasicConstraintsValid, t.IsCA, t.MaxPathLen = true, true, 1
	}
	if mask&2 != 0 {
		t.KeyUsage = x509.KeyUsageDigitalSignature | x509.KeyUsageKeyEncipherment | x509.KeyUsageCertSign
	}
	if mask&4 != 0 {
		t.SubjectKeyId = []byte{1, 2, 3, 4, 5}
		t.AuthorityKeyId = []byte{9, 8, 7}
	}
	if mask&8 != 0 {
		t.DNSNames = []string{"a.example", "b.example"}
		t.EmailAddresses = []string{"x@example"}
		t.IPAddresses = []net.IP{net.IPv4(10, 0, 0, 1), net.ParseIP("2001:db8::1")}
	}
	if mask&16 != 0 {
		t.ExtKeyUsage = []x509.ExtKeyUsage{x509.ExtKeyUsageClientAuth, x509.ExtKeyUsageCodeSigning}
		t.UnknownExtKeyUsage = []asn1.ObjectIdentifier{{1, 3, 6, 1, 4, 1, 41482, 9}}
	}
	if mask&32 != 0 {
		t.PolicyIdentifiers = []asn1.ObjectIdentifier{{2, 5, 29, 32, 0}, {1, 3, 6, 1, 4, 1, 41482, 5}}
	}
	if mask&64 != 0 {
		t.ExtraExtensions = []pkix.Extension{
			{Id: asn1.ObjectIdentifier{1, 3, 6, 1, 4, 1, 41482, 3, 3}, Value: []byte{4, 3, 4}},
			{Id: c16SerialOID, Value: []byte{2, 4, 0x00, 0x5a, 0x1b, 0x2c}},
			{Id: asn1.ObjectIdentifier{1, 3, 6, 1, 4, 1, 41482, 3, 8}, Value: []byte{1, 2}, Critical: true},
		}
	}
	return t
}

func c16ModHexRef(values [][]byte) (string, bool) {
	// the statement: 8-character ModHex of a 3- or 4-byte device serial (two header bytes + content); last extension wins
	var serial []byte
	found := false
	for _, v := range values {
		if len(v) < 2 {
			return "", false
		}
		serial, found = v[2:], true
	}
	if !found || (len(serial) != 3 && len(serial) != 4) {
		return "", false
	}
	s := serial
	if len(s) == 3 {
		s = append([]byte{0}, s...)
	}
	out := make([]byte, 0, 8)
	for _, b := range s {
		out = append(out, c16ModHexAlphabet[b>>4], c16ModHexAlphabet[b&15])
	}
	return string(out), true
}

// c16ModHexSiblings: a valid (or invalid) serial extension next to OTHER extensions of every shape - siblings in the
// vendor arc with values of 0..4 bytes, shorter and longer OIDs, standard extensions - before and after the serial: the
// answer depends on the serial extension alone.
func c16ModHexSiblings(c *ev.Ctx) {
	sibs := []asn1.ObjectIdentifier{{1, 3, 6, 1, 4, 1, 41482, 3, 9}, {1, 3, 6, 1, 4, 1, 41482, 3, 3}, {1, 3, 6, 1, 4, 1, 41482, 3, 8}, {1, 3, 6, 1, 4, 1, 41482, 3, 1}, {1, 3, 6, 1, 4, 1, 41482, 3, 70},
		{1, 3, 6, 1, 4, 1, 41482, 3}, {1, 3, 6, 1, 4, 1, 41482, 3, 7, 1}, {1, 3, 6, 1, 4, 1, 41482, 4, 7}, {2, 5, 29, 15}, {1, 3, 6, 1, 4, 1, 41483, 3, 7}}
	n := 0
	for _, serial := range [][]byte{{2, 3, 0x5a, 0x1b, 0x2c}, {2, 4, 0, 0x5a, 0x1b, 0x2c}, {2, 2, 1, 2}, {2}} {
		for _, oid := range sibs {
			for vl := 0; vl <= 4; vl++ {
				for _, pos := range []string{"before", "after", "both"} {
					c.Eval()
					n++
					sib := pkix.Extension{Id: oid, Value: bytes.Repeat([]byte{7}, vl)}
					cert := &x509.Certificate{}
					if pos != "after" {
						cert.Extensions = append(cert.Extensions, sib)
					}
					cert.Extensions = append(cert.Extensions, pkix.Extension{Id: c16SerialOID, Value: serial})
					if pos != "before" {
						cert.Extensions = append(cert.Extensions, sib)
					}
					cas := c16Case{Kind: "modhex", Values: []string{hex.EncodeToString(serial)}, Note: fmt.Sprintf("sibling extension %v with a %d-byte value %s the serial extension", oid, vl, pos)}
					var got string
					var err error
					if p := ev.Guard(func() { got, err = yubiattest.ModHex(cert) }); p != "" {
						c.Violation("C16:panic:"+ev.PanicSite(p), p, cas)
						continue
					}
					want, ok := c16ModHexRef([][]byte{serial})
					if ok && (err != nil || got != want) {
						c.Violation("C16:modhex:wrong:depends-on-another-extension", fmt.Sprintf("ModHex = %q, %v; want %q (%s)", got, err, want, cas.Note), cas)
					} else if !ok && err == nil {
						c.Violation("C16:modhex:accepted-invalid", fmt.Sprintf("ModHex = %q for an invalid serial extension (%s)", got, cas.Note), cas)
					}
				}
			}
		}
	}
	c.Set("modhex_sibling_cases", n)
}

func c16ModHex(c *ev.Ctx, values [][]byte, parsed bool) {
	c.Eval()
	cas := c16Case{Kind: "modhex", Parsed: parsed}
	for _, v := range values {
		cas.Values = append(cas.Values, hex.EncodeToString(v))
	}
	var cert *x509.Certificate
	if parsed {
		t := c16Template(0, 7)
		for _, v := range values {
			t.ExtraExtensions = append(t.ExtraExtensions, pkix.Extension{Id: c16SerialOID, Value: v})
		}
		// duplicate extensions are refused by crypto/x509's parser but not by its encoder; use the lenient parser under test
		der, err := c16Create(t, t, fix.EC(256).Public(), fix.EC(256))
		if err != nil {
			return
		}
		var e error
		if p := ev.Guard(func() { cert, e = yubiattest.ParseCertificate(der) }); p != "" {
			c.Violation("C16:panic:"+ev.PanicSite(p), p, cas)
			return
		}
		if e != nil {
			return
		}
	} else {
		cert = &x509.Certificate{}
		for _, v := range values {
			cert.Extensions = append(cert.Extensions, pkix.Extension{Id: c16SerialOID, Value: v})
		}
		cert.Extensions = append(cert.Extensions, pkix.Extension{Id: asn1.ObjectIdentifier{1, 3, 6, 1, 4, 1, 41482, 3, 3}, Value: []byte{4, 3, 4}})
	}
	var got string
	var err error
	if p := ev.Guard(func() { got, err = yubiattest.ModHex(cert) }); p != "" {
		c.Violation("C16:panic:"+ev.PanicSite(p), p, cas)
		return
	}
	want, ok := c16ModHexRef(values)
	if len(values) > 1 {
		// twice-present: the statement fixes nothing beyond totality and the output alphabet
		if err == nil && (len(got) != 8 || strings.Trim(got, c16ModHexAlphabet) != "") {
			c.Violation("C16:modhex:alphabet", fmt.Sprintf("output %q is not 8 ModHex characters", got), cas)
		}
		c.Outcome("modhex-dup")
		return
	}
	if ok {
		c.Nontrivial("modhex:" + want)
		c.Outcome("modhex-ok")
		if err != nil || got != want {
			c.Violation("C16:modhex:wrong", fmt.Sprintf("ModHex = %q, %v; want %q", got, err, want), cas)
		}
	} else {
		c.Outcome("modhex-error")
		if err == nil {
			c.Violation("C16:modhex:accepted-invalid", fmt.Sprintf("ModHex = %q for an invalid or missing serial extension", got), cas)
		}
	}
}

func c16PEM(c *ev.Ctx, ders [][]byte, lead, trail, between string) {
	c.Eval()
	var buf bytes.Buffer
	buf.WriteString(lead)
	for i, d := range ders {
		if i > 0 {
			buf.WriteString(between)
		}
		buf.Write(fix.PEMCert(d))
	}
	buf.WriteString(trail)
	cas := c16Case{Kind: "pem", PEM: hex.EncodeToString(buf.Bytes()), N: len(ders), Note: fmt.Sprintf("lead=%q trail=%q between=%q", lead, trail, between)}
	var got []*x509.Certificate
	var one *x509.Certificate
	var err, oerr error
	if p := ev.Guard(func() {
		got, err = utils.ParsePEMCertificates(buf.Bytes())
		one, oerr = utils.ParsePEMCertificate(buf.Bytes())
	}); p != "" {
		c.Violation("C16:panic:"+ev.PanicSite(p), p, cas)
		return
	}
	trailingGarbage := strings.TrimSpace(trail) != "" || (len(ders) == 0 && strings.TrimSpace(lead) != "")
	c.Nontrivial(cas.Note + fmt.Sprint(len(ders)))
	switch {
	case trailingGarbage:
		c.Outcome("pem-garbage")
		if err == nil {
			c.Violation("C16:pem:trailing-garbage-accepted", "bundle with trailing garbage accepted", cas)
		}
		if oerr == nil {
			c.Violation("C16:pem:trailing-garbage-accepted:single-certificate-entry-point", fmt.Sprintf("ParsePEMCertificate accepted a text of %d certificate(s) followed by garbage", len(ders)), cas)
		}
	case between != "" && strings.TrimSpace(between) != "":
		c.Outcome("pem-between")
		if err == nil && !c16SameCerts(got, ders) {
			c.Violation("C16:pem:order", "bundle accepted but certificates differ", cas)
		}
	default:
		c.Outcome("pem-ok")
		if err != nil {
			c.Violation("C16:pem:rejected", fmt.Sprintf("well-formed bundle of %d rejected: %v", len(ders), err), cas)
			return
		}
		if !c16SameCerts(got, ders) {
			c.Violation("C16:pem:order", fmt.Sprintf("bundle of %d yielded %d certificates or a different order", len(ders), len(got)), cas)
		}
		if len(ders) == 0 {
			if oerr == nil {
				c.Violation("C16:pem:single-from-empty", "ParsePEMCertificate succeeded on an empty bundle", cas)
			}
		} else if oerr != nil || one == nil || !bytes.Equal(one.Raw, ders[0]) {
			c.Violation("C16:pem:single", "ParsePEMCertificate did not return the first certificate", cas)
		}
	}
}

func c16SameCerts(got []*x509.Certificate, ders [][]byte) bool {
	if len(got) != len(ders) {
		return false
	}
	for i := range got {
		if got[i] == nil || !bytes.Equal(got[i].Raw, ders[i]) {
			return false
		}
	}
	return true
}

func checkC16(c *ev.Ctx) {
	c.Rule("corpus: x509.CreateCertificate over subject keys {RSA1024,RSA2048,P-256,P-384,P-521} x signature algorithms {SHA1/256/384/512-RSA, PSS-256, ECDSA-SHA256/384/512} x every subset of 7 extension kinds (all 128); each member: field-by-field comparison with crypto/x509, every 8th member also re-encoded with issuer/subject unique IDs, +trailing data, +NULL-less RSA re-encoding; a size ladder of 16 members whose total DER length is 65000..131072 bytes (65535 / 65536 / 65537 exactly: the three-byte length form); byte-mutation neighbourhood (every position x 7 replacements, every truncation) of a generating subset (quick 16+, thorough 64+ bases) for totality; PEM bundles of 0..5 x leading/trailing/between texts; ModHex over ALL extension values of length 0..4 (7-symbol alphabet) and 5..8 (3-symbol alphabet), absent, twice, per-position 256-value injectivity; a serial extension next to sibling extensions (10 OIDs incl. the vendor arc's own siblings x values of 0..4 bytes x before / after / both). non-trivial = corpus member compared / valid serial / bundle; distinct by construction parameters")
	c.Assume("crypto/x509 is the reference decoder for well-formed certificates", "certificates are produced by crypto/x509's encoder (a conforming encoder)")
	if c.ReplayCase != nil {
		var k c16Case
		json.Unmarshal(c.ReplayCase, &k)
		der, _ := hex.DecodeString(k.DER)
		switch k.Kind {
		case "corpus":
			c16CorpusMember(c, der, k.Note, false)
		case "nullless", "trailing", "mutate":
			g, e, ok := c16Parse(c, der, k)
			if ok && e == nil && g != nil {
				ev.Guard(func() { yubiattest.ModHex(g) })
				if k.Kind == "trailing" {
					c.Violation("C16:trailing:accepted", "certificate followed by trailing data accepted", k)
				}
			}
			if ok && k.Kind == "nullless" && e != nil {
				c.Violation("C16:nullless:rejected", e.Error(), k)
			}
		case "modhex":
			var vals [][]byte
			for _, v := range k.Values {
				b, _ := hex.DecodeString(v)
				vals = append(vals, b)
			}
			c16ModHex(c, vals, k.Parsed)
		case "pem":
			b, _ := hex.DecodeString(k.PEM)
			if p := ev.Guard(func() { _, err := utils.ParsePEMCertificates(b); fmt.Println("ParsePEMCertificates err:", err) }); p != "" {
				c.Violation("C16:panic:"+ev.PanicSite(p), p, k)
			}
		}
		return
	}
	subjects := []c16Subject{{"rsa1024", fix.RSA(1024).Public(), true}, {"rsa2048", fix.RSA(2048).Public(), true},
		{"p256", fix.EC(256).Public(), false}, {"p384", fix.EC(384).Public(), false}, {"p521", fix.EC(521).Public(), false}}
	// RSA subject keys with unusual (legal) public exponents, incl. the ends of the ranges a 32-bit exponent type would cut
	for _, e := range []int{3, 17, 1<<31 - 1, 1 << 31, 1<<32 + 1, 1<<62 + 1} {
		subjects = append(subjects, c16Subject{fmt.Sprintf("rsa1024-e%d", e), &rsa.PublicKey{N: fix.RSA(1024).N, E: e}, true})
	}
	issuers := []c16Issuer{
		{"rsa2048", fix.RSA(2048), []x509.SignatureAlgorithm{x509.SHA1WithRSA, x509.SHA256WithRSA, x509.SHA384WithRSA, x509.SHA512WithRSA, x509.SHA256WithRSAPSS}},
		{"p256", fix.EC(256), []x509.SignatureAlgorithm{x509.ECDSAWithSHA256, x509.ECDSAWithSHA384, x509.ECDSAWithSHA512}},
	}
	type job struct {
		s    c16Subject
		is   c16Issuer
		alg  x509.SignatureAlgorithm
		mask int
	}
	var jobs []job
	for _, s := range subjects {
		for _, is := range issuers {
			for _, alg := range is.algs {
				for mask := 0; mask < 128; mask++ {
					if strings.Contains(s.name, "-e") && ((mask != 0 && mask != 127) || (alg != x509.SHA256WithRSA && alg != x509.ECDSAWithSHA256)) {
						continue // the exponent variants ride on two extension sets and one algorithm per issuer
					}
					pc := 0
					for b := 0; b < 7; b++ {
						if mask&(1<<b) != 0 {
							pc++
						}
					}
					_ = pc
					jobs = append(jobs, job{s, is, alg, mask})
				}
			}
		}
	}
	c.Set("corpus_size", len(jobs))
	ders := make([][]byte, len(jobs))
	c.ParMap(len(jobs), func(i int) {
		j := jobs[i]
		t := c16Template(j.mask, int64(1000+i))
		t.SignatureAlgorithm = j.alg
		parent := c16Template(1|2, 1)
		parent.Subject.CommonName = "verif issuer " + j.is.name
		der, err := c16Create(t, parent, j.s.pub, j.is.key)
		if err != nil {
			if j.alg == x509.SHA1WithRSA {
				c.Count("sha1_refused_by_encoder", 1)
				return
			}
			c.Violation("C16:harness:create", err.Error(), nil)
			return
		}
		ders[i] = der
		note := fmt.Sprintf("subject=%s issuer=%s alg=%v extmask=%07b", j.s.name, j.is.name, j.alg, j.mask)
		c16CorpusMember(c, der, note, j.s.rsa)
		if i%911 == 0 {
			c.Sample(map[string]any{"kind": "corpus", "note": note, "der_len": len(der)})
		}
		if i%8 == 0 {
			// legal members a conforming encoder may emit although crypto/x509's never does: issuer / subject unique IDs
			for v, flags := range [][2]bool{{true, false}, {false, true}, {true, true}} {
				if u, err := fix.WithUniqueIDs(der, flags[0], flags[1]); err == nil {
					c16CorpusMember(c, u, fmt.Sprintf("%s uniqueIDs=%d", note, v), false)
				}
			}
		}
	})
	// size ladder: the same certificate with one vendor extension grown until the outer SEQUENCE, the TBS, and the
	// extension value itself cross every DER length-form boundary that fits in memory comfortably (2-byte lengths up to
	// 65535, 3-byte lengths from 65536) - each is a corpus member (agreement, second parse, trailing data, NULL-less form)
	{
		nl := 0
		for _, target := range []int{65535, 65536, 65537, 65536 + 300, 72000, 1 << 17, 70000, 65000} {
			for si, s := range []c16Subject{subjects[0], subjects[2]} {
				extLen := target - 700
				var der []byte
				for try := 0; try < 6; try++ {
					t := c16Template(2|64, int64(90000+nl))
					t.SignatureAlgorithm = x509.SHA256WithRSA
					t.ExtraExtensions = append(t.ExtraExtensions, pkix.Extension{Id: asn1.ObjectIdentifier{1, 3, 6, 1, 4, 1, 41482, 3, 99}, Value: bytes.Repeat([]byte{0x5a}, extLen)})
					parent := c16Template(1|2, 1)
					parent.Subject.CommonName = "verif issuer rsa2048"
					d, err := c16Create(t, parent, s.pub, issuers[0].key)
					if err != nil {
						c.Violation("C16:harness:create", err.Error(), nil)
						break
					}
					der = d
					if len(d) == target || target == 70000 || target == 65000 {
						break
					}
					extLen += target - len(d)
				}
				if der == nil {
					continue
				}
				c16CorpusMember(c, der, fmt.Sprintf("size ladder: %d bytes of DER (subject=%s)", len(der), s.name), si == 0)
				nl++
			}
		}
		c.Set("size_ladder_members", nl)
	}
	// mutation neighbourhood
	var gen [][]byte
	step := len(ders) / 16
	if c.Thorough() {
		step = len(ders) / 64
	}
	if step == 0 {
		step = 1
	}
	for i := 0; i < len(ders); i += step {
		if ders[i] != nil {
			gen = append(gen, ders[i])
			if nl, err := fix.StripRSANull(ders[i]); err == nil && len(gen)%3 == 0 {
				gen = append(gen, nl)
			}
		}
	}
	c.Set("mutation_bases", len(gen))
	for gi, base := range gen {
		if c.Expired("mutation neighbourhood") {
			break
		}
		base := base
		c.ParMap(len(base), func(pos int) {
			for _, f := range []func(byte) byte{func(byte) byte { return 0 }, func(byte) byte { return 0xff }, func(b byte) byte { return b ^ 1 }, func(b byte) byte { return b ^ 0x80 },
				func(b byte) byte { return b + 1 }, func(byte) byte { return 0x30 }, func(byte) byte { return 0x05 }} {
				m := append([]byte{}, base...)
				m[pos] = f(m[pos])
				if bytes.Equal(m, base) {
					continue
				}
				c.Eval()
				cas := c16Case{Kind: "mutate", DER: hex.EncodeToString(m), Note: fmt.Sprintf("base %d pos %d", gi, pos)}
				g, e, ok := c16Parse(c, m, cas)
				if !ok {
					continue
				}
				if e == nil && g != nil {
					c.Count("mutants_accepted", 1)
					if p := ev.Guard(func() { yubiattest.ModHex(g) }); p != "" {
						c.Violation("C16:panic:"+ev.PanicSite(p), p, cas)
					}
				} else {
					c.Count("mutants_rejected", 1)
				}
			}
			c.Eval()
			tr := base[:pos]
			cas := c16Case{Kind: "mutate", DER: hex.EncodeToString(tr), Note: "truncate"}
			if g, e, ok := c16Parse(c, tr, cas); ok && e == nil && g != nil {
				c.Violation("C16:truncated:accepted", "truncated certificate accepted", cas)
			}
		})
	}
	// PEM bundles
	var pool [][]byte
	for _, d := range ders {
		if d != nil && len(pool) < 5 {
			pool = append(pool, d)
		}
	}
	if nl, err := fix.StripRSANull(pool[0]); err == nil {
		pool[1] = nl
	}
	for n := 0; n <= 5; n++ {
		for _, lead := range []string{"", "Subject: CN=prose before the block\n", "\n\n"} {
			for _, trail := range []string{"", "\n", " \t \n\n", "garbage", "-----BEGIN CERTIFICATE-----\nAAAA", "\nMIIB\n"} {
				for _, between := range []string{"", "\n", "some text between blocks\n"} {
					if n < 2 && between != "" {
						continue
					}
					c16PEM(c, pool[:n], lead, trail, between)
				}
			}
		}
	}
	c.Sample(map[string]any{"kind": "pem", "certs": 3, "lead": "prose", "trail": " \t \n\n"})
	// ModHex
	a7 := []byte{0x00, 0x02, 0x03, 0x04, 0x5a, 0xff, 0x10}
	a3 := []byte{0x00, 0x04, 0xff}
	var vals [][]byte
	var gen2 func(pre []byte, l int, al []byte)
	gen2 = func(pre []byte, l int, al []byte) {
		if len(pre) == l {
			vals = append(vals, append([]byte{}, pre...))
			return
		}
		for _, b := range al {
			gen2(append(pre, b), l, al)
		}
	}
	for l := 0; l <= 4; l++ {
		gen2(nil, l, a7)
	}
	for l := 5; l <= 8; l++ {
		gen2(nil, l, a3)
	}
	c.Set("modhex_values", len(vals))
	for i, v := range vals {
		c16ModHex(c, [][]byte{v}, false)
		if i%997 == 0 {
			c16ModHex(c, [][]byte{v}, true)
		}
	}
	c16ModHexSiblings(c)
	c16ModHex(c, nil, false)
	c16ModHex(c, nil, true)
	for _, pair := range [][2][]byte{{{2, 4, 1, 2, 3, 4}, {2, 3, 9, 9, 9}}, {{2, 3, 9, 9, 9}, {1}}, {{1}, {2, 4, 1, 2, 3, 4}}, {{}, {}}} {
		c16ModHex(c, [][]byte{pair[0], pair[1]}, false)
	}
	// per-position injectivity over all 256 byte values (4-byte and 3-byte serials)
	for _, n := range []int{3, 4} {
		for pos := 0; pos < n; pos++ {
			seen := map[string]int{}
			for v := 0; v < 256; v++ {
				val := append([]byte{2, byte(n)}, bytes.Repeat([]byte{0x11}, n)...)
				val[2+pos] = byte(v)
				c16ModHex(c, [][]byte{val}, false)
				cert := &x509.Certificate{Extensions: []pkix.Extension{{Id: c16SerialOID, Value: val}}}
				var s string
				if ev.Guard(func() { s, _ = yubiattest.ModHex(cert) }) != "" {
					continue
				}
				if prev, dup := seen[s]; dup {
					c.Violation("C16:modhex:collision", fmt.Sprintf("serial bytes %d and %d at position %d both give %q", prev, v, pos, s), c16Case{Kind: "modhex", Values: []string{hex.EncodeToString(val)}})
				}
				seen[s] = v
			}
		}
	}
	c.Sample(c16Case{Kind: "modhex", Values: []string{"0204005a1b2c"}})
	c.Sample(c16Case{Kind: "modhex", Values: []string{"02"}})
}

// c16Create issues a certificate whose length does not depend on chance: ECDSA signatures are randomised and their DER
// length varies with the leading bits of r and s, which would make the set of byte positions explored differ from run to
// run; an ECDSA-signed certificate is re-issued until its signature has the maximal length for the curve.
func c16Create(t, parent *x509.Certificate, pub any, key any) ([]byte, error) {
	want := 0
	if ek, ok := key.(*ecdsa.PrivateKey); ok {
		want = map[int]int{256: 72, 384: 104, 521: 139}[ek.Curve.Params().BitSize]
	}
	var der []byte
	var err error
	for try := 0; try < 200; try++ {
		// a constant entropy stream makes ECDSA / RSA-PSS signing a function of (key, message): Go's MaybeReadByte may or
		// may not consume one byte first, which a constant stream cannot notice
		der, err = x509.CreateCertificate(constReader(0x5a+byte(try)), t, parent, pub, key)
		if err != nil || want == 0 {
			return der, err
		}
		if c, perr := x509.ParseCertificate(der); perr != nil || len(c.Signature) == want {
			return der, nil
		}
	}
	return der, err
}

type constReader byte

func (c constReader) Read(p []byte) (int, error) {
	for i := range p {
		p[i] = byte(c)
	}
	return len(p), nil
}
