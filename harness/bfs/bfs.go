//go:build verif

// Package bfs is engine E1: explicit-state breadth-first search over operation histories of a real object. A state is
// identified by the history that reaches it; its successor under op is computed by replaying the history on a fresh
// instance and applying op; states are de-duplicated on a canonical key supplied by the world.
package bfs

import (
	"crypto/sha256"
	"time"
)

// digest keeps the seen-set small: canonical state keys are kilobytes long (full reflected dump), their SHA-256 is not.
func digest(k string) [32]byte { return sha256.Sum256([]byte(k)) }

// Op is one operation of the alphabet (JSON-serialisable so that histories are replay files).
type Op struct {
	Name string `json:"op"`
	Arg  string `json:"arg,omitempty"`
	Arg2 string `json:"arg2,omitempty"`
}

// World is a fresh instance of the object under test plus its environment and reference model.
type World interface {
	// Apply executes op on the real object, updates the reference model, evaluates the oracle for this step and
	// returns violations (key, description) found on it.
	Apply(op Op) []Finding
	// Key is the canonical state (real object dump + environment + reference model).
	Key() string
	// Enabled lists the operations to try from the current state, simplest first.
	Enabled() []Op
	// Init evaluates the oracle on the freshly constructed world (construction faults).
	Init() []Finding
	Close()
}

// Finding is an oracle failure on one transition.
type Finding struct{ Key, Desc string }

// Result summarises a search.
type Result struct {
	States, Transitions int
	DepthCompleted      int
	Closed              bool // frontier exhausted (the reachable space under the alphabet is closed)
	FrontierLeft        int
	Capped              string
}

// Config bounds a search.
type Config struct {
	New        func(root string) World
	Roots      []string
	MaxDepth   int
	MaxStates  int
	Deadline   time.Time
	OnFinding  func(root string, hist []Op, f Finding)
	OnTransition func(root string, hist []Op, depth int)
}

type node struct {
	root string
	hist []Op
}

// Run explores breadth-first from every root.
func Run(cfg Config) Result {
	var res Result
	seen := map[[32]byte]struct{}{}
	var frontier []node
	for _, r := range cfg.Roots {
		w := cfg.New(r)
		for _, f := range w.Init() {
			cfg.OnFinding(r, nil, f)
		}
		k := digest(r + "|" + w.Key())
		w.Close()
		if _, ok := seen[k]; ok {
			continue
		}
		seen[k] = struct{}{}
		frontier = append(frontier, node{r, nil})
	}
	res.States = len(seen)
	for depth := 0; depth < cfg.MaxDepth && len(frontier) > 0; depth++ {
		var next []node
		for fi, n := range frontier {
			if time.Now().After(cfg.Deadline) {
				res.Capped = "deadline"
				res.FrontierLeft = len(frontier) - fi + len(next)
				return res
			}
			// enabled ops are computed on a replayed instance
			w := replay(cfg, n)
			ops := w.Enabled()
			w.Close()
			for _, op := range ops {
				w := replay(cfg, n)
				fs := w.Apply(op)
				res.Transitions++
				h := append(append([]Op{}, n.hist...), op)
				if cfg.OnTransition != nil {
					cfg.OnTransition(n.root, h, depth+1)
				}
				for _, f := range fs {
					cfg.OnFinding(n.root, h, f)
				}
				k := digest(n.root + "|" + w.Key())
				w.Close()
				if len(fs) > 0 {
					continue // do not explore beyond a violating transition
				}
				if _, ok := seen[k]; ok {
					continue
				}
				if cfg.MaxStates > 0 && len(seen) >= cfg.MaxStates {
					res.Capped = "max states"
					continue
				}
				seen[k] = struct{}{}
				next = append(next, node{n.root, h})
			}
		}
		res.DepthCompleted = depth + 1
		frontier = next
		res.States = len(seen)
	}
	res.FrontierLeft = len(frontier)
	res.Closed = len(frontier) == 0 && res.Capped == ""
	return res
}

func replay(cfg Config, n node) World {
	w := cfg.New(n.root)
	w.Init() // a root may carry a pre-history (judged once, when the root was entered)
	for _, op := range n.hist {
		w.Apply(op)
	}
	return w
}

// Replay re-executes one history and returns the findings of every step (used by --replay).
func Replay(newWorld func(root string) World, root string, hist []Op) []Finding {
	w := newWorld(root)
	defer w.Close()
	all := w.Init()
	for _, op := range hist {
		all = append(all, w.Apply(op)...)
	}
	return all
}
