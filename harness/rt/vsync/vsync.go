//go:build verif

// Package vsync stands in for "sync" in seamed packages. Under an active scheduler every acquiring operation is a
// scheduling point with an enabled-predicate; releases take effect without a point of their own. Without a scheduler
// (set-up, sequential reference runs, the free-running -race pass) each type delegates to the real sync type, so
// happens-before is the real one.
package vsync

import (
	"fmt"
	"sync"
	"sync/atomic"

	"github.com/theparanoids/ysshra/zzverifrt/sched"
)

type Locker = sync.Locker

var objSeq atomic.Int64

func nextID() int64 { return objSeq.Add(1) }

// ResetIDs restarts object numbering (called before building each fresh object graph so that names are stable).
func ResetIDs() { objSeq.Store(0); heldModel.Store(0) }

// Sequential, when set, declares that code running WITHOUT a scheduler is single-threaded (set-up, sequential reference
// runs, probes): an acquisition that would block there can never succeed - the lock was leaked by an earlier call - and
// panics with LeakMessage instead of hanging the checker. The free-running -race pass clears it.
var Sequential atomic.Bool

const LeakMessage = "vsync: lock still held in a sequential phase (leaked by an earlier call): "

// heldModel counts locks held in the model (under a scheduler); HeldModel()>0 at quiescence means a lock was leaked.
var heldModel atomic.Int64

func HeldModel() int { return int(heldModel.Load()) }

// Mutex
type Mutex struct {
	real  sync.Mutex
	held  bool
	owner int
	id    int64
}

func (m *Mutex) name() string {
	if m.id == 0 {
		m.id = nextID()
	}
	return fmt.Sprintf("mutex#%d", m.id)
}

func (m *Mutex) Lock() {
	s := sched.Active()
	if s == nil {
		if Sequential.Load() {
			if !m.real.TryLock() {
				panic(LeakMessage + m.name())
			}
			return
		}
		m.real.Lock()
		return
	}
	if s.Tearing() {
		return
	}
	s.Point("lock", m.name(), func() bool { return !m.held })
	m.held, m.owner = true, s.Current()
	heldModel.Add(1)
}

func (m *Mutex) TryLock() bool {
	s := sched.Active()
	if s == nil {
		return m.real.TryLock()
	}
	if s.Tearing() {
		return true
	}
	s.Point("trylock", m.name(), nil)
	if m.held {
		return false
	}
	m.held, m.owner = true, s.Current()
	heldModel.Add(1)
	return true
}

func (m *Mutex) Unlock() {
	s := sched.Active()
	if s == nil {
		if m.held {
			// locked in the model by a thread of an execution that was abandoned (sched.Stall): the thread lives on without
			// a scheduler; the real mutex was never taken
			m.held = false
			heldModel.Add(-1)
			return
		}
		m.real.Unlock()
		return
	}
	if s.Tearing() {
		return
	}
	if !m.held {
		panic("vsync: unlock of unlocked mutex")
	}
	m.held = false
	heldModel.Add(-1)
}

// Held reports the model state (for state keys / monitors).
func (m *Mutex) Held() bool { return m.held }

// RWMutex
type RWMutex struct {
	real    sync.RWMutex
	writer  bool
	wowner  int
	readers int
	id      int64
	// ReadersNow exposes concurrent readers to monitors
}

func (m *RWMutex) name() string {
	if m.id == 0 {
		m.id = nextID()
	}
	return fmt.Sprintf("rwmutex#%d", m.id)
}

func (m *RWMutex) Lock() {
	s := sched.Active()
	if s == nil {
		if Sequential.Load() {
			if !m.real.TryLock() {
				panic(LeakMessage + m.name())
			}
			return
		}
		m.real.Lock()
		return
	}
	if s.Tearing() {
		return
	}
	s.Point("wlock", m.name(), func() bool { return !m.writer && m.readers == 0 })
	m.writer, m.wowner = true, s.Current()
	heldModel.Add(1)
}

func (m *RWMutex) Unlock() {
	s := sched.Active()
	if s == nil {
		if m.writer {
			m.writer = false // (see Mutex.Unlock: a thread of an abandoned execution)
			heldModel.Add(-1)
			return
		}
		m.real.Unlock()
		return
	}
	if s.Tearing() {
		return
	}
	if !m.writer {
		panic("vsync: unlock of unlocked rwmutex")
	}
	m.writer = false
	heldModel.Add(-1)
}

func (m *RWMutex) RLock() {
	s := sched.Active()
	if s == nil {
		if Sequential.Load() {
			if !m.real.TryRLock() {
				panic(LeakMessage + m.name())
			}
			return
		}
		m.real.RLock()
		return
	}
	if s.Tearing() {
		return
	}
	s.Point("rlock", m.name(), func() bool { return !m.writer })
	m.readers++
	heldModel.Add(1)
}

func (m *RWMutex) RUnlock() {
	s := sched.Active()
	if s == nil {
		if m.readers > 0 {
			m.readers--
			heldModel.Add(-1)
			return
		}
		m.real.RUnlock()
		return
	}
	if s.Tearing() {
		return
	}
	if m.readers <= 0 {
		panic("vsync: runlock of unlocked rwmutex")
	}
	m.readers--
	heldModel.Add(-1)
}

func (m *RWMutex) TryLock() bool {
	s := sched.Active()
	if s == nil {
		return m.real.TryLock()
	}
	if s.Tearing() {
		return true
	}
	s.Point("trywlock", m.name(), nil)
	if m.writer || m.readers > 0 {
		return false
	}
	m.writer, m.wowner = true, s.Current()
	heldModel.Add(1)
	return true
}

func (m *RWMutex) TryRLock() bool {
	s := sched.Active()
	if s == nil {
		return m.real.TryRLock()
	}
	if s.Tearing() {
		return true
	}
	s.Point("tryrlock", m.name(), nil)
	if m.writer {
		return false
	}
	m.readers++
	heldModel.Add(1)
	return true
}

func (m *RWMutex) RLocker() Locker { return (*rlocker)(m) }

type rlocker RWMutex

func (r *rlocker) Lock()   { (*RWMutex)(r).RLock() }
func (r *rlocker) Unlock() { (*RWMutex)(r).RUnlock() }

// State reports (writer held, readers) of the model (monitors).
func (m *RWMutex) State() (bool, int) { return m.writer, m.readers }

// Cond
type waiter struct {
	thread    int
	signalled bool
}

type Cond struct {
	L       Locker
	real    *sync.Cond
	waiters []*waiter
	ID      int64
}

func NewCond(l Locker) *Cond {
	return &Cond{L: l, real: sync.NewCond(l), ID: nextID()}
}

func (c *Cond) name() string { return fmt.Sprintf("cond#%d", c.ID) }

func (c *Cond) Wait() {
	s := sched.Active()
	if s == nil {
		c.real.Wait()
		return
	}
	if s.Tearing() {
		return
	}
	if !s.Own() {
		s.Foreign("condition wait on " + c.name())
	}
	// register and release the lock in one atomic step (the baton is held)
	w := &waiter{thread: s.Current()}
	c.waiters = append(c.waiters, w)
	s.Log("cond-register", c.name())
	c.L.Unlock()
	s.Point("cond-wait", c.name(), func() bool { return w.signalled })
	s.Log("cond-wake", c.name())
	c.L.Lock()
}

func (c *Cond) Signal() {
	s := sched.Active()
	if s == nil {
		c.real.Signal()
		return
	}
	if s.Tearing() {
		return
	}
	s.Log("cond-signal", c.name())
	for i, w := range c.waiters {
		if !w.signalled {
			w.signalled = true
			c.waiters = append(c.waiters[:i:i], c.waiters[i+1:]...)
			return
		}
	}
}

func (c *Cond) Broadcast() {
	s := sched.Active()
	if s == nil {
		c.real.Broadcast()
		return
	}
	if s.Tearing() {
		return
	}
	s.Log("cond-broadcast", c.name())
	for _, w := range c.waiters {
		w.signalled = true
	}
	c.waiters = nil
}

// WaitGroup
type WaitGroup struct {
	real sync.WaitGroup
	n    int
	id   int64
}

func (w *WaitGroup) Add(d int) {
	s := sched.Active()
	if s == nil {
		w.real.Add(d)
		return
	}
	if s.Tearing() {
		return
	}
	w.n += d
	if w.n < 0 {
		panic("vsync: negative WaitGroup counter")
	}
}

func (w *WaitGroup) Done() { w.Add(-1) }

func (w *WaitGroup) Wait() {
	s := sched.Active()
	if s == nil {
		w.real.Wait()
		return
	}
	if s.Tearing() {
		return
	}
	if w.id == 0 {
		w.id = nextID()
	}
	s.Point("wg-wait", fmt.Sprintf("wg#%d", w.id), func() bool { return w.n == 0 })
}

// Once
type Once struct {
	real    sync.Once
	done    bool
	running bool
	id      int64
}

func (o *Once) Do(f func()) {
	s := sched.Active()
	if s == nil {
		o.real.Do(f)
		return
	}
	if s.Tearing() {
		return
	}
	if o.id == 0 {
		o.id = nextID()
	}
	s.Point("once", fmt.Sprintf("once#%d", o.id), func() bool { return !o.running })
	if o.done {
		return
	}
	o.running = true
	defer func() { o.running, o.done = false, true }()
	f()
}

// Map and Pool are re-exported unchanged (not scheduling points).
type (
	Map  = sync.Map
	Pool = sync.Pool
)
