//go:build verif

// Package sched is engine E2's cooperative scheduler: harness threads are real goroutines that run only while they
// hold the baton; every hooked operation announces itself with Point (kind, object, enabled-predicate) BEFORE taking
// effect; the scheduler then picks the next thread from the enabled set in canonical order (the running thread first
// if still enabled, then ascending ids) according to a replayed choice vector.
package sched

import (
	"fmt"
	"runtime"
	"sync"
	"sync/atomic"
	"time"
)

// StallTimeout: an execution in which no thread reaches a scheduling point for this long (real time) is one in which the
// running thread blocks on something the scheduler does not own (a raw channel, a timer, a real socket). The scheduler
// cannot drive such code; Run then panics with a Stall value (the process must not use a scheduler afterwards: the stuck
// goroutines stay behind) and the check falls back to whatever free-running pass it has, reporting exhaustive=false.
var StallTimeout = 45 * time.Second

// Stall is the panic value of Run when the code under test blocks outside the scheduler's control.
type Stall struct {
	Thread  int
	Last    Event
	Events  int
	Foreign string // set when a goroutine that is no scheduler thread (started by the code under test) reached a hooked blocking operation
}

func (st Stall) Error() string {
	if st.Foreign != "" {
		return fmt.Sprintf("a goroutine started by the code under test reached a hooked blocking operation (%s) after %d events: the scheduler does not own that goroutine", st.Foreign, st.Events)
	}
	return fmt.Sprintf("no scheduling point reached for %v: thread %d blocks outside the scheduler's control after %d events (its last announced operation: %s %s)", StallTimeout, st.Thread, st.Events, st.Last.Kind, st.Last.Obj)
}

var poisoned atomic.Bool

func init() { ownCheck.Store(true) }

// Poisoned reports whether an earlier execution in this process stalled.
func Poisoned() bool { return poisoned.Load() }

// Event is one entry of the execution trace.
type Event struct {
	Thread int
	Kind   string
	Obj    string
}

// Branch is one scheduling point at which more than one thread was enabled.
type Branch struct {
	Enabled        []int // canonical order
	Running        int   // thread that reached the point (-1 at start / after an exit)
	RunningEnabled bool
	Chosen         int // index into Enabled
}

type thread struct {
	id       int
	name     string
	wake     chan struct{}
	goid     int64
	pred     func() bool // enabled predicate of the pending operation
	pending  Event
	finished bool
	started  bool
	torn     bool
	panicVal any
}

// Scheduler runs one execution.
type Scheduler struct {
	mu       sync.Mutex
	threads  []*thread
	running  int
	prefix   []int
	Branches []Branch
	Trace    []Event
	tearing  bool
	doneCh   chan struct{}
	// OnQuiescent is called (once) when no thread is enabled but some are blocked; it may return further thread
	// bodies to add (e.g. clean-up broadcasts). Blocked holds the ids blocked at that moment.
	OnQuiescent         func(blocked []int) []func()
	quiesced            bool
	BlockedAtQuiescence []int
	Deadlocked          []int // threads still blocked at the very end
	Diverged            string
	maxEvents           int
	progress            atomic.Int64
	foreign             atomic.Value // string
	foreignCh           chan struct{}
	checkOwn            bool
}

// ownCheck decides whether the next scheduler asks blocking hooks for goroutine identity (it costs ~3 us per hook): the
// explorer switches it on for the first two executions of every exploration and every 32nd after that - a goroutine the
// code under test starts on its own shows in the canonical execution of a scenario already.
var ownCheck atomic.Bool

// goid returns the id of the calling goroutine (parsed from its stack header; ~3 us, so only blocking hooks ask).
func goid() int64 {
	var b [40]byte
	n := runtime.Stack(b[:], false)
	var id int64
	for _, c := range b[len("goroutine "):n] {
		if c < '0' || c > '9' {
			break
		}
		id = id*10 + int64(c-'0')
	}
	return id
}

// Own reports whether the caller is the goroutine of the thread that holds the baton.
func (s *Scheduler) Own() bool {
	if !s.checkOwn {
		return true
	}
	id := s.running
	return id < 0 || id >= len(s.threads) || s.threads[id].goid == goid()
}

// Foreign is called by a blocking hook that finds itself on a goroutine the scheduler does not own (the code under test
// started it). The execution cannot be driven; the goroutine is parked for good and Run ends with a Stall.
func (s *Scheduler) Foreign(what string) {
	s.foreign.CompareAndSwap(nil, what)
	select {
	case s.foreignCh <- struct{}{}:
	default:
	}
	select {}
}

type sentinel struct{}

var (
	curMu sync.RWMutex
	cur   *Scheduler
)

// Active reports whether a scheduler controls the calling code.
func Active() *Scheduler {
	curMu.RLock()
	defer curMu.RUnlock()
	return cur
}

// New creates a scheduler that replays prefix and then always takes choice 0.
func New(prefix []int) *Scheduler {
	if poisoned.Load() {
		panic("sched: New after a stalled execution (goroutines of that execution are still around)")
	}
	return &Scheduler{prefix: prefix, running: -1, doneCh: make(chan struct{}), foreignCh: make(chan struct{}, 1), maxEvents: 200000, checkOwn: ownCheck.Load()}
}

// Current returns the id of the running thread (-1 outside threads).
func (s *Scheduler) Current() int { return s.running }

// Tearing reports whether blocked threads are being unwound (every hooked operation must then be inert).
func (s *Scheduler) Tearing() bool { return s.tearing }

// Log appends an event to the trace (used by shims to record effects such as registrations and broadcasts).
func (s *Scheduler) Log(kind, obj string) {
	s.Trace = append(s.Trace, Event{s.running, kind, obj})
}

func (s *Scheduler) addThread(body func(), name string) *thread {
	t := &thread{id: len(s.threads), name: name, wake: make(chan struct{}, 1)}
	t.pred = func() bool { return true }
	t.pending = Event{t.id, "start", name}
	s.threads = append(s.threads, t)
	go func() {
		t.goid = goid()
		<-t.wake
		defer func() {
			if r := recover(); r != nil {
				if _, ok := r.(sentinel); ok {
					t.torn = true
				} else {
					t.panicVal = r
				}
			}
			t.finished = true
			if s.tearing {
				s.doneCh <- struct{}{}
				return
			}
			s.running = -1
			s.dispatch(-1, false)
		}()
		if s.tearing {
			panic(sentinel{})
		}
		t.started = true
		body()
	}()
	return t
}

// Run executes the thread bodies under this scheduler and returns when every thread has finished or been unwound.
func (s *Scheduler) Run(bodies ...func()) {
	curMu.Lock()
	cur = s
	curMu.Unlock()
	for i, b := range bodies {
		s.addThread(b, fmt.Sprintf("T%d", i))
	}
	s.dispatch(-1, false)
	s.awaitDone()
	// unwind whatever is still blocked
	for _, t := range s.threads {
		if !t.finished {
			s.Deadlocked = append(s.Deadlocked, t.id)
		}
	}
	if len(s.Deadlocked) > 0 {
		s.tearing = true
		for _, id := range s.Deadlocked {
			s.threads[id].wake <- struct{}{}
			<-s.doneCh
		}
	}
	curMu.Lock()
	cur = nil
	curMu.Unlock()
}

// awaitDone waits for the end of the execution, watching for a stall.
func (s *Scheduler) awaitDone() {
	tick := time.NewTicker(StallTimeout / 8)
	defer tick.Stop()
	last, since := s.progress.Load(), time.Now()
	foreignStall := func() {
		poisoned.Store(true)
		curMu.Lock()
		cur = nil
		curMu.Unlock()
		what, _ := s.foreign.Load().(string)
		panic(Stall{Thread: s.running, Events: len(s.Trace), Foreign: what})
	}
	for {
		select {
		case <-s.doneCh:
			if s.foreign.Load() != nil {
				foreignStall()
			}
			return
		case <-s.foreignCh:
			foreignStall()
		case <-tick.C:
			if p := s.progress.Load(); p != last {
				last, since = p, time.Now()
			} else if time.Since(since) > StallTimeout {
				poisoned.Store(true)
				curMu.Lock()
				cur = nil
				curMu.Unlock()
				st := Stall{Thread: s.running, Events: len(s.Trace)}
				if n := len(s.Trace); n > 0 {
					st.Last = s.Trace[n-1]
				}
				panic(st)
			}
		}
	}
}

// Panics returns the panic values of threads that crashed.
func (s *Scheduler) Panics() map[int]any {
	m := map[int]any{}
	for _, t := range s.threads {
		if t.panicVal != nil {
			m[t.id] = t.panicVal
		}
	}
	return m
}

// Finished reports whether thread id ran to completion (not unwound).
func (s *Scheduler) Finished(id int) bool { return s.threads[id].finished && !s.threads[id].torn }

// NumThreads returns the number of threads (including those added at quiescence).
func (s *Scheduler) NumThreads() int { return len(s.threads) }

// dispatch picks the next thread. from = id of the thread that reached a point (-1 if none), fromEnabled = its predicate.
// It returns true if the caller (from) was chosen and may continue.
func (s *Scheduler) dispatch(from int, fromEnabled bool) bool {
	s.progress.Add(1)
	for {
		var enabled []int
		if from >= 0 && fromEnabled {
			enabled = append(enabled, from)
		}
		unfinished := 0
		for _, t := range s.threads {
			if t.finished {
				continue
			}
			unfinished++
			if t.id == from {
				continue
			}
			if t.pred() {
				enabled = append(enabled, t.id)
			}
		}
		if len(enabled) == 0 {
			if unfinished > 0 && !s.quiesced && s.OnQuiescent != nil {
				s.quiesced = true
				for _, t := range s.threads {
					if !t.finished {
						s.BlockedAtQuiescence = append(s.BlockedAtQuiescence, t.id)
					}
				}
				more := s.OnQuiescent(append([]int{}, s.BlockedAtQuiescence...))
				if len(more) > 0 {
					for i, b := range more {
						s.addThread(b, fmt.Sprintf("Q%d", i))
					}
					continue
				}
			}
			// all finished, or deadlock: hand control back to Run
			s.running = -1
			s.doneCh <- struct{}{}
			return false
		}
		choice := 0
		if len(enabled) > 1 {
			bi := len(s.Branches)
			if bi < len(s.prefix) {
				choice = s.prefix[bi]
				if choice >= len(enabled) {
					s.Diverged = fmt.Sprintf("replay diverged at branch %d: choice %d of %d enabled", bi, choice, len(enabled))
					choice = 0
				}
			}
			s.Branches = append(s.Branches, Branch{Enabled: enabled, Running: from, RunningEnabled: from >= 0 && fromEnabled, Chosen: choice})
		}
		next := enabled[choice]
		s.running = next
		if len(s.Trace) < s.maxEvents {
			s.Trace = append(s.Trace, s.threads[next].pending)
		}
		if next == from {
			return true
		}
		s.threads[next].wake <- struct{}{}
		return false
	}
}

// Point announces that the running thread is about to perform an operation that is enabled iff pred() (nil = always).
// It returns when the scheduler lets the thread perform it; pred() is then true.
func (s *Scheduler) Point(kind, obj string, pred func() bool) {
	if s.tearing {
		return
	}
	id := s.running
	if id < 0 {
		// called from outside a scheduler thread (harness set-up while active): just require the predicate
		return
	}
	t := s.threads[id]
	if pred == nil {
		pred = func() bool { return true }
	}
	t.pred = pred
	t.pending = Event{id, kind, obj}
	if s.dispatch(id, pred()) {
		return
	}
	<-t.wake
	if s.tearing {
		panic(sentinel{})
	}
}

// Preemptions returns the number of preemptive switches before branch index i (exclusive) given the chosen vector.
func Preemptions(bs []Branch, upto int) int {
	n := 0
	for i := 0; i < upto && i < len(bs); i++ {
		if bs[i].RunningEnabled && bs[i].Chosen != 0 {
			n++
		}
	}
	return n
}

// Choices extracts the choice vector.
func Choices(bs []Branch) []int {
	out := make([]int, len(bs))
	for i, b := range bs {
		out[i] = b.Chosen
	}
	return out
}

// Deviations returns the number of non-default choices before branch index upto (exclusive).
func Deviations(bs []Branch, upto int) int {
	n := 0
	for i := 0; i < upto && i < len(bs); i++ {
		if bs[i].Chosen != 0 {
			n++
		}
	}
	return n
}

// Explore enumerates every execution with at most `bound` preemptions (bound < 0: unbounded) and, when devBound >= 0,
// at most devBound departures from the canonical choice 0 at any branch (preemptive or not). run must build a fresh
// object graph, execute it under New(prefix) and return the scheduler; visit is called for every execution and may
// return false to stop. It returns the number of executions and whether exploration ran to completion.
func Explore(bound int, run func(prefix []int) *Scheduler, visit func(s *Scheduler) bool, stop func() bool) (execs int, complete bool) {
	return ExploreDev(bound, -1, run, visit, stop)
}

// ExploreDev is Explore with an additional bound on the total number of non-default choices.
func ExploreDev(bound, devBound int, run func(prefix []int) *Scheduler, visit func(s *Scheduler) bool, stop func() bool) (execs int, complete bool) {
	complete = true
	var rec func(prefix []int) bool
	rec = func(prefix []int) bool {
		if stop != nil && stop() {
			complete = false
			return false
		}
		ownCheck.Store(execs < 2 || execs%32 == 0)
		s := run(prefix)
		execs++
		if s.Diverged != "" {
			panic("sched: " + s.Diverged)
		}
		if !visit(s) {
			complete = false
			return false
		}
		bs := s.Branches
		for i := len(prefix); i < len(bs); i++ {
			cost := Preemptions(bs, i)
			extra := 0
			if bs[i].RunningEnabled {
				extra = 1
			}
			if bound >= 0 && cost+extra > bound {
				continue
			}
			if devBound >= 0 && Deviations(bs, i)+1 > devBound {
				continue
			}
			for alt := 1; alt < len(bs[i].Enabled); alt++ {
				np := append(append([]int{}, Choices(bs[:i])...), alt)
				if !rec(np) {
					return false
				}
			}
		}
		return true
	}
	rec(nil)
	ownCheck.Store(true)
	return
}
