//go:build verif

// Package vnet stands in for "net" in the two GetConn files: Dial("unix", addr) resolves addr in an in-memory
// registry first. It also provides the reactor connection (a scripted synchronous peer, no goroutine).
package vnet

import (
	"context"
	"encoding/binary"
	"errors"
	"io"
	"net"
	"sync"
	"time"
)

type (
	Conn         = net.Conn
	Addr         = net.Addr
	Listener     = net.Listener
	IP           = net.IP
	IPNet        = net.IPNet
	UnixAddr     = net.UnixAddr
	UnixConn     = net.UnixConn
	UnixListener = net.UnixListener
	TCPAddr      = net.TCPAddr
	TCPConn      = net.TCPConn
	Dialer       = net.Dialer
	Error        = net.Error
	OpError      = net.OpError
)

var ErrClosed = net.ErrClosed

var (
	mu       sync.Mutex
	registry = map[string]func() (net.Conn, error){}
)

// Register makes Dial("unix", addr) return factory().
func Register(addr string, factory func() (net.Conn, error)) {
	mu.Lock()
	registry[addr] = factory
	mu.Unlock()
}

// Unregister removes an address.
func Unregister(addr string) {
	mu.Lock()
	delete(registry, addr)
	mu.Unlock()
}

// Dial consults the registry, then the real network.
func Dial(network, address string) (net.Conn, error) {
	mu.Lock()
	f := registry[address]
	mu.Unlock()
	if f != nil {
		return f()
	}
	return net.Dial(network, address)
}

func DialTimeout(network, address string, d time.Duration) (net.Conn, error) {
	mu.Lock()
	f := registry[address]
	mu.Unlock()
	if f != nil {
		return f()
	}
	return net.DialTimeout(network, address, d)
}
func Listen(network, address string) (net.Listener, error) { return net.Listen(network, address) }
func ParseIP(s string) net.IP                              { return net.ParseIP(s) }
func Pipe() (net.Conn, net.Conn)                           { return net.Pipe() }
func JoinHostPort(h, p string) string                      { return net.JoinHostPort(h, p) }
func SplitHostPort(hp string) (string, string, error)      { return net.SplitHostPort(hp) }
func ResolveUnixAddr(n, a string) (*net.UnixAddr, error)   { return net.ResolveUnixAddr(n, a) }
func DialUnix(n string, l, r *net.UnixAddr) (*net.UnixConn, error) {
	return net.DialUnix(n, l, r)
}
func LookupHost(h string) ([]string, error) {
	return net.DefaultResolver.LookupHost(context.Background(), h)
}

// Reply is what the scripted peer does with one complete request frame.
type Reply struct {
	Raw   []byte // bytes queued for the client verbatim (already framed); nil with Close=false means "no answer"
	Close bool   // close the connection after queueing Raw
}

// Hook, when set, is called before every Write and Read on a reactor connection (the scheduler's branch point).
// blocked tells the hook that the read has nothing to return yet; the hook must return only when it may proceed.
var Hook func(c *Reactor, op string, ready func() bool)

// Reactor is a connection to a synchronous scripted peer: bytes written are accumulated; each complete frame is
// handed to Handler and its reply is queued for Read.
type Reactor struct {
	Handler func(frame []byte) Reply
	Name    string

	mu       sync.Mutex
	in, out  []byte
	closed   bool // closed by the peer
	lclosed  bool // closed locally
	Writes   int
	ReadsN   int
	Frames   int
	LastUser any // free slot for monitors
}

var errWouldBlock = errors.New("vnet: read on a reactor connection with no reply pending (peer sent nothing)")

func (r *Reactor) Write(p []byte) (int, error) {
	if Hook != nil {
		Hook(r, "write", nil)
	}
	r.mu.Lock()
	defer r.mu.Unlock()
	r.Writes++
	if r.lclosed {
		return 0, net.ErrClosed
	}
	if r.closed {
		return 0, io.ErrClosedPipe
	}
	r.in = append(r.in, p...)
	for len(r.in) >= 4 {
		l := int(binary.BigEndian.Uint32(r.in))
		if l > 64<<20 {
			r.closed = true
			break
		}
		if len(r.in) < 4+l {
			break
		}
		frame := append([]byte{}, r.in[4:4+l]...)
		r.in = r.in[4+l:]
		r.Frames++
		rep := r.Handler(frame)
		r.out = append(r.out, rep.Raw...)
		if rep.Close {
			r.closed = true
			break
		}
	}
	return len(p), nil
}

func (r *Reactor) Read(p []byte) (int, error) {
	if Hook != nil {
		Hook(r, "read", func() bool {
			r.mu.Lock()
			defer r.mu.Unlock()
			return len(r.out) > 0 || r.closed || r.lclosed
		})
	}
	r.mu.Lock()
	defer r.mu.Unlock()
	r.ReadsN++
	if r.lclosed {
		return 0, net.ErrClosed
	}
	if len(r.out) == 0 {
		if r.closed {
			return 0, io.EOF
		}
		return 0, errWouldBlock
	}
	n := copy(p, r.out)
	r.out = r.out[n:]
	return n, nil
}

// Idle reports that no request is partially written and no reply is waiting to be read.
func (r *Reactor) Idle() bool {
	r.mu.Lock()
	defer r.mu.Unlock()
	return len(r.in) == 0 && len(r.out) == 0
}

// Pending reports whether reply bytes are queued.
func (r *Reactor) Pending() int {
	r.mu.Lock()
	defer r.mu.Unlock()
	return len(r.out)
}

// LocallyClosed reports whether the client closed the connection.
func (r *Reactor) LocallyClosed() bool {
	r.mu.Lock()
	defer r.mu.Unlock()
	return r.lclosed
}

func (r *Reactor) Close() error {
	r.mu.Lock()
	defer r.mu.Unlock()
	if r.lclosed {
		return net.ErrClosed
	}
	r.lclosed = true
	return nil
}

type addr string

func (a addr) Network() string { return "unix" }
func (a addr) String() string  { return string(a) }

func (r *Reactor) LocalAddr() net.Addr                { return addr("vnet-local") }
func (r *Reactor) RemoteAddr() net.Addr               { return addr(r.Name) }
func (r *Reactor) SetDeadline(t time.Time) error      { return nil }
func (r *Reactor) SetReadDeadline(t time.Time) error  { return nil }
func (r *Reactor) SetWriteDeadline(t time.Time) error { return nil }

// Frame prefixes b with its length.
func Frame(b []byte) []byte {
	out := make([]byte, 4+len(b))
	binary.BigEndian.PutUint32(out, uint32(len(b)))
	copy(out[4:], b)
	return out
}

// PipeEnd is one end of an in-memory duplex pipe whose blocking reads are scheduler-visible (BlockHook).
type PipeEnd struct {
	name   string
	mu     sync.Mutex
	buf    []byte // bytes readable at this end
	peer   *PipeEnd
	closed bool // this end closed
	eof    bool // peer closed
	// OnData, when set, sees the bytes of every successful Read at this end (before Read returns).
	OnData func(p *PipeEnd, data []byte)
}

// PipeHook, when set, is called before every pipe Read (with a readiness predicate) and Write.
var PipeHook func(p *PipeEnd, op string, ready func() bool)

// NewPipe returns two connected ends.
func NewPipe(name string) (*PipeEnd, *PipeEnd) {
	a, b := &PipeEnd{name: name + "/a"}, &PipeEnd{name: name + "/b"}
	a.peer, b.peer = b, a
	return a, b
}

func (p *PipeEnd) Name() string { return p.name }

func (p *PipeEnd) ready() bool {
	p.mu.Lock()
	defer p.mu.Unlock()
	return len(p.buf) > 0 || p.eof || p.closed
}

func (p *PipeEnd) Read(b []byte) (int, error) {
	if PipeHook != nil {
		PipeHook(p, "read", p.ready)
	}
	p.mu.Lock()
	defer p.mu.Unlock()
	if p.closed {
		return 0, net.ErrClosed
	}
	if len(p.buf) == 0 {
		if p.eof {
			return 0, io.EOF
		}
		return 0, errWouldBlock
	}
	n := copy(b, p.buf)
	p.buf = p.buf[n:]
	if p.OnData != nil {
		p.OnData(p, b[:n])
	}
	return n, nil
}

func (p *PipeEnd) Write(b []byte) (int, error) {
	if PipeHook != nil {
		PipeHook(p, "write", nil)
	}
	p.mu.Lock()
	closed := p.closed
	p.mu.Unlock()
	if closed {
		return 0, net.ErrClosed
	}
	q := p.peer
	q.mu.Lock()
	defer q.mu.Unlock()
	if q.closed {
		return 0, io.ErrClosedPipe
	}
	q.buf = append(q.buf, b...)
	return len(b), nil
}

func (p *PipeEnd) Close() error {
	p.mu.Lock()
	p.closed = true
	p.mu.Unlock()
	q := p.peer
	q.mu.Lock()
	q.eof = true
	q.mu.Unlock()
	return nil
}

func (p *PipeEnd) LocalAddr() net.Addr                { return addr(p.name) }
func (p *PipeEnd) RemoteAddr() net.Addr               { return addr(p.peer.name) }
func (p *PipeEnd) SetDeadline(t time.Time) error      { return nil }
func (p *PipeEnd) SetReadDeadline(t time.Time) error  { return nil }
func (p *PipeEnd) SetWriteDeadline(t time.Time) error { return nil }

// BlockingPipe is a buffered in-memory duplex connection with really blocking reads (sync.Cond), for peers that run on
// their own goroutine outside the scheduler. Writes never block (unbounded buffer), so a peer that writes more than it
// should cannot wedge the other side; Close wakes readers with EOF.
type BlockingPipe struct {
	mu     *sync.Mutex
	cond   *sync.Cond
	buf    []byte
	closed bool
	peer   *BlockingPipe
	name   string
}

// NewBlockingPipe returns two connected ends.
func NewBlockingPipe(name string) (*BlockingPipe, *BlockingPipe) {
	mu := &sync.Mutex{}
	a := &BlockingPipe{mu: mu, cond: sync.NewCond(mu), name: name + "/a"}
	b := &BlockingPipe{mu: mu, cond: sync.NewCond(mu), name: name + "/b"}
	a.peer, b.peer = b, a
	return a, b
}

func (p *BlockingPipe) Read(b []byte) (int, error) {
	p.mu.Lock()
	defer p.mu.Unlock()
	for len(p.buf) == 0 {
		if p.closed {
			return 0, net.ErrClosed
		}
		if p.peer.closed {
			return 0, io.EOF
		}
		p.cond.Wait()
	}
	n := copy(b, p.buf)
	p.buf = p.buf[n:]
	return n, nil
}

func (p *BlockingPipe) Write(b []byte) (int, error) {
	p.mu.Lock()
	defer p.mu.Unlock()
	if p.closed {
		return 0, net.ErrClosed
	}
	if p.peer.closed {
		return 0, io.ErrClosedPipe
	}
	p.peer.buf = append(p.peer.buf, b...)
	p.peer.cond.Broadcast()
	return len(b), nil
}

func (p *BlockingPipe) Close() error {
	p.mu.Lock()
	defer p.mu.Unlock()
	p.closed = true
	p.cond.Broadcast()
	p.peer.cond.Broadcast()
	return nil
}

func (p *BlockingPipe) LocalAddr() net.Addr                { return addr(p.name) }
func (p *BlockingPipe) RemoteAddr() net.Addr               { return addr(p.peer.name) }
func (p *BlockingPipe) SetDeadline(t time.Time) error      { return nil }
func (p *BlockingPipe) SetReadDeadline(t time.Time) error  { return nil }
func (p *BlockingPipe) SetWriteDeadline(t time.Time) error { return nil }
