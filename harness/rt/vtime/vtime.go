//go:build verif

// Package vtime stands in for "time" in seamed packages. Now/Since/Until follow a virtual clock when one is set;
// everything else is re-exported unchanged.
package vtime

import (
	"sync"
	"time"
)

type (
	Time       = time.Time
	Duration   = time.Duration
	Month      = time.Month
	Weekday    = time.Weekday
	Location   = time.Location
	Timer      = time.Timer
	Ticker     = time.Ticker
	ParseError = time.ParseError
)

const (
	Nanosecond  = time.Nanosecond
	Microsecond = time.Microsecond
	Millisecond = time.Millisecond
	Second      = time.Second
	Minute      = time.Minute
	Hour        = time.Hour

	Layout      = time.Layout
	ANSIC       = time.ANSIC
	UnixDate    = time.UnixDate
	RubyDate    = time.RubyDate
	RFC822      = time.RFC822
	RFC822Z     = time.RFC822Z
	RFC850      = time.RFC850
	RFC1123     = time.RFC1123
	RFC1123Z    = time.RFC1123Z
	RFC3339     = time.RFC3339
	RFC3339Nano = time.RFC3339Nano
	Kitchen     = time.Kitchen
	Stamp       = time.Stamp
	StampMilli  = time.StampMilli
	StampMicro  = time.StampMicro
	StampNano   = time.StampNano
	DateTime    = time.DateTime
	DateOnly    = time.DateOnly
	TimeOnly    = time.TimeOnly

	January   = time.January
	February  = time.February
	March     = time.March
	April     = time.April
	May       = time.May
	June      = time.June
	July      = time.July
	August    = time.August
	September = time.September
	October   = time.October
	November  = time.November
	December  = time.December

	Sunday    = time.Sunday
	Monday    = time.Monday
	Tuesday   = time.Tuesday
	Wednesday = time.Wednesday
	Thursday  = time.Thursday
	Friday    = time.Friday
	Saturday  = time.Saturday
)

var (
	UTC   = time.UTC
	Local = time.Local
)

var (
	mu    sync.Mutex
	set   bool
	clock time.Time
	reads int
)

// Set fixes the virtual clock.
func Set(t time.Time) {
	mu.Lock()
	set, clock = true, t
	mu.Unlock()
}

// Advance moves the virtual clock.
func Advance(d time.Duration) {
	mu.Lock()
	clock = clock.Add(d)
	mu.Unlock()
}

// Unset returns to the real clock.
func Unset() {
	mu.Lock()
	set = false
	mu.Unlock()
}

// Reads returns how many times the seamed code read the clock.
func Reads() int {
	mu.Lock()
	defer mu.Unlock()
	return reads
}

// Now returns the virtual time when set, else the real time.
func Now() time.Time {
	mu.Lock()
	defer mu.Unlock()
	reads++
	if set {
		return clock
	}
	return time.Now()
}

func Since(t time.Time) time.Duration { return Now().Sub(t) }
func Until(t time.Time) time.Duration { return t.Sub(Now()) }

func Unix(sec, nsec int64) time.Time { return time.Unix(sec, nsec) }
func UnixMilli(ms int64) time.Time   { return time.UnixMilli(ms) }
func UnixMicro(us int64) time.Time   { return time.UnixMicro(us) }
func Date(y int, m time.Month, d, h, mi, s, ns int, l *time.Location) time.Time {
	return time.Date(y, m, d, h, mi, s, ns, l)
}
func Parse(layout, v string) (time.Time, error)     { return time.Parse(layout, v) }
func ParseDuration(s string) (time.Duration, error) { return time.ParseDuration(s) }
func ParseInLocation(l, v string, loc *time.Location) (time.Time, error) {
	return time.ParseInLocation(l, v, loc)
}
func LoadLocation(n string) (*time.Location, error)   { return time.LoadLocation(n) }
func FixedZone(n string, off int) *time.Location      { return time.FixedZone(n, off) }
func Sleep(d time.Duration)                           { time.Sleep(d) }
func After(d time.Duration) <-chan time.Time          { return time.After(d) }
func AfterFunc(d time.Duration, f func()) *time.Timer { return time.AfterFunc(d, f) }
func NewTimer(d time.Duration) *time.Timer            { return time.NewTimer(d) }
func NewTicker(d time.Duration) *time.Ticker          { return time.NewTicker(d) }
func Tick(d time.Duration) <-chan time.Time           { return time.Tick(d) }
