//go:build verif

// Package vrand stands in for crypto/rand in seamed packages: every read is recorded, and the bytes served are a
// deterministic, never-repeating counter stream, so "these are the bytes drawn from the CSPRNG in this call" is a
// checkable fact. Everything else of crypto/rand is re-exported.
package vrand

import (
	crand "crypto/rand"
	"crypto/sha256"
	"encoding/binary"
	"errors"
	"io"
	"math/big"
	"sync"
)

var (
	mu      sync.Mutex
	counter uint64
	log     [][]byte
	failN   int
)

type reader struct{}

func (reader) Read(b []byte) (int, error) { return Read(b) }

// Reader is the seam's replacement for crypto/rand.Reader.
var Reader io.Reader = reader{}

// Read fills b from the deterministic stream and records it.
func Read(b []byte) (n int, err error) {
	mu.Lock()
	defer mu.Unlock()
	if failN > 0 {
		failN--
		return 0, errors.New("vrand: injected entropy failure")
	}
	off := 0
	for off < len(b) {
		var seed [16]byte
		copy(seed[:], "verif-vrand")
		binary.BigEndian.PutUint64(seed[8:], counter)
		counter++
		h := sha256.Sum256(seed[:])
		off += copy(b[off:], h[:])
	}
	log = append(log, append([]byte{}, b...))
	return len(b), nil
}

// Int re-exports crypto/rand.Int.
func Int(r io.Reader, max *big.Int) (*big.Int, error) { return crand.Int(r, max) }

// Prime re-exports crypto/rand.Prime.
func Prime(r io.Reader, bits int) (*big.Int, error) { return crand.Prime(r, bits) }

// Log returns the reads recorded since the last ResetLog.
func Log() [][]byte {
	mu.Lock()
	defer mu.Unlock()
	out := make([][]byte, len(log))
	copy(out, log)
	return out
}

// ResetLog forgets recorded reads (the stream position is kept, so values never repeat).
func ResetLog() {
	mu.Lock()
	log = nil
	mu.Unlock()
}

// FailNext makes the next n reads fail.
func FailNext(n int) {
	mu.Lock()
	failN = n
	mu.Unlock()
}
