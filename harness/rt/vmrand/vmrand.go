//go:build verif

// Package vmrand stands in for math/rand in internal/backoff: Float64 answers of generators created through New are
// chosen by the enumerator. Other names are re-exported.
package vmrand

import (
	mrand "math/rand"
	"sync"
)

type (
	Source   = mrand.Source
	Source64 = mrand.Source64
)

var (
	mu     sync.Mutex
	answer = -1.0 // <0: pass through
	calls  int
)

// SetFloat64 fixes the answer of every later Float64 call (negative = real generator).
func SetFloat64(v float64) {
	mu.Lock()
	answer = v
	mu.Unlock()
}

// Calls returns how many Float64 answers were served by the seam.
func Calls() int {
	mu.Lock()
	defer mu.Unlock()
	return calls
}

// Rand wraps a real generator.
type Rand struct{ *mrand.Rand }

// Float64 returns the enumerator's answer when one is set.
func (r *Rand) Float64() float64 {
	mu.Lock()
	a := answer
	if a >= 0 {
		calls++
	}
	mu.Unlock()
	if a >= 0 {
		return a
	}
	return r.Rand.Float64()
}

func NewSource(seed int64) Source { return mrand.NewSource(seed) }
func New(src Source) *Rand        { return &Rand{mrand.New(src)} }
func Float64() float64            { return New(NewSource(1)).Float64() }
func Int63() int64                { return mrand.Int63() }
func Int63n(n int64) int64        { return mrand.Int63n(n) }
func Intn(n int) int              { return mrand.Intn(n) }
func Int() int                    { return mrand.Int() }
func Seed(seed int64)             { mrand.Seed(seed) }
