//go:build verif

package fix

import (
	"crypto/dsa"
	"crypto/ed25519"
	"crypto/sha256"
	"encoding/binary"
	"io"
	"math/big"

	"golang.org/x/crypto/ssh"
)

// DSA fixture key (L1024 N160, generated once with crypto/dsa; a legacy but legal ssh key type).
const (
	dsaP = "9979eacf2cd498f347424a5b22fc64e59868f08b87960483a8758fe872e246da722b81fe3ff92361bf1ccc9681a57734f3dd56e6abd886d32f7a4a62344df02e6ff97e7e33d51bbacd998e4a7a6721d3214503c69caf85f39b41a190e4c10c0517380ed7405aa2b726c8b0d858840012d12663079adf60a2fb66d183724d4c41"
	dsaQ = "ee00a3f1260b37b3e191a219271e1cbb81fe7ed9"
	dsaG = "647aa6721826ffdd987dcff897bf3705028e784306676f8591ef294948cc723f7f43153455903f7949fecc820ea54f56b2e6500684c0bfb175b3034f06fab766966aa61a3f299717b105dff39f933c05c82a42ee062ab6109a784285e9a1686f4a89ac83aaeeeee25c8f3da53937f341353d640648b1c6262e7b788bd771b277"
	dsaY = "4b9c7390873a0fe4221b901693786de9273ef5817384983a8a65ce46361232118f49e147622cb33110381f12989ab2979209a84d6bf37f7d7f2e08a54125f13b9ff417e26b0fb1a9dea7bc30e39e774fd9bf1210ed5b90f7873f79758d5ec88f8064df3d1b071ac8424b0d4cbc53cbff52ac9ceb07255b195f21034b68c511ba"
	dsaX = "292eb3e39bb42caa120f0d80b4fdd703478cf25c"
)

// DSA returns the DSA fixture key.
func DSA() *dsa.PrivateKey {
	return memo("dsa", func() any {
		h := func(s string) *big.Int { n, _ := new(big.Int).SetString(s, 16); return n }
		return &dsa.PrivateKey{PublicKey: dsa.PublicKey{Parameters: dsa.Parameters{P: h(dsaP), Q: h(dsaQ), G: h(dsaG)}, Y: h(dsaY)}, X: h(dsaX)}
	}).(*dsa.PrivateKey)
}

// SKSigner is a software FIDO authenticator for the key type sk-ssh-ed25519@openssh.com: the public key carries the
// application string, signatures cover SHA-256(application) || flags || counter || SHA-256(data) and carry flags and
// counter (what ssh-agent returns for a security key).
type SKSigner struct {
	priv    ed25519.PrivateKey
	pub     ssh.PublicKey
	Counter uint32
}

// SK returns a software security-key signer over the i-th Ed25519 fixture key.
func SK(i int) *SKSigner {
	priv := Ed(i)
	wire := ssh.Marshal(struct {
		Name string
		Key  []byte
		App  string
	}{ssh.KeyAlgoSKED25519, []byte(priv.Public().(ed25519.PublicKey)), "ssh:"})
	pub, err := ssh.ParsePublicKey(wire)
	if err != nil {
		panic(err)
	}
	return &SKSigner{priv: priv, pub: pub}
}

func (s *SKSigner) PublicKey() ssh.PublicKey { return s.pub }

func (s *SKSigner) Sign(_ io.Reader, data []byte) (*ssh.Signature, error) {
	s.Counter++
	app, msg := sha256.Sum256([]byte("ssh:")), sha256.Sum256(data)
	var tail [5]byte
	tail[0] = 1 // user presence
	binary.BigEndian.PutUint32(tail[1:], s.Counter)
	blob := append(append(append([]byte{}, app[:]...), tail[:]...), msg[:]...)
	return &ssh.Signature{Format: ssh.KeyAlgoSKED25519, Blob: ed25519.Sign(s.priv, blob), Rest: append([]byte{}, tail[:]...)}, nil
}
