//go:build verif

package fix

import "errors"

// TLV is one DER element.
type TLV struct {
	Tag     byte
	Content []byte
	Full    []byte
}

// DERParse splits the first element off b.
func DERParse(b []byte) (t TLV, rest []byte, err error) {
	if len(b) < 2 {
		return t, nil, errors.New("short")
	}
	t.Tag = b[0]
	l := int(b[1])
	off := 2
	if l&0x80 != 0 {
		n := l & 0x7f
		if n == 0 || n > 4 || len(b) < 2+n {
			return t, nil, errors.New("bad length")
		}
		l = 0
		for i := 0; i < n; i++ {
			l = l<<8 | int(b[2+i])
		}
		off = 2 + n
	}
	if len(b) < off+l {
		return t, nil, errors.New("truncated")
	}
	t.Content = b[off : off+l]
	t.Full = b[:off+l]
	return t, b[off+l:], nil
}

// DERChildren parses the content of a constructed element.
func DERChildren(content []byte) ([]TLV, error) {
	var out []TLV
	for len(content) > 0 {
		t, rest, err := DERParse(content)
		if err != nil {
			return nil, err
		}
		out = append(out, t)
		content = rest
	}
	return out, nil
}

// DEREncode builds an element with a definite minimal length.
func DEREncode(tag byte, content []byte) []byte {
	out := []byte{tag}
	l := len(content)
	switch {
	case l < 0x80:
		out = append(out, byte(l))
	case l < 0x100:
		out = append(out, 0x81, byte(l))
	case l < 0x10000:
		out = append(out, 0x82, byte(l>>8), byte(l))
	default:
		out = append(out, 0x83, byte(l>>16), byte(l>>8), byte(l))
	}
	return append(out, content...)
}

// DERJoin concatenates full encodings.
func DERJoin(ts ...[]byte) []byte {
	var out []byte
	for _, t := range ts {
		out = append(out, t...)
	}
	return out
}

// StripRSANull re-encodes a certificate whose subject key is RSA with the AlgorithmIdentifier NULL parameter removed
// from the SubjectPublicKeyInfo (the pre-4.3.3 YubiKey firmware shape). The signature is left untouched.
func StripRSANull(cert []byte) ([]byte, error) {
	top, rest, err := DERParse(cert)
	if err != nil || len(rest) != 0 {
		return nil, errors.New("cert")
	}
	parts, err := DERChildren(top.Content)
	if err != nil || len(parts) != 3 {
		return nil, errors.New("cert parts")
	}
	tbs, err := DERChildren(parts[0].Content)
	if err != nil {
		return nil, err
	}
	idx := 5
	if len(tbs) > 0 && tbs[0].Tag == 0xa0 {
		idx = 6
	}
	if len(tbs) <= idx {
		return nil, errors.New("tbs")
	}
	spki, err := DERChildren(tbs[idx].Content)
	if err != nil || len(spki) != 2 {
		return nil, errors.New("spki")
	}
	alg, err := DERChildren(spki[0].Content)
	if err != nil || len(alg) != 2 || alg[1].Tag != 0x05 {
		return nil, errors.New("algorithm identifier has no NULL")
	}
	newAlg := DEREncode(0x30, alg[0].Full)
	newSPKI := DEREncode(0x30, DERJoin(newAlg, spki[1].Full))
	var tb []byte
	for i, t := range tbs {
		if i == idx {
			tb = append(tb, newSPKI...)
		} else {
			tb = append(tb, t.Full...)
		}
	}
	newTBS := DEREncode(0x30, tb)
	return DEREncode(0x30, DERJoin(newTBS, parts[1].Full, parts[2].Full)), nil
}

// WithUniqueIDs re-encodes a certificate with issuerUniqueID [1] and/or subjectUniqueID [2] inserted between the
// SubjectPublicKeyInfo and the extensions (legal X.509 v2/v3 members that crypto/x509's encoder never emits). The
// signature is left untouched (parsers do not verify it).
func WithUniqueIDs(cert []byte, issuer, subject bool) ([]byte, error) {
	top, rest, err := DERParse(cert)
	if err != nil || len(rest) != 0 {
		return nil, errors.New("cert")
	}
	parts, err := DERChildren(top.Content)
	if err != nil || len(parts) != 3 {
		return nil, errors.New("cert parts")
	}
	tbs, err := DERChildren(parts[0].Content)
	if err != nil {
		return nil, err
	}
	idx := 5
	if len(tbs) > 0 && tbs[0].Tag == 0xa0 {
		idx = 6
	}
	if len(tbs) <= idx {
		return nil, errors.New("tbs")
	}
	var tb []byte
	for i, t := range tbs {
		tb = append(tb, t.Full...)
		if i == idx {
			if issuer {
				tb = append(tb, DEREncode(0x81, []byte{0x00, 0xde, 0xad, 0xbe, 0xef})...)
			}
			if subject {
				tb = append(tb, DEREncode(0x82, []byte{0x00, 0x01, 0x02})...)
			}
		}
	}
	return DEREncode(0x30, DERJoin(DEREncode(0x30, tb), parts[1].Full, parts[2].Full)), nil
}
