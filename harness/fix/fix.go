//go:build verif

// Package fix provides deterministic key fixtures and small certificate builders (SSH and X.509).
package fix

import (
	"crypto"
	"crypto/ecdsa"
	"crypto/ed25519"
	"crypto/rand"
	"crypto/rsa"
	"crypto/x509"
	"crypto/x509/pkix"
	"encoding/pem"
	"fmt"
	"math/big"
	"sync"
	"time"

	"golang.org/x/crypto/ssh"
)

var (
	mu    sync.Mutex
	cache = map[string]any{}
)

func memo(key string, f func() any) any {
	mu.Lock()
	defer mu.Unlock()
	if v, ok := cache[key]; ok {
		return v
	}
	v := f()
	cache[key] = v
	return v
}

// RSA returns the RSA fixture key of the given size.
func RSA(bits int) *rsa.PrivateKey {
	return memo(fmt.Sprint("rsa", bits), func() any {
		b, _ := pem.Decode([]byte(RSAPEM[bits]))
		if b == nil {
			panic(fmt.Sprint("no RSA fixture ", bits))
		}
		k, err := x509.ParsePKCS1PrivateKey(b.Bytes)
		if err != nil {
			panic(err)
		}
		k.Precompute()
		return k
	}).(*rsa.PrivateKey)
}

// EC returns the ECDSA fixture key on the curve of the given size (256, 384, 521).
func EC(bits int) *ecdsa.PrivateKey {
	return memo(fmt.Sprint("ec", bits), func() any {
		b, _ := pem.Decode([]byte(ECPEM[bits]))
		k, err := x509.ParseECPrivateKey(b.Bytes)
		if err != nil {
			panic(err)
		}
		return k
	}).(*ecdsa.PrivateKey)
}

// Ed returns the i-th Ed25519 fixture key.
func Ed(i int) ed25519.PrivateKey {
	return memo(fmt.Sprint("ed", i), func() any {
		b, _ := pem.Decode([]byte(EdPEM[i]))
		k, err := x509.ParsePKCS8PrivateKey(b.Bytes)
		if err != nil {
			panic(err)
		}
		return k.(ed25519.PrivateKey)
	}).(ed25519.PrivateKey)
}

// Signer wraps a fixture private key as an ssh.Signer.
func Signer(priv any) ssh.Signer {
	s, err := ssh.NewSignerFromKey(priv)
	if err != nil {
		panic(err)
	}
	return s
}

// Pub returns the ssh public key of a fixture private key.
func Pub(priv any) ssh.PublicKey { return Signer(priv).PublicKey() }

// SSHCA is the SSH certificate authority used for fixtures (Ed25519, deterministic signatures).
func SSHCA() ssh.Signer { return Signer(Ed(5)) }

// SSHCert builds a user certificate for subject, signed by the fixture CA.
func SSHCert(subject ssh.PublicKey, keyID string, va, vb uint64, crit map[string]string, prins ...string) *ssh.Certificate {
	c := &ssh.Certificate{
		Key: subject, Serial: 1, CertType: ssh.UserCert, KeyId: keyID, ValidPrincipals: prins,
		ValidAfter: va, ValidBefore: vb,
		Permissions: ssh.Permissions{CriticalOptions: crit, Extensions: map[string]string{"permit-pty": ""}},
	}
	if err := c.SignCert(rand.Reader, SSHCA()); err != nil {
		panic(err)
	}
	// normalise through the wire form so that blobs are canonical
	p, err := ssh.ParsePublicKey(c.Marshal())
	if err != nil {
		panic(err)
	}
	return p.(*ssh.Certificate)
}

// X509Template returns a minimal certificate template.
func X509Template(cn string, serial int64, notBefore, notAfter time.Time, ca bool) *x509.Certificate {
	return &x509.Certificate{
		SerialNumber: big.NewInt(serial), Subject: pkix.Name{CommonName: cn, Organization: []string{"verif"}},
		NotBefore: notBefore, NotAfter: notAfter, IsCA: ca, BasicConstraintsValid: ca,
		KeyUsage: x509.KeyUsageDigitalSignature | x509.KeyUsageCertSign,
	}
}

// X509Issue creates and parses a certificate.
func X509Issue(tmpl, parent *x509.Certificate, pub crypto.PublicKey, parentKey crypto.Signer) *x509.Certificate {
	der, err := x509.CreateCertificate(rand.Reader, tmpl, parent, pub, parentKey)
	if err != nil {
		panic(err)
	}
	c, err := x509.ParseCertificate(der)
	if err != nil {
		panic(err)
	}
	return c
}

// PEMCert encodes a certificate as PEM.
func PEMCert(der []byte) []byte {
	return pem.EncodeToMemory(&pem.Block{Type: "CERTIFICATE", Bytes: der})
}
