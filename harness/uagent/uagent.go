//go:build verif

// Package uagent is the underlying ssh-agent the code under test talks to: a boring in-memory keyring (the ground
// truth for "identities of the underlying agent") behind a wire-level reactor with a request log and a fault plan.
package uagent

import (
	"strings"
	"bytes"
	"crypto/rand"
	"crypto/subtle"
	"encoding/binary"
	"errors"
	"fmt"
	"io"
	"net"
	"sort"

	"golang.org/x/crypto/ssh"
	"golang.org/x/crypto/ssh/agent"

	"github.com/theparanoids/ysshra/zzverifrt/vnet"
)

// Ident is one identity held by the keyring.
type Ident struct {
	Blob     []byte
	Comment  string
	Lifetime uint32
	Confirm  bool
	signer   ssh.Signer
}

// Keyring is a plain reference implementation of agent.ExtendedAgent with full introspection.
type Keyring struct {
	Keys       []Ident
	Locked     bool
	Passphrase []byte
	// Ext answers extension requests (nil: unsupported).
	Ext func(typ string, contents []byte) ([]byte, error)
	// AddLog records every Add that reached the keyring (also when refused because locked).
	AddLog []Ident
}

var errLocked = errors.New("agent: locked")

func (r *Keyring) RemoveAll() error {
	if r.Locked {
		return errLocked
	}
	r.Keys = nil
	return nil
}

func (r *Keyring) Remove(key ssh.PublicKey) error {
	if r.Locked {
		return errLocked
	}
	return r.RemoveBlob(key.Marshal())
}

// RemoveBlob removes directly (behind the back of any client).
func (r *Keyring) RemoveBlob(want []byte) error {
	found := false
	var out []Ident
	for _, k := range r.Keys {
		if bytes.Equal(k.Blob, want) {
			found = true
			continue
		}
		out = append(out, k)
	}
	r.Keys = out
	if !found {
		return errors.New("agent: key not found")
	}
	return nil
}

func (r *Keyring) Lock(p []byte) error {
	if r.Locked {
		return errLocked
	}
	r.Locked, r.Passphrase = true, append([]byte{}, p...)
	return nil
}

func (r *Keyring) Unlock(p []byte) error {
	if !r.Locked {
		return errors.New("agent: not locked")
	}
	if subtle.ConstantTimeCompare(p, r.Passphrase) != 1 {
		return errors.New("agent: incorrect passphrase")
	}
	r.Locked, r.Passphrase = false, nil
	return nil
}

func (r *Keyring) List() ([]*agent.Key, error) {
	if r.Locked {
		return nil, nil
	}
	var ids []*agent.Key
	for _, k := range r.Keys {
		pub, err := ssh.ParsePublicKey(k.Blob)
		if err != nil {
			return nil, err
		}
		ids = append(ids, &agent.Key{Format: pub.Type(), Blob: k.Blob, Comment: k.Comment})
	}
	return ids, nil
}

func (r *Keyring) Add(key agent.AddedKey) error {
	signer, err := ssh.NewSignerFromKey(key.PrivateKey)
	if err != nil {
		return err
	}
	if key.Certificate != nil {
		if signer, err = ssh.NewCertSigner(key.Certificate, signer); err != nil {
			return err
		}
	}
	id := Ident{Blob: signer.PublicKey().Marshal(), Comment: key.Comment, Lifetime: key.LifetimeSecs, Confirm: key.ConfirmBeforeUse, signer: signer}
	r.AddLog = append(r.AddLog, id)
	if r.Locked {
		return errLocked
	}
	for i, k := range r.Keys {
		if bytes.Equal(k.Blob, id.Blob) {
			r.Keys[i] = id
			return nil
		}
	}
	r.Keys = append(r.Keys, id)
	return nil
}

// AddSigner puts an identity into the keyring directly (key types the agent protocol's add request cannot carry, such as
// security keys); cert may be nil.
func (r *Keyring) AddSigner(signer ssh.Signer, cert *ssh.Certificate, comment string) error {
	if cert != nil {
		var err error
		if signer, err = ssh.NewCertSigner(cert, signer); err != nil {
			return err
		}
	}
	id := Ident{Blob: signer.PublicKey().Marshal(), Comment: comment, signer: signer}
	for i, k := range r.Keys {
		if bytes.Equal(k.Blob, id.Blob) {
			r.Keys[i] = id
			return nil
		}
	}
	r.Keys = append(r.Keys, id)
	return nil
}

func (r *Keyring) Sign(key ssh.PublicKey, data []byte) (*ssh.Signature, error) {
	return r.SignWithFlags(key, data, 0)
}

func (r *Keyring) SignWithFlags(key ssh.PublicKey, data []byte, flags agent.SignatureFlags) (*ssh.Signature, error) {
	if r.Locked {
		return nil, errLocked
	}
	want := key.Marshal()
	for _, k := range r.Keys {
		if !bytes.Equal(k.Blob, want) {
			continue
		}
		if flags == 0 {
			return k.signer.Sign(rand.Reader, data)
		}
		as, ok := k.signer.(ssh.AlgorithmSigner)
		if !ok {
			return nil, fmt.Errorf("agent: signer does not support flags")
		}
		switch flags {
		case agent.SignatureFlagRsaSha256:
			return as.SignWithAlgorithm(rand.Reader, data, ssh.KeyAlgoRSASHA256)
		case agent.SignatureFlagRsaSha512:
			return as.SignWithAlgorithm(rand.Reader, data, ssh.KeyAlgoRSASHA512)
		}
		return nil, fmt.Errorf("agent: unsupported signature flags: %d", flags)
	}
	return nil, errors.New("not found")
}

func (r *Keyring) Signers() ([]ssh.Signer, error) {
	if r.Locked {
		return nil, errLocked
	}
	var s []ssh.Signer
	for _, k := range r.Keys {
		s = append(s, k.signer)
	}
	return s, nil
}

func (r *Keyring) Extension(typ string, contents []byte) ([]byte, error) {
	if r.Ext == nil {
		return nil, agent.ErrExtensionUnsupported
	}
	return r.Ext(typ, contents)
}

// Has reports whether blob is held.
func (r *Keyring) Has(blob []byte) bool {
	for _, k := range r.Keys {
		if bytes.Equal(k.Blob, blob) {
			return true
		}
	}
	return false
}

// Canon is a canonical, order-independent rendering of the keyring (for state keys).
func (r *Keyring) Canon(name func(blob []byte) string) string {
	var s []string
	for _, k := range r.Keys {
		s = append(s, name(k.Blob)+"="+k.Comment)
	}
	sort.Strings(s)
	return fmt.Sprintf("%v|locked=%v:%x", s, r.Locked, r.Passphrase)
}

// Fault kinds.
const (
	FaultNone      = ""
	FaultFailure   = "failure"   // SSH_AGENT_FAILURE
	FaultEmpty     = "empty"     // zero-length frame
	FaultUnknown   = "unknown"   // unknown type byte
	FaultTruncated = "truncated" // right type byte for the request, body cut short
	FaultOversized = "oversized" // length prefix above 16 MiB, then the peer goes away
	FaultClose     = "close"     // connection closed without a reply
	FaultHuge      = "huge"      // length prefix 2^32-16, then the peer goes away
	FaultHang      = "hang"      // no reply at all and the connection stays open (only used under the scheduler)
	FaultWrongType = "wrongtype" // a well-formed reply of another message type: x/crypto's agent client panics on it by design (not in AllFaults)
)

// AllFaults lists the fault kinds in simplest-first order.
var AllFaults = []string{FaultFailure, FaultClose, FaultEmpty, FaultUnknown, FaultTruncated, FaultOversized, FaultHuge}

// Req is one logged request.
type Req struct {
	Index int
	Code  byte
	Body  []byte
	Fault string
}

// Agent is a keyring behind the wire protocol.
type Agent struct {
	Ring *Keyring
	Log  []Req
	// Plan maps a request index (counted over the life of the Agent, across connections) to a fault kind.
	Plan map[int]string
	// PlanByCode injects a fault on the n-th (0-based) request with a given code: key = code, value = {n: kind}.
	PlanByCode map[byte]map[int]string
	codeSeen   map[byte]int
	// Raw, when set, answers frames the reactor does not want ServeAgent to see (e.g. unknown codes for Forward tests).
	Raw func(frame []byte) ([]byte, bool)
	// OnRequest, when set, sees every request (index, frame, fault about to be applied) before it is answered.
	OnRequest func(idx int, frame []byte, fault string)
	// Conns records every reactor connection handed out.
	Conns []*vnet.Reactor
}

// New returns an agent over an empty keyring.
func New() *Agent {
	return &Agent{Ring: &Keyring{}, Plan: map[int]string{}, PlanByCode: map[byte]map[int]string{}, codeSeen: map[byte]int{}}
}

type oneShot struct {
	io.Reader
	io.Writer
}

// Serve answers one request frame honestly (framed reply).
func (a *Agent) Serve(frame []byte) []byte {
	if a.Raw != nil {
		if rep, ok := a.Raw(frame); ok {
			return vnet.Frame(rep)
		}
	}
	var out bytes.Buffer
	in := bytes.NewBuffer(vnet.Frame(frame))
	func() {
		defer func() {
			if r := recover(); r != nil {
				// x/crypto's server can panic on malformed constraint bytes; an honest agent answers failure
				out.Reset()
				out.Write(vnet.Frame([]byte{5}))
			}
		}()
		agent.ServeAgent(a.Ring, oneShot{in, &out})
	}()
	if out.Len() == 0 {
		return vnet.Frame([]byte{5})
	}
	return out.Bytes()
}

// Handle is the reactor handler: logs, applies the fault plan, answers.
func (a *Agent) Handle(frame []byte) vnet.Reply {
	idx := len(a.Log)
	var code byte
	if len(frame) > 0 {
		code = frame[0]
	}
	fault := a.Plan[idx]
	if m := a.PlanByCode[code]; m != nil {
		if f, ok := m[a.codeSeen[code]]; ok && fault == "" {
			fault = f
		}
	}
	a.codeSeen[code]++
	a.Log = append(a.Log, Req{Index: idx, Code: code, Body: append([]byte{}, frame...), Fault: fault})
	if a.OnRequest != nil {
		a.OnRequest(idx, frame, fault)
	}
	if strings.HasPrefix(fault, "cutframe:") {
		// a reply whose length prefix announces <announced> bytes, of which only <sent> arrive before the connection ends
		var announced, sent int
		fmt.Sscanf(fault, "cutframe:%d:%d", &announced, &sent)
		raw := []byte{byte(announced >> 24), byte(announced >> 16), byte(announced >> 8), byte(announced)}
		return vnet.Reply{Raw: append(raw, bytes.Repeat([]byte{0xee}, sent)...), Close: true}
	}
	if strings.HasPrefix(fault, "bigreply:") {
		var n int
		fmt.Sscanf(fault, "bigreply:%d", &n)
		return vnet.Reply{Raw: vnet.Frame(bytes.Repeat([]byte{0xee}, n))} // a complete reply of n bytes
	}
	switch fault {
	case FaultFailure:
		return vnet.Reply{Raw: vnet.Frame([]byte{5})}
	case FaultEmpty:
		return vnet.Reply{Raw: vnet.Frame(nil)}
	case FaultUnknown:
		return vnet.Reply{Raw: vnet.Frame([]byte{0xee, 1, 2, 3})}
	case FaultTruncated:
		var b []byte
		switch code {
		case 11: // identities answer claiming 3 keys, no data
			b = []byte{12, 0, 0, 0, 3}
		case 13: // sign response with a blob length and no blob
			b = []byte{14, 0, 0, 0, 9, 1}
		default:
			b = []byte{12, 0}
		}
		return vnet.Reply{Raw: vnet.Frame(b)}
	case FaultOversized:
		var l [4]byte
		binary.BigEndian.PutUint32(l[:], 16<<20+1)
		return vnet.Reply{Raw: l[:], Close: true}
	case FaultHuge:
		return vnet.Reply{Raw: []byte{0xff, 0xff, 0xff, 0xf0}, Close: true}
	case FaultClose:
		return vnet.Reply{Close: true}
	case FaultWrongType:
		if code == 11 {
			return vnet.Reply{Raw: vnet.Frame([]byte{14, 0, 0, 0, 0})} // a sign response to an identities request
		}
		return vnet.Reply{Raw: vnet.Frame([]byte{12, 0, 0, 0, 0})} // an identities answer to anything else
	case FaultHang:
		return vnet.Reply{}
	}
	return vnet.Reply{Raw: a.Serve(frame)}
}

// Conn returns a fresh reactor connection to this agent.
func (a *Agent) Conn(name string) *vnet.Reactor {
	r := &vnet.Reactor{Handler: a.Handle, Name: name}
	a.Conns = append(a.Conns, r)
	return r
}

// Listen registers the agent under an in-memory address for the dial seam.
func (a *Agent) Listen(addr string) {
	vnet.Register(addr, func() (net.Conn, error) { return a.Conn(addr), nil })
}
