//go:build verif

// Package introspect reads private state of objects under test with a generic reflection walk. No unexported
// identifier of the code under test is named here: fields are discovered by kind, so renames and added fields keep
// both the build and the state key sound (new fields are included automatically).
package introspect

import (
	"crypto/sha256"
	"encoding/hex"
	"fmt"
	"reflect"
	"sort"
	"strings"
	"sync"
	"unsafe"

	"golang.org/x/crypto/ssh"
)

func skipType(t reflect.Type) bool {
	switch t.Kind() {
	case reflect.Func, reflect.Chan, reflect.Interface, reflect.UnsafePointer:
		return true
	}
	p := t.PkgPath()
	if p == "sync" || p == "sync/atomic" || strings.HasSuffix(p, "/vsync") {
		return true
	}
	if t.Kind() == reflect.Ptr || t.Kind() == reflect.Array || t.Kind() == reflect.Slice {
		return skipType(t.Elem())
	}
	return false
}

// Dump renders v canonically (maps sorted, byte strings hashed), skipping functions, channels, interfaces and sync types.
func Dump(v any) string {
	var sb strings.Builder
	dump(&sb, reflect.ValueOf(v), 0)
	return sb.String()
}

func dump(sb *strings.Builder, v reflect.Value, depth int) {
	if depth > 7 {
		sb.WriteString("…")
		return
	}
	if !v.IsValid() {
		sb.WriteString("nil")
		return
	}
	t := v.Type()
	if skipType(t) {
		sb.WriteString("_")
		return
	}
	switch v.Kind() {
	case reflect.Ptr:
		if v.IsNil() {
			sb.WriteString("nil")
			return
		}
		dump(sb, v.Elem(), depth+1)
	case reflect.Struct:
		sb.WriteString("{")
		for i := 0; i < v.NumField(); i++ {
			if skipType(t.Field(i).Type) {
				continue
			}
			sb.WriteString(t.Field(i).Name)
			sb.WriteString(":")
			dump(sb, v.Field(i), depth+1)
			sb.WriteString(";")
		}
		sb.WriteString("}")
	case reflect.Map:
		var ents []string
		it := v.MapRange()
		for it.Next() {
			var e strings.Builder
			dump(&e, it.Key(), depth+1)
			e.WriteString("=>")
			dump(&e, it.Value(), depth+1)
			ents = append(ents, e.String())
		}
		sort.Strings(ents)
		fmt.Fprintf(sb, "map%d[%s]", len(ents), strings.Join(ents, ","))
	case reflect.Slice, reflect.Array:
		if t.Elem().Kind() == reflect.Uint8 {
			b := make([]byte, v.Len())
			for i := range b {
				b[i] = byte(v.Index(i).Uint())
			}
			h := sha256.Sum256(b)
			fmt.Fprintf(sb, "b%d:%s", len(b), hex.EncodeToString(h[:6]))
			return
		}
		sb.WriteString("[")
		for i := 0; i < v.Len(); i++ {
			dump(sb, v.Index(i), depth+1)
			sb.WriteString(",")
		}
		sb.WriteString("]")
	case reflect.Bool:
		fmt.Fprint(sb, v.Bool())
	case reflect.Int, reflect.Int8, reflect.Int16, reflect.Int32, reflect.Int64:
		fmt.Fprint(sb, v.Int())
	case reflect.Uint, reflect.Uint8, reflect.Uint16, reflect.Uint32, reflect.Uint64, reflect.Uintptr:
		fmt.Fprint(sb, v.Uint())
	case reflect.String:
		fmt.Fprintf(sb, "%q", v.String())
	case reflect.Float32, reflect.Float64:
		fmt.Fprint(sb, v.Float())
	default:
		sb.WriteString("?")
	}
}

// CertBlobs finds, in the object v, every map whose values (after dereferencing) are structs and returns, per map
// entry, the first byte-slice field that parses as an SSH certificate. For the shim agent this is its in-memory
// hardware-certificate table, found without naming it.
func CertBlobs(v any) [][]byte {
	var out [][]byte
	rv := reflect.ValueOf(v)
	for rv.Kind() == reflect.Ptr || rv.Kind() == reflect.Interface {
		if rv.IsNil() {
			return nil
		}
		rv = rv.Elem()
	}
	if rv.Kind() != reflect.Struct {
		return nil
	}
	for i := 0; i < rv.NumField(); i++ {
		f := rv.Field(i)
		if f.Kind() != reflect.Map {
			continue
		}
		et := f.Type().Elem()
		for et.Kind() == reflect.Ptr {
			et = et.Elem()
		}
		if et.Kind() != reflect.Struct || et.NumField() == 0 {
			continue
		}
		it := f.MapRange()
		for it.Next() {
			if b := findCert(it.Value(), 0); b != nil {
				out = append(out, b)
			}
		}
	}
	sort.Slice(out, func(i, j int) bool { return string(out[i]) < string(out[j]) })
	return out
}

func findCert(v reflect.Value, depth int) []byte {
	if depth > 3 || !v.IsValid() {
		return nil
	}
	switch v.Kind() {
	case reflect.Ptr:
		if v.IsNil() {
			return nil
		}
		return findCert(v.Elem(), depth+1)
	case reflect.Struct:
		// direct byte-slice fields first
		for i := 0; i < v.NumField(); i++ {
			f := v.Field(i)
			if f.Kind() == reflect.Slice && f.Type().Elem().Kind() == reflect.Uint8 && f.Len() > 0 {
				b := make([]byte, f.Len())
				for j := range b {
					b[j] = byte(f.Index(j).Uint())
				}
				if pk, err := ssh.ParsePublicKey(b); err == nil {
					if _, ok := pk.(*ssh.Certificate); ok {
						return b
					}
				}
			}
		}
	}
	return nil
}

// MapSizes returns the sizes of all map fields of the struct v points to, by field order (vacuity/diagnostics).
func MapSizes(v any) []int {
	rv := reflect.ValueOf(v)
	for rv.Kind() == reflect.Ptr || rv.Kind() == reflect.Interface {
		rv = rv.Elem()
	}
	var out []int
	for i := 0; i < rv.NumField(); i++ {
		if rv.Field(i).Kind() == reflect.Map {
			out = append(out, rv.Field(i).Len())
		}
	}
	return out
}

// LocksHeld walks v (pointers, structs, arrays, slices of structs; depth-bounded) and reports every sync.Mutex /
// sync.RWMutex field that cannot be acquired right now. Call it only when nothing else can legitimately hold them (a
// single-threaded phase, after an operation returned): a held lock is then a lock some call forgot to release, and the next
// caller would block for ever. Fields are found by type; no identifier of the code under test is named.
func LocksHeld(v any) []string {
	var out []string
	seen := map[uintptr]bool{}
	var walk func(rv reflect.Value, path string, depth int)
	walk = func(rv reflect.Value, path string, depth int) {
		if depth > 6 || !rv.IsValid() {
			return
		}
		switch rv.Kind() {
		case reflect.Ptr, reflect.Interface:
			if rv.IsNil() {
				return
			}
			if rv.Kind() == reflect.Ptr {
				if seen[rv.Pointer()] {
					return
				}
				seen[rv.Pointer()] = true
			}
			walk(rv.Elem(), path, depth+1)
		case reflect.Struct:
			t := rv.Type()
			if t.PkgPath() == "sync" && rv.CanAddr() {
				p := unsafe.Pointer(rv.UnsafeAddr())
				switch t.Name() {
				case "Mutex":
					m := (*sync.Mutex)(p)
					if m.TryLock() {
						m.Unlock()
					} else {
						out = append(out, path+" (sync.Mutex)")
					}
				case "RWMutex":
					m := (*sync.RWMutex)(p)
					if m.TryLock() {
						m.Unlock()
					} else {
						out = append(out, path+" (sync.RWMutex)")
					}
				}
				return
			}
			if strings.HasPrefix(t.PkgPath(), "sync") || strings.HasPrefix(t.PkgPath(), "crypto") || strings.HasPrefix(t.PkgPath(), "math") || strings.HasPrefix(t.PkgPath(), "net") {
				return
			}
			for i := 0; i < rv.NumField(); i++ {
				walk(rv.Field(i), path+"."+t.Field(i).Name, depth+1)
			}
		case reflect.Array, reflect.Slice:
			if rv.Len() > 64 || rv.Len() == 0 {
				return
			}
			k := rv.Type().Elem().Kind()
			if k != reflect.Struct && k != reflect.Ptr && k != reflect.Interface {
				return
			}
			for i := 0; i < rv.Len(); i++ {
				walk(rv.Index(i), fmt.Sprintf("%s[%d]", path, i), depth+1)
			}
		}
	}
	walk(reflect.ValueOf(v), reflect.TypeOf(v).String(), 0)
	return out
}
