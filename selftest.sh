#!/bin/bash
# selftest.sh [pattern] : apply every change under mutants/ (own seeded property-breaking changes) to a scratch worktree of
# /repo outside /repo and /verif, run the repository's tests there, run the corresponding quick check against it and
# record whether it reports a VIOLATION. Results go to mutants/RESULTS.tsv. Scratch worktrees are removed after each step.
set -u
V="$(cd "$(dirname "${BASH_SOURCE[0]}")" && pwd)"
pat="${1:-}"
out="$V/mutants/RESULTS.tsv"
tmp="$(mktemp)"
printf "mutant\tproperty\trepo_tests\tdetected\tviolation_keys\n" > "$tmp"
for m in "$V"/mutants/*${pat}*.diff; do
  name="$(basename "$m" .diff)"
  id="${name%%-*}"
  log="$(timeout 1500 "$V/tools/mutant.sh" -t "$m" "$id" 2>&1)"
  tests="fail"; echo "$log" | grep -q "^TESTS pass" && tests="pass"
  det="no"; echo "$log" | grep -q "exit=1" && det="yes"
  echo "$log" | grep -q "exit=2" && det="build-failure"
  wt_keys="$(echo "$log" | grep -o 'key=[^ ]*' | sort -u | head -4 | tr '\n' ' ')"
  printf "%s\t%s\t%s\t%s\t%s\n" "$name" "$id" "$tests" "$det" "$wt_keys" | tee -a "$tmp"
done
mv "$tmp" "$out"
