#!/bin/bash
# selftest.sh [pattern] : apply every change under mutants/ (own seeded property-breaking changes) to a scratch worktree of
# /repo outside /repo and /verif, run the repository's tests there, run the corresponding quick check against it and
# record whether it reports a VIOLATION. Results go to mutants/RESULTS.tsv (rows of mutants not matched by the pattern are
# kept). Scratch worktrees are removed after each step. SELFTEST_JOBS (default 4) mutants run at a time.
set -u
V="$(cd "$(dirname "${BASH_SOURCE[0]}")" && pwd)"
pat="${1:-}"
out="$V/mutants/RESULTS.tsv"
dir="$(mktemp -d)"
one() {
  m="$1"; V="$2"; dir="$3"
  name="$(basename "$m" .diff)"
  id="${name%%-*}"
  log="$(timeout 1500 "$V/tools/mutant.sh" -t "$m" "$id" 2>&1)"; trc=$?
  tests="fail"; echo "$log" | grep -q "^TESTS pass" && tests="pass"
  det="no"; echo "$log" | grep -q "exit=1" && det="yes"
  echo "$log" | grep -q "exit=2" && det="build-failure"
  [ "$trc" = 124 ] && [ "$det" = no ] && det="timeout"
  wt_keys="$(echo "$log" | grep -o 'key=[^ ]*' | sort -u | head -4 | tr '\n' ' ')"
  printf "%s\t%s\t%s\t%s\t%s\n" "$name" "$id" "$tests" "$det" "$wt_keys" | tee "$dir/$name.row"
}
export -f one
ls "$V"/mutants/*${pat}*.diff | xargs -P "${SELFTEST_JOBS:-4}" -I{} bash -c 'one "$@"' _ {} "$V" "$dir"
{
  printf "mutant\tproperty\trepo_tests\tdetected\tviolation_keys\n"
  {
    cat "$dir"/*.row 2>/dev/null
    # keep earlier rows of mutants that were not re-run and still exist
    if [ -f "$out" ]; then
      tail -n +2 "$out" | while IFS=$'\t' read -r name rest; do
        [ -f "$dir/$name.row" ] || { [ -f "$V/mutants/$name.diff" ] && printf "%s\t%s\n" "$name" "$rest"; }
      done
    fi
  } | sort
} > "$out.new" && mv "$out.new" "$out"
rm -rf "$dir"
awk -F'\t' 'NR>1{n++; if($4=="yes")d++; if($3=="pass")p++} END{printf "mutants=%d detected=%d pass_repo_tests=%d\n", n, d, p}' "$out"
