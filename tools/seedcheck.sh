#!/bin/bash
# seedcheck.sh <property-id> <agent-worktree> [name] : independently confirm a sub-agent's property-breaking change
# (applies cleanly to /repo HEAD, existing tests pass with it, its demonstration fails with it and passes without it),
# run the property's quick check against it, and file it under /verif/seeded/<name>/.
set -u
V="$(cd "$(dirname "${BASH_SOURCE[0]}")/.." && pwd)"
id="$1"; src="$2"; name="${3:-$id}"
export GOFLAGS=-mod=mod GOPROXY=off GOTOOLCHAIN=local
[ -f "$src/patch.diff" ] || { echo "no patch.diff in $src"; exit 2; }
demos="$(cd "$src" && git status --porcelain | grep -E '^\?\? ' | awk '{print $2}' | grep -E '_test\.go$|/$|\.go$' | grep -v '^patch.diff$' | grep -v NOTES.md | grep -v TASK.md)"
wt="$(mktemp -d /tmp/vseed.XXXXXX)"
git -C /repo worktree add --detach -q "$wt" HEAD || exit 2
cleanup() { git -C /repo worktree remove --force "$wt" 2>/dev/null; rm -rf "$wt"; git -C /repo worktree prune; }
trap cleanup EXIT
for d in $demos; do mkdir -p "$wt/$(dirname "$d")"; cp -r "$src/$d" "$wt/$d"; done
pkgs="$(for d in $demos; do dirname "$d"; done | sort -u | sed 's#^#./#')"
echo "demo files: $demos ; packages: $pkgs"
(cd "$wt" && go test -vet=off -count=1 -timeout 300s $pkgs > "$wt/.demo_without.log" 2>&1); demo_without=$?
(cd "$wt" && git apply "$src/patch.diff") || { echo "PATCH DOES NOT APPLY"; exit 2; }
(cd "$wt" && go test -vet=off -count=1 -timeout 300s $pkgs > "$wt/.demo_with.log" 2>&1); demo_with=$?
for d in $demos; do rm -rf "$wt/$d"; done
(cd "$wt" && go test -vet=off -count=1 -timeout 400s ./... > "$wt/.suite.log" 2>&1); suite=$?
(cd "$wt" && git checkout -q -- go.mod go.sum 2>/dev/null)
echo "demo without change: exit=$demo_without (want 0); demo with change: exit=$demo_with (want !=0); suite with change: exit=$suite (want 0)"
out="$(VERIF_REPO="$wt" VERIF_EVIDENCE_DIR="$wt/.evidence" timeout 1800 "$V/run.sh" "$id" quick 2>&1)"; rc=$?
keys="$(echo "$out" | grep -o 'key=[^ ]*' | sort -u | head -6 | tr '\n' ' ')"
echo "check $id quick: exit=$rc $keys"
echo "$out" | grep -E "^  [A-Za-z]" | head -4
confirmed=false; [ $demo_without = 0 ] && [ $demo_with != 0 ] && [ $suite = 0 ] && confirmed=true
mkdir -p "$V/seeded/$name"
cp "$src/patch.diff" "$V/seeded/$name/patch.diff"
for d in $demos; do cp -r "$src/$d" "$V/seeded/$name/$(basename "$d")"; done
[ -f "$src/NOTES.md" ] && cp "$src/NOTES.md" "$V/seeded/$name/NOTES.md"
python3 - "$V/seeded/$name/meta.json" "$id" "$confirmed" "$demo_without" "$demo_with" "$suite" "$rc" "$keys" "$demos" <<'PY'
import json, sys
p, pid, conf, dwo, dw, suite, rc, keys, demos = sys.argv[1:10]
json.dump({"property": pid, "confirmed_independently": conf == "true",
  "demo_exit_without_change": int(dwo), "demo_exit_with_change": int(dw), "existing_suite_exit_with_change": int(suite),
  "demonstration_files": demos.split(), "needs_to_manifest": "see NOTES.md",
  "ran": ["git apply patch.diff on a scratch worktree of /repo HEAD", "go test <demo package> without/with the change", "go test ./... with the change (demo removed)", f"./run.sh {pid} quick with VERIF_REPO=<scratch worktree>"],
  "check_exit": int(rc), "detected_by_quick_check": int(rc) == 1, "violation_keys": keys.split()}, open(p, "w"), indent=1)
PY
cat "$V/seeded/$name/meta.json" | head -30
