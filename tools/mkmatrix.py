#!/usr/bin/env python3
"""Regenerates section 10 of DESIGN.md (between the MATRIX markers) from mutants/RESULTS.tsv and seeded/*/meta.json."""
import json, glob, os, csv
V = os.path.dirname(os.path.dirname(os.path.abspath(__file__)))
out = []
out.append("### 10.1 Changes written by independent sub-agents (`/verif/seeded/<name>/`)\n")
out.append("Each sub-agent saw only the text of one property and its own scratch worktree of `/repo`; I re-confirmed every change myself in a fresh scratch worktree with `tools/seedcheck.sh` (patch applies to `/repo` HEAD; the 218 tests pass with it; the agent's demonstration fails with it and passes without it) before running the property's quick check against it.\n")
out.append("| seeded change | property | what it needs to manifest | confirmed | quick check (now) | first version of the check | violation keys reported |")
out.append("|---|---|---|---|---|---|---|")
for d in sorted(glob.glob(os.path.join(V, "seeded", "*"))):
    mp = os.path.join(d, "meta.json")
    if not os.path.exists(mp):
        continue
    m = json.load(open(mp))
    need = m.get("needs_to_manifest", "")
    first = "missed — " + m.get("strengthening", "") if m.get("missed_by_first_version_of_check") else "detected"
    out.append("| `%s` | %s | %s | %s | %s | %s | %s |" % (os.path.basename(d), m["property"], need, "yes" if m["confirmed_independently"] else "NO",
               "**detected**" if m["detected_by_quick_check"] else ("own check: not in its scope — **detected by " + m["detected_by_other_check"] + "**" if m.get("detected_by_other_check") else "missed"), first if m["detected_by_quick_check"] else "—", " ".join("`%s`" % k.replace("key=", "") for k in m["violation_keys"][:3])))
out.append("")
out.append("### 10.2 My own property-breaking changes (`/verif/mutants/*.diff`, run by `selftest.sh`)\n")
out.append("`repo tests` = whether the repository's own 218 tests still pass with the change (changes that the tests already kill are kept as detection demonstrations only).\n")
out.append("| change | property | repo tests | quick check | first violation keys |")
out.append("|---|---|---|---|---|")
rp = os.path.join(V, "mutants", "RESULTS.tsv")
if os.path.exists(rp):
    for r in csv.DictReader(open(rp), delimiter="\t"):
        out.append("| `%s` | %s | %s | %s | %s |" % (r["mutant"], r["property"], r["repo_tests"], "**detected**" if r["detected"] == "yes" else r["detected"],
                   " ".join("`%s`" % k.replace("key=", "") for k in r["violation_keys"].split()[:2])))
block = "\n".join(out) + "\n"
p = os.path.join(V, "DESIGN.md")
s = open(p).read()
a, b = "<!-- MATRIX-BEGIN -->", "<!-- MATRIX-END -->"
i, j = s.index(a) + len(a), s.index(b)
open(p, "w").write(s[:i] + "\n" + block + s[j:])
print("matrix rows:", len(out))
