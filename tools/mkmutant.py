#!/usr/bin/env python3
"""mkmutant.py <out.diff> <file> <old> <new> [<file> <old> <new> ...] : build a git-style patch against /repo HEAD content
by exact string replacement (old must occur exactly once unless prefixed with 'ALL:')."""
import sys, difflib, subprocess
out = sys.argv[1]; args = sys.argv[2:]
patch = ""
files = {}
for i in range(0, len(args), 3):
    f, old, new = args[i:i+3]
    src = files.get(f) or subprocess.check_output(["git", "-C", "/repo", "show", "HEAD:" + f]).decode()
    if old.startswith("ALL:"):
        old = old[4:]; assert old in src, (f, old)
        dst = src.replace(old, new)
    else:
        assert src.count(old) == 1, (f, old, src.count(old))
        dst = src.replace(old, new)
    files[f] = dst
for f, dst in files.items():
    src = subprocess.check_output(["git", "-C", "/repo", "show", "HEAD:" + f]).decode()
    d = difflib.unified_diff(src.splitlines(True), dst.splitlines(True), "a/" + f, "b/" + f)
    patch += "".join(d)
open(out, "w").write(patch)
print("wrote", out)
