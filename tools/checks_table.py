# Table consumed by mkmanifest.py
NA = {}
NOTES = "All checks are bounded exhaustive explorations of the real code of /repo's working tree (see DESIGN.md). VERIF_SEED only permutes shard order; nothing is sampled in a deciding step."
ENGINES = [
 {"name": "E1-bfs", "path": "harness/bfs", "serves_properties": ["C03", "C07", "C08", "C09", "C10"], "kind_free_text": "explicit-state BFS over operation histories of the real object; successor = replay on a fresh instance + one operation; dedup on canonical reflected state"},
 {"name": "E2-sched", "path": "harness/rt/sched", "serves_properties": ["C11", "C20"], "kind_free_text": "stateless CHESS-style cooperative scheduler DFS with iterative preemption bounding over real goroutines; sync/conn operations are scheduling points"},
 {"name": "E3-enum", "path": "harness/cmd", "serves_properties": ["C01", "C02", "C04", "C05", "C06", "C12", "C13", "C14", "C15", "C16", "C17", "C18", "C19"], "kind_free_text": "bounded exhaustive enumeration of inputs / configurations / fault vectors (deviation bounded) against a reference oracle"},
]
chk("C19", "exploration", "E3-enum", "complete enumeration of the finite KeyID attribute space against a decision table",
    "Every point of the attribute space named in the property (4 flags x in/out-of-range touch policies x usages x versions x critical-option states x principal lists), the undecodable-KeyID catalogue and the nil certificate are run through the real GetType/Label/GetPrincipals and compared with a decision table written from the statement; the space is finite and is enumerated completely.",
    "Trusted: the harness-built KeyID JSON texts and the decision table transcribed from the property statement; strings outside the 3-value transaction-id alphabet are not varied.", "DESIGN.md 4/C19")
