// mkoverlay generates a `go build -overlay` file that (a) maps the harness sources under
// <verif>/harness into virtual packages of the ysshra module and (b) replaces the files of
// selected packages of the *current* working tree by copies in which one import path per
// seam is redirected to a shim package. Line numbers are preserved (the path literal is
// rewritten in place). Stdlib only.
package main

import (
	"encoding/json"
	"flag"
	"fmt"
	"go/parser"
	"go/token"
	"os"
	"os/exec"
	"path/filepath"
	"sort"
	"strconv"
	"strings"
)

const modPath = "github.com/theparanoids/ysshra"

type seam struct {
	// dir is relative to the repo root, or "mod:<module>:<relative file>" for one file of a dependency.
	dir      string
	from, to string
}

var (
	clock  = func(dir string) seam { return seam{dir, "time", modPath + "/zzverifrt/vtime"} }
	sched  = func(dir string) seam { return seam{dir, "sync", modPath + "/zzverifrt/vsync"} }
	dial   = func(dir string) seam { return seam{dir, "net", modPath + "/zzverifrt/vnet"} }
	csprng = func(dir string) seam { return seam{dir, "crypto/rand", modPath + "/zzverifrt/vrand"} }
	jitter = func(dir string) seam { return seam{dir, "math/rand", modPath + "/zzverifrt/vmrand"} }
)

var groups = map[string][]seam{
	"codec":   {csprng("csr/transid")},
	"attest":  {},
	"gensign": {csprng("gensign/regular"), csprng("csr/transid"), csprng("agent/ssh"), dial("agent/ssh/connection"), clock("agent/shimagent"), clock("sshutils/cert")},
	"shim":    {clock("agent/shimagent"), clock("sshutils/cert"), dial("agent/ssh/connection"), dial("agent/utils")},
	"conc": {clock("agent/shimagent"), clock("sshutils/cert"), dial("agent/ssh/connection"), dial("agent/utils"),
		sched("agent/shimagent"), sched("agent/yubiagent"), sched("mod:golang.org/x/crypto:ssh/agent/client.go")},
	"yubi": {clock("agent/shimagent"), clock("sshutils/cert"), dial("agent/ssh/connection"), dial("agent/utils")},
	"ca":   {jitter("internal/backoff")},
}

func die(f string, a ...any) {
	fmt.Fprintf(os.Stderr, "mkoverlay: "+f+"\n", a...)
	os.Exit(2)
}

func main() {
	repo := flag.String("repo", "/repo", "repository root")
	verif := flag.String("verif", "/verif", "verif root")
	group := flag.String("group", "", "build group")
	out := flag.String("out", "", "scratch output directory")
	flag.Parse()
	seams, ok := groups[*group]
	if !ok {
		die("unknown group %q", *group)
	}
	if err := os.MkdirAll(*out, 0o755); err != nil {
		die("%v", err)
	}
	replace := map[string]string{}

	// (a) harness packages
	hroot := filepath.Join(*verif, "harness")
	filepath.Walk(hroot, func(p string, info os.FileInfo, err error) error {
		if err != nil || info.IsDir() || !strings.HasSuffix(p, ".go") {
			return nil
		}
		rel, _ := filepath.Rel(hroot, p)
		var virt string
		if strings.HasPrefix(rel, "rt"+string(filepath.Separator)) {
			virt = filepath.Join(*repo, "zzverifrt", strings.TrimPrefix(rel, "rt"+string(filepath.Separator)))
		} else {
			virt = filepath.Join(*repo, "internal", "zzverif", rel)
		}
		replace[virt] = p
		return nil
	})

	// (b) seams: files may be rewritten by several seams, so work on an in-memory copy keyed by original path
	content := map[string][]byte{}
	for _, s := range seams {
		var files []string
		if strings.HasPrefix(s.dir, "mod:") {
			parts := strings.SplitN(s.dir, ":", 3)
			cmd := exec.Command("go", "list", "-m", "-f", "{{.Dir}}", parts[1])
			cmd.Dir = *repo
			cmd.Env = append(os.Environ(), "GOFLAGS=", "GOPROXY=off", "GOTOOLCHAIN=local")
			o, err := cmd.Output()
			if err != nil {
				die("go list -m %s: %v", parts[1], err)
			}
			files = []string{filepath.Join(strings.TrimSpace(string(o)), parts[2])}
		} else {
			ents, err := os.ReadDir(filepath.Join(*repo, s.dir))
			if err != nil {
				die("%v", err)
			}
			for _, e := range ents {
				n := e.Name()
				if e.IsDir() || !strings.HasSuffix(n, ".go") || strings.HasSuffix(n, "_test.go") {
					continue
				}
				files = append(files, filepath.Join(*repo, s.dir, n))
			}
		}
		for _, f := range files {
			src, ok := content[f]
			if !ok {
				b, err := os.ReadFile(f)
				if err != nil {
					die("%v", err)
				}
				src = b
			}
			content[f] = rewrite(f, src, s.from, s.to)
		}
	}
	var names []string
	for f := range content {
		names = append(names, f)
	}
	sort.Strings(names)
	for i, f := range names {
		dst := filepath.Join(*out, fmt.Sprintf("seam%03d_%s", i, filepath.Base(f)))
		if err := os.WriteFile(dst, content[f], 0o644); err != nil {
			die("%v", err)
		}
		replace[f] = dst
	}
	js, _ := json.MarshalIndent(map[string]any{"Replace": replace}, "", " ")
	if err := os.WriteFile(filepath.Join(*out, "overlay.json"), js, 0o644); err != nil {
		die("%v", err)
	}
}

// rewrite redirects the import of path `from` to `to`, keeping the local name, in place.
func rewrite(name string, src []byte, from, to string) []byte {
	fset := token.NewFileSet()
	f, err := parser.ParseFile(fset, name, src, parser.ImportsOnly)
	if err != nil {
		// an unparsable tree file is a build failure of the tree, reported by go build
		return src
	}
	for _, im := range f.Imports {
		p, _ := strconv.Unquote(im.Path.Value)
		if p != from {
			continue
		}
		start := fset.Position(im.Path.Pos()).Offset
		end := fset.Position(im.Path.End()).Offset
		repl := strconv.Quote(to)
		if im.Name == nil {
			base := from[strings.LastIndex(from, "/")+1:]
			repl = base + " " + repl
		}
		out := append([]byte{}, src[:start]...)
		out = append(out, repl...)
		out = append(out, src[end:]...)
		return out
	}
	return src
}
