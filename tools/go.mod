module veriftools

go 1.23
