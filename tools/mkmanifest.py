#!/usr/bin/env python3
"""Generates /verif/MANIFEST.json from the table below (kept in one place so it is always schema-valid)."""
import json, os, sys
V = os.path.dirname(os.path.dirname(os.path.abspath(__file__)))
BASE = "for m in $(cat /w/out/gomods.txt); do MF=$(cd /repo/$m && . /w/out/goenv.sh && gomodflag); (cd /repo/$m && go test $MF -json -vet=off -count=1 -timeout 25m ./...); done"

# id -> (category, engine, technique, text, note, design_ref)
CHECKS = {}
def chk(i, cat, eng, tech, text, note, ref):
    CHECKS[i] = dict(cat=cat, eng=eng, tech=tech, text=text, note=note, ref=ref)

exec(open(os.path.join(V, "tools", "checks_table.py")).read())

props = [json.loads(l)["id"] for l in open(os.path.join(V, "properties.jsonl"))]
checks, na = [], []
for p in props:
    if p in CHECKS:
        c = CHECKS[p]
        checks.append({
            "property_id": p,
            "quick_cmd": f"./run.sh {p} quick",
            "thorough_cmd": f"./run.sh {p} thorough",
            "evidence_file": f"/verif/evidence/{p}.json",
            "replay_cmd_template": f"./run.sh {p} --replay {{path}}",
            "engine": c["eng"],
            "level_claimed": {"category": c["cat"], "text": c["text"], "design_ref": c["ref"]},
            "level_note": c["note"],
            "technique": c["tech"],
        })
    else:
        na.append({"property_id": p, "reason": NA.get(p, "check not built yet (work in progress; see DESIGN.md section 9)")})
m = {
    "version": 1,
    "setup_cmd": "./setup.sh",
    "hooks": {
        "guard": "verif",
        "enable": "no hook is committed to /repo: every check runs tools/mkoverlay, which copies the current working-tree files of the seamed packages with one import path redirected per seam (time, sync, net, crypto/rand, math/rand -> /verif/harness/rt shims) and builds with `go build -tags verif -overlay <generated>.json` from cwd=/repo; harness files carry //go:build verif",
        "baseline_off_cmd": BASE,
        "source_commits": [],
        "add_only": True,
    },
    "engines": ENGINES,
    "checks": checks,
    "not_applicable": na,
    "notes": NOTES,
}
json.dump(m, open(os.path.join(V, "MANIFEST.json"), "w"), indent=1)
print("checks:", len(checks), "not_applicable:", len(na))
