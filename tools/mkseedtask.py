#!/usr/bin/env python3
# mkseedtask.py <suffix> <Cxx>... : create a scratch worktree /tmp/seed/<Cxx><suffix> of /repo HEAD for each listed
# property and write the TASK.md a fresh sub-agent is given (property text + anchor files + ideas already taken, read from
# seeded/<Cxx>-*/ directory names). Nothing from /verif except the property text goes into the task.
import json, subprocess, sys, os, glob
V = os.path.dirname(os.path.dirname(os.path.abspath(__file__)))
props = {json.loads(l)['id']: json.loads(l) for l in open(V + '/properties.jsonl')}
suffix, ids = sys.argv[1], sys.argv[2:]
os.makedirs('/tmp/seed', exist_ok=True)
for pid in ids:
    d = f"/tmp/seed/{pid}{suffix}"
    subprocess.run(["git", "-C", "/repo", "worktree", "add", "--detach", "-q", d, "HEAD"], check=True)
    p = props[pid]
    taken = sorted(os.path.basename(x)[4:].replace('-', ' ') for x in glob.glob(f"{V}/seeded/{pid}-*"))
    tk = "\n".join(" - " + x for x in taken)
    files = "\n".join(" - " + f for f in p['anchors']['files'])
    open(d + "/TASK.md", "w").write(f"""# Task

You are working in this directory only: {d} (a scratch git worktree of the Go project theparanoids/ysshra).
Do NOT read or write anything under /root/.claude, /verif or /repo. Do not commit. Do NOT use `git stash` (the stash is
shared with other worktrees of the same repository and other people are working in them right now); to compare with the
original code use `git apply -R patch.diff` and `git apply patch.diff`, or keep copies of the files you edit.
Work offline: every go command needs `export GOFLAGS=-mod=mod GOPROXY=off GOSUMDB=off GOTOOLCHAIN=local`.
The machine is busy: a full `go test ./...` can take a few minutes; a test that fails only under `-count>1` or only under
load is not acceptable as "the suite passes".

Below is one semantic property that the code is supposed to satisfy. Write ONE realistic source change (the kind of
refactoring, optimisation or 'tidy-up' a maintainer might merge) that BREAKS this property while

 1. the project still compiles and the full existing test suite still passes with the change
    (`go test -vet=off -count=1 -timeout 300s ./...`), and
 2. the breakage needs something specific to manifest. Prefer a change that needs TWO conditions jointly - e.g. a
    particular history of calls AND an unusual but legal input; a long-lived object reused across requests AND a fault at a
    particular point; a particular configuration AND a particular ordering or interleaving - so that a checker exploring
    each dimension on its own would not see it. It must not fail on the first ordinary call.

The property depends on these files (a change in a helper they call is fine too):
{files}

The following ideas are already taken; use a different mechanism, and prefer a file/function none of them touches:
{tk}

Deliver, all inside {d}:
 - the source change applied in the working tree (uncommitted), and the same change as `patch.diff`
   (`git diff -- . ':!*zz_demo*' > patch.diff`, source files only, no test files);
 - a demonstration `zz_demo_test.go` (in whichever package is convenient; a NEW file, do not edit existing tests) that
   FAILS with the change and PASSES on the original code; verify both, and verify the existing suite passes with the
   change (skip your demo with `-skip`);
 - `NOTES.md`: what the change is, why it breaks the property, exactly what it needs to manifest, and the commands you ran
   with their outcomes.

# The property

id: {pid}
title: {p['title']}

statement: {p['statement']}

quantifier: {p['quantifier']['text']}

why existing tests cannot settle it: {p['why_tests_cant']}

anchors: {json.dumps(p['anchors'].get('mechanism'), indent=1)}
""")
    print(d)
