#!/bin/bash
# mutant.sh [-t] <patch.diff> <property-id>... : apply a patch to a scratch worktree of /repo (outside /repo and /verif),
# optionally (-t) run the repository's test suite there, run the named quick checks against it, remove the worktree.
set -u
V="$(cd "$(dirname "${BASH_SOURCE[0]}")/.." && pwd)"
tests=0; if [ "$1" = "-t" ]; then tests=1; shift; fi
patch="$(readlink -f "$1")"; shift
wt="$(mktemp -d /tmp/vmut.XXXXXX)"
git -C /repo worktree add --detach -q "$wt" HEAD || exit 2
cleanup() { git -C /repo worktree remove --force "$wt" 2>/dev/null; rm -rf "$wt"; git -C /repo worktree prune; }
trap cleanup EXIT
# carry uncommitted working-tree changes of /repo too (normally none)
git -C /repo diff HEAD | (cd "$wt" && git apply --allow-empty 2>/dev/null)
(cd "$wt" && git apply "$patch") || { echo "PATCH-DOES-NOT-APPLY $patch"; exit 2; }
if [ $tests = 1 ]; then
  if (cd "$wt" && GOFLAGS=-mod=mod GOPROXY=off GOTOOLCHAIN=local go test -vet=off -count=1 -timeout 180s ./... > "$wt/.test.log" 2>&1); then
    echo "TESTS pass with $(basename "$(dirname "$patch")")/$(basename "$patch")"
  else
    echo "TESTS FAIL with $patch"; grep -E "^(FAIL|---)" "$wt/.test.log" | head
  fi
  (cd "$wt" && git checkout -q -- go.mod go.sum 2>/dev/null)
fi
rc=0
for id in "$@"; do
  out="$(VERIF_REPO="$wt" VERIF_EVIDENCE_DIR="$wt/.evidence" "$V/run.sh" "$id" quick 2>&1)"; r=$?
  echo "$out" | grep -E "^(VIOLATION|KNOWN-FINDING|BUILD-FAILURE|C[0-9]+ |  key=)" | head -12
  echo "  -> $id exit=$r"
  [ $r = 1 ] || rc=1
done
exit $rc
