#!/bin/bash
# seedtest.sh [pattern] : run the quick check of every sub-agent seeded change under seeded/<name>/patch.diff against a
# scratch worktree with the change applied (tools/mutant.sh, no repository tests: those were confirmed when the change was
# filed) and record whether it is detected. Results: seeded/RESULTS.tsv. A change filed as "detected by another property's
# check" is run against that check. SEEDTEST_JOBS (default 4) at a time.
set -u
V="$(cd "$(dirname "${BASH_SOURCE[0]}")" && pwd)"
pat="${1:-}"
out="$V/seeded/RESULTS.tsv"
dir="$(mktemp -d)"
one() {
  d="$1"; V="$2"; dir="$3"
  name="$(basename "$d")"
  id="${name%%-*}"
  other="$(python3 -c "
import json,re,sys
m=json.load(open('$d/meta.json')); o=m.get('detected_by_other_check') or ''
r=re.match(r'(C\d\d)',o); print(r.group(1) if r and not m.get('detected_by_quick_check',True) else '')")"
  ids="$id"; [ -n "$other" ] && ids="$other"
  log="$(VERIF_NO_RACE=1 timeout 1500 "$V/tools/mutant.sh" "$d/patch.diff" $ids 2>&1)"
  det="no"; echo "$log" | grep -q "exit=1" && det="yes"
  echo "$log" | grep -q "exit=2" && det="build-failure"
  echo "$log" | grep -q "exit=124" && det="timeout"
  keys="$(echo "$log" | grep -o 'key=[^ ]*' | sort -u | head -3 | tr '\n' ' ')"
  printf "%s\t%s\t%s\t%s\n" "$name" "$ids" "$det" "$keys" | tee "$dir/$name.row"
}
export -f one
ls -d "$V"/seeded/*${pat}*/ | sed 's#/$##' | xargs -P "${SEEDTEST_JOBS:-4}" -I{} bash -c 'one "$@"' _ {} "$V" "$dir"
{
  printf "seeded_change\tcheck_run\tdetected\tviolation_keys\n"
  {
    cat "$dir"/*.row 2>/dev/null
    if [ -f "$out" ]; then
      tail -n +2 "$out" | while IFS=$'\t' read -r name rest; do
        [ -f "$dir/$name.row" ] || { [ -d "$V/seeded/$name" ] && printf "%s\t%s\n" "$name" "$rest"; }
      done
    fi
  } | sort
} > "$out.new" && mv "$out.new" "$out"
rm -rf "$dir"
awk -F'\t' 'NR>1{n++; if($3=="yes")d++} END{printf "seeded=%d detected=%d\n", n, d}' "$out"
