#!/bin/bash
# run.sh <property-id> <quick|thorough|--replay <file>> : regenerate overlay from /repo's working tree,
# build the property's group with seams, run the check, write evidence. exit 0 held / 1 violation / 2 infrastructure.
set -u
VERIF_DIR="$(cd "$(dirname "${BASH_SOURCE[0]}")" && pwd)"
export VERIF_DIR
REPO="${VERIF_REPO:-/repo}"
id="${1:?property id}"; shift
tier="${1:-quick}"
args=()
if [ "$tier" = "--replay" ]; then args=(-replay "$2"); tier=quick; fi
case "$id" in
  C01|C02|C03|C04) group=gensign ;;
  C05|C14|C15|C19) group=codec ;;
  C06|C16) group=attest ;;
  C07|C08|C09|C10) group=shim ;;
  C11|C20) group=conc ;;
  C12|C13) group=yubi ;;
  C17|C18) group=ca ;;
  *) echo "unknown property $id" >&2; exit 2 ;;
esac
export GOFLAGS= GOPROXY=off GOSUMDB=off GOTOOLCHAIN=local GONOSUMDB=* GONOSUMCHECK=1 GOWORK=off
export GODEBUG=goindex=0
{ [ -x "$VERIF_DIR/tools/bin/mkoverlay" ] && [ "$VERIF_DIR/tools/bin/mkoverlay" -nt "$VERIF_DIR/tools/mkoverlay/main.go" ]; } || (cd "$VERIF_DIR/tools" && go build -o bin/mkoverlay ./mkoverlay) || exit 2
scratch="$VERIF_DIR/.build/$group.$$"
mkdir -p "$scratch"
trap 'rm -rf "$scratch"' EXIT
"$VERIF_DIR/tools/bin/mkoverlay" -repo "$REPO" -verif "$VERIF_DIR" -group "$group" -out "$scratch" || exit 2
build() { # build <output> <extra flags...>
  local out="$1"; shift
  (cd "$REPO" && go build -tags verif "$@" -overlay "$scratch/overlay.json" -o "$out" \
     "github.com/theparanoids/ysshra/internal/zzverif/cmd/vc-$group") 2> "$scratch/build.log"
}
if ! build "$scratch/vc"; then
  echo "BUILD-FAILURE group=$group (not evidence about the property)" >&2
  head -40 "$scratch/build.log" >&2
  exit 2
fi
if [ "$group" = conc ] && [ "${VERIF_NO_RACE:-0}" != 1 ]; then
  if ! build "$scratch/vc-race" -race; then
    echo "BUILD-FAILURE group=$group (-race)" >&2; head -40 "$scratch/build.log" >&2; exit 2
  fi
  export VERIF_RACE_BIN="$scratch/vc-race"
fi
ulimit -v $((48*1024*1024)) 2>/dev/null || true
"$scratch/vc" -prop "$id" -tier "$tier" "${args[@]}"
rc=$?
exit $rc
